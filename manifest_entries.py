chk('C20', 'exhaustive enumeration + Hypothesis vs independent calendar / two\'s-complement / roman reference',
    'Every date serial (thorough; 1/4 + all boundary blocks in quick), every second, all 1024 binary values, all 4000x5 ROMAN arguments are enumerated and compared with an independent reference; octal/hex sampled with every power-of-two boundary; DATE overflow grid and random triples. Enumeration is the right level: the domains are finite and the laws are per-value.',
    'Trusts my reference calendar (datetime ordinal arithmetic + hand-patched 1900 quirk) and Python int for two\'s complement; octal/hex are sampled, not exhaustive.',
    'DESIGN.md 2/C20')
