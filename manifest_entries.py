chk('C20', 'exhaustive enumeration + Hypothesis vs independent calendar / two\'s-complement / roman reference',
    'Every date serial (thorough; 1/4 + all boundary blocks in quick), every second, all 1024 binary values, all 4000x5 ROMAN arguments are enumerated and compared with an independent reference; octal/hex sampled with every power-of-two boundary; DATE overflow grid and random triples. Enumeration is the right level: the domains are finite and the laws are per-value.',
    'Trusts my reference calendar (datetime ordinal arithmetic + hand-patched 1900 quirk) and Python int for two\'s complement; octal/hex are sampled, not exhaustive.',
    'DESIGN.md 2/C20')
chk('C06', 'exhaustive pair enumeration + Hypothesis multi-area search vs a cell-set model',
    'All ordered pairs of rectangles of a 4x4 (quick) / 5x5 (thorough) grid for the four reference operators and simplify(), on Ranges objects with values and through SUM/COUNT formulas, against Python set/multiset arithmetic; Hypothesis adds multi-area operands, whole rows/columns, cross-sheet operands and grids of mixed value kinds. Exhaustive on the small grid because every relation of two rectangles (disjoint, touching, overlapping, containing, equal) already occurs there.',
    'Trusts the cell-set reading of the four operators given in the property; reversed-corner literals (A3:A1) and a parenthesised operand next to a bare one are outside the asserted grammar.',
    'DESIGN.md 2/C06')
chk('C02', 'complete operand-kind cross product + Hypothesis floats vs own scalar reference (xlref)',
    'The full cross product of a 38-45 value pool x 12 binary + 3 unary operators is enumerated in two spellings (cell values through a Dispatcher, literals through Parser.compile) and compared with an independent implementation of Excel\'s coercion / error / power / display / ordering rules; an oracle-free trichotomy + transitivity check over all pool triples; 5k-200k random float pairs. Enumeration of kinds is the right level: the rules are per kind pair.',
    'Trusts xlref.core (my reading of Excel\'s operator rules). Ordering of text containing punctuation/non-ASCII is collation dependent and only (in)equality is asserted there; number display is asserted exactly only for <=15 significant digits in [1e-9,1e15).',
    'DESIGN.md 2/C02')
chk('C03', 'Hypothesis workbook generator vs independent workbook evaluator; differential over load paths, orders and hash seeds',
    'Random acyclic multi-book workbooks (all reference forms incl. names, array formulas, whole columns, unpopulated cells) are evaluated by an independent reference evaluator and compared cell by cell with the model loaded from a dict (several key orders) and from xlsx files (every book order, permuted sheet order); batches are re-run in child processes under other PYTHONHASHSEED values. Search, not enumeration: the space of workbooks is unbounded.',
    'Trusts xlref.wb on a restricted formula grammar; cells whose reference value is UNSURE are not asserted; hash seeds and orders are sampled (2-4 seeds, 3-5 orders per workbook).',
    'DESIGN.md 2/C03')
chk('C15', 'Hypothesis workbook generator; differential partial-load vs full-load vs independent evaluator',
    'Random multi-book workbooks on disk; every formula cell as a singleton output plus random sets of <= 4 outputs are loaded with from_ranges and compared with the fully loaded model and with the independent evaluator; a second finish()/complete() must not change graph or values.',
    'Trusts xlref.wb on the restricted grammar and the full-load path as second oracle; unpopulated outputs not asserted.',
    'DESIGN.md 2/C15')
chk('C09', 'Hypothesis workbook generator with a tricky-constant alphabet; round-trip and fixed-point oracle',
    'Random workbooks whose constants include text that looks like formulas, errors, the blank marker, quotes, newlines, extreme numbers, and sheet names that need quoting are exported with to_dict, sent through json and re-imported: values of every cell must agree before/after and with the independent evaluator, the second export must equal the first (third equals second), and every exported formula must re-parse to itself.',
    'Round trip needs no reference semantics; the load comparison trusts xlref.wb. Formula-tree-level round trip (all C01 trees) is asserted in C01.',
    'DESIGN.md 2/C09')
chk('C16', 'Hypothesis workbook generator; written books read back and compared cell by cell with the solution',
    'Random workbooks, plain and overridden calculations, three sinks (fresh books, loaded books of a partial model, disk + openpyxl data_only): every cell of every solved node must sit at its own book/sheet/coordinates with the normalised value, cells outside the solution must be untouched, compare() with the written files must be empty.',
    'The solution is taken from the model (its correctness is C03/C07); an openpyxl cell holding "" counts as empty; circular models are not written.',
    'DESIGN.md 2/C16')
