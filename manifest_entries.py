chk('C20', 'exhaustive enumeration + Hypothesis vs independent calendar / two\'s-complement / roman reference',
    'Every date serial (thorough; 1/4 + all boundary blocks in quick), every second, all 1024 binary values, all 4000x5 ROMAN arguments are enumerated and compared with an independent reference; octal/hex sampled with every power-of-two boundary; DATE overflow grid and random triples. Enumeration is the right level: the domains are finite and the laws are per-value.',
    'Trusts my reference calendar (datetime ordinal arithmetic + hand-patched 1900 quirk) and Python int for two\'s complement; octal/hex are sampled, not exhaustive.',
    'DESIGN.md 2/C20')
chk('C06', 'exhaustive pair enumeration + Hypothesis multi-area search vs a cell-set model',
    'All ordered pairs of rectangles of a 4x4 (quick) / 5x5 (thorough) grid for the four reference operators and simplify(), on Ranges objects with values and through SUM/COUNT formulas, against Python set/multiset arithmetic; Hypothesis adds multi-area operands, whole rows/columns, cross-sheet operands and grids of mixed value kinds. Exhaustive on the small grid because every relation of two rectangles (disjoint, touching, overlapping, containing, equal) already occurs there.',
    'Trusts the cell-set reading of the four operators given in the property; reversed-corner literals (A3:A1) and a parenthesised operand next to a bare one are outside the asserted grammar.',
    'DESIGN.md 2/C06')
chk('C02', 'complete operand-kind cross product + Hypothesis floats vs own scalar reference (xlref)',
    'The full cross product of a 38-45 value pool x 12 binary + 3 unary operators is enumerated in two spellings (cell values through a Dispatcher, literals through Parser.compile) and compared with an independent implementation of Excel\'s coercion / error / power / display / ordering rules; an oracle-free trichotomy + transitivity check over all pool triples; 5k-200k random float pairs. Enumeration of kinds is the right level: the rules are per kind pair.',
    'Trusts xlref.core (my reading of Excel\'s operator rules). Ordering of text containing punctuation/non-ASCII is collation dependent and only (in)equality is asserted there; number display is asserted exactly only for <=15 significant digits in [1e-9,1e15).',
    'DESIGN.md 2/C02')
chk('C03', 'Hypothesis workbook generator vs independent workbook evaluator; differential over load paths, orders and hash seeds',
    'Random acyclic multi-book workbooks (all reference forms incl. names, array formulas, whole columns, unpopulated cells) are evaluated by an independent reference evaluator and compared cell by cell with the model loaded from a dict (several key orders) and from xlsx files (every book order, permuted sheet order); batches are re-run in child processes under other PYTHONHASHSEED values. Search, not enumeration: the space of workbooks is unbounded.',
    'Trusts xlref.wb on a restricted formula grammar; cells whose reference value is UNSURE are not asserted; hash seeds and orders are sampled (2-4 seeds, 3-5 orders per workbook).',
    'DESIGN.md 2/C03')
chk('C15', 'Hypothesis workbook generator; differential partial-load vs full-load vs independent evaluator',
    'Random multi-book workbooks on disk; every formula cell as a singleton output plus random sets of <= 4 outputs are loaded with from_ranges and compared with the fully loaded model and with the independent evaluator; a second finish()/complete() must not change graph or values.',
    'Trusts xlref.wb on the restricted grammar and the full-load path as second oracle; unpopulated outputs not asserted.',
    'DESIGN.md 2/C15')
chk('C09', 'Hypothesis workbook generator with a tricky-constant alphabet; round-trip and fixed-point oracle',
    'Random workbooks whose constants include text that looks like formulas, errors, the blank marker, quotes, newlines, extreme numbers, and sheet names that need quoting are exported with to_dict, sent through json and re-imported: values of every cell must agree before/after and with the independent evaluator, the second export must equal the first (third equals second), and every exported formula must re-parse to itself.',
    'Round trip needs no reference semantics; the load comparison trusts xlref.wb. Formula-tree-level round trip (all C01 trees) is asserted in C01.',
    'DESIGN.md 2/C09')
chk('C16', 'Hypothesis workbook generator; written books read back and compared cell by cell with the solution',
    'Random workbooks, plain and overridden calculations, three sinks (fresh books, loaded books of a partial model, disk + openpyxl data_only): every cell of every solved node must sit at its own book/sheet/coordinates with the normalised value, cells outside the solution must be untouched, compare() with the written files must be empty.',
    'The solution is taken from the model (its correctness is C03/C07); an openpyxl cell holding "" counts as empty; circular models are not written.',
    'DESIGN.md 2/C16')
chk('C08', 'Hypothesis workbook/formula generator; differential compiled-vs-interpreted-vs-reference',
    'Model level: random workbooks x input lists (constant cells, formula cells, single/multi-cell names, ranges) x output lists mixing dependent and independent cells x argument tuples of every kind: compile(ins, outs)(*args) must equal a fresh model\'s calculate with those inputs and the independent evaluator. Formula level: random scalar trees compiled with Parser, arguments in func.inputs order, must equal the same formula with the arguments written as literals and the reference evaluator; swapping two arguments must swap their meaning.',
    'Precondition by construction: >= 1 output downstream of the inputs, no output is an input (compile refuses other lists loudly). Multi-cell inputs consist of populated, non-array cells and contain no blank elements. Aggregations are excluded at formula level (reference vs literal semantics differ there).',
    'DESIGN.md 2/C08')
chk('C14', 'Hypothesis workbook generator + fault injection (files deleted/corrupted, unknown names); metamorphic W vs W+faults through the reference evaluator',
    'Random workbooks with 1-3 injected faults (unknown functions incl. _xlfn., absent sheets, absent / unreadable workbook files, undefined names, #REF! literals), replacing constants that W\'s own formulas depend on or in free cells, each with strict / IFERROR / ISERROR dependents; both load paths. Loading and calculation must return, faulty cells must be #NAME? / #REF!, every other cell must equal the independent evaluation of W with the faulty cells replaced by that error.',
    'Which of #REF!/#NAME? a reference fault shows is not asserted; a corrupt primary file passed to loads() is not generated.',
    'DESIGN.md 2/C14')
chk('C01', 'exhaustive operator pair/triple chains + Hypothesis trees x spellings vs an independent precedence-climbing parser and tree evaluator',
    'Every ordered pair and triple of the 12 binary operators with every single decoration on each operand (31 249 chains, thorough; 3 601 quick) plus random trees to depth 5 over the whole vocabulary in 3-7 spellings each (parentheses, whitespace, case, number formats, sign runs); expected tree from a parser written from Excel\'s precedence table; shape (get_expr, __name__, to_dict), values on 5-8 operand assignments, spelling invariance and export round trip are asserted. A spy function registered through get_functions() observes argument splitting.',
    'Trusts vf/gen/trees.parse_chain (own precedence table) and vf/xlref/evaltree; spellings with sign runs assert values only; x%% and reversed-corner ranges are outside the grammar.',
    'DESIGN.md 2/C01')
chk('C04', 'exhaustive column enumeration + boundary enumeration + Hypothesis spellings; relational identity/injectivity/read-back oracle',
    'All 16 384 columns both ways; 360 boundary rectangles x every form x $ subsets x case x qualifier; every legal sheet-name character; Hypothesis rectangles x 7 sheet-name classes x workbook/directory qualifiers x 6-8 spellings; near-miss pairs; defined names. All spellings of one denotation must give one identifier at both observation points, different denotations different identifiers, every identifier must read back to itself and the same rectangle, and be the input key of a compiled formula.',
    'No identifier format is asserted, only relations. [0]Sheet!, book-qualified names, texts beyond XFD, leading/trailing blanks in sheet names are not asserted.',
    'DESIGN.md 2/C04')
chk('C05', 'enumerated shape combinations + Hypothesis; array call vs per-element scalar calls vs own lift/fit reference',
    'Value shapes x destination shapes x 8 observation points for fitting; 12 binary + 3 unary operators x all compatible shape pairs; ~60 element-wise functions over compatible shape tuples; CONCATENATE/IFS/SWITCH with 1-40 arguments padded across the 31/32 boundary. Oracles: the same function called once per element, an independent lift/fit implementation, few-vs-many argument equality.',
    'Incompatible shapes (BroadcastError, pinned by the repo\'s tests) and single-cell destinations with multi-cell plain values (implicit intersection) are not asserted.',
    'DESIGN.md 2/C05')
chk('C10', 'exhaustive digraph enumeration + Hypothesis cyclic workbooks with a three-valued per-cell oracle; child processes for hash seeds',
    'simple_cycles against brute force on all 66 066 digraphs with <= 4 nodes (both tiers) and random graphs to 9 nodes; random workbooks on cyclic dependency graphs with strict and guarded (IF/IFS/IFERROR/IFNA) edges, all guard values, dict and file routes, insertion orders, PYTHONHASHSEED 0..3 in children; each cell is MUST_CIRC / MUST_VALUE(v) / EITHER(v) from an independent lazy evaluator.',
    'Cycles mixing selected and unselected guarded branches are EITHER (the statement promises resolution only when none is selected); which error a dependent shows is not asserted; termination is observed with a watchdog (a trip is inconclusive).',
    'DESIGN.md 2/C10')
chk('C11', 'per-function sweep over a hand-written arity table + Hypothesis tuples; totality, value-domain and error-propagation oracle with exception bucketing',
    'Every name in the function table x every admissible arity x a baseline tuple with each position replaced by every pool value (scalars of all kinds, blanks, ranges, arrays), plus random tuples; observed at Cell level (raises=True) and at get_functions()[F](*args). No exception, only Excel values, and - outside the documented exempt list - an error in a consumed argument gives an error result. Failures are bucketed by (exception type, innermost repo frame).',
    'Arity table from Excel\'s documentation (2 names unverified, listed in evidence); non-terminating digit arguments are bounded by construction and probed once in a killable child.',
    'DESIGN.md 2/C11')
chk('C12', 'boundary grids + Hypothesis argument tuples per function family vs one reference implementation per function',
    '84 listed functions; each call is one =FUNC(args) through Cell with typed literals, references (1x1-3x3 with blanks), array constants or omitted slots; permuted calls for order-invariant functions; lifted calls for element-wise ones; ROUND family on Decimal(repr(x)); each reference has an explicit asserted domain, outside it only "an Excel value comes back" is asserted.',
    'Trusts vf/xlref/c12_funcs.py (my reading of Excel\'s definitions); numeric text inside referenced ranges under aggregations, locale-dependent text and |x| < 1e-4 display are not asserted.',
    'DESIGN.md 2/C12')
chk('C13', 'enumerated volatile-term x context x path grid + Hypothesis formulas/workbooks with a harness-controlled clock',
    'NOW/TODAY/RAND/RANDBETWEEN inside 0-6 nested contexts through 11 ways of obtaining an executable (Parser compile, its deepcopy/dill, Cell, from_dict, JSON, deepcopy/dill of the model, xlsx file, file+JSON, ExcelModel.compile), 3-6 calls with the clock advanced (incl. across midnight/month/year ends); NOW/TODAY must equal the harness instant of each call, RAND/RANDBETWEEN must lie in range and change, dependents must agree with their precedent in the same solution.',
    'The clock is replaced by a shim module installed per case through sut; np.random seeded from the case; two volatile calls in one formula are not asserted.',
    'DESIGN.md 2/C13')
chk('C18', 'atheris coverage-guided fuzzing + Hypothesis token soups / single-edit mutants / random text with an own partial grammar as validity predicate',
    'Only FormulaError may leave Parser.ast (escapes bucketed by exception type and innermost frame); texts my grammar classifies as certainly invalid (unbalanced brackets, unterminated strings, stray characters, missing/adjacent operands, ragged arrays) must be rejected; numeric literals in every Excel form must evaluate to Decimal(text); accepted texts the grammar calls valid must round-trip. atheris runs the same oracle inside the target (falls back to Hypothesis only, labelled, if unavailable).',
    'The validity predicate claims only texts it can classify with certainty; round trip through quoted sheet names / sign runs / x%% is excluded (owned by C04/C01).',
    'DESIGN.md 2/C18')
chk('C19', 'enumerated key-vector / table / criteria grids + Hypothesis vs linear-scan reference definitions and INDEX(MATCH()) metamorphic relation',
    'MATCH in all modes on sorted number/text/logical vectors (keys below/at/between/above/other type, other letter case, wildcards) and exact mode on every short mixed vector with duplicates/blanks/errors; INDEX on all shapes up to 6x6 with indexes in/at/beyond bounds; LOOKUP/VLOOKUP/HLOOKUP compared with own reference and with the repo\'s INDEX(..,MATCH(..)); COUNTIF/SUMIF/AVERAGEIF for 72 criteria x ranges of every kind against per-element matching.',
    'Approximate modes on unsorted/duplicated keys, blank/error lookup values and criteria, ~~ escapes and numeric-looking text inside ranges are not asserted.',
    'DESIGN.md 2/C19')
chk('C07', 'model-based operation histories (Hypothesis, shrunk as one value) against an independent evaluator and a fresh model',
    'Histories of 2-8 operations (calculate with overrides on constant/formula cells, names, ranges and output subsets; compile+call; to_dict; write; deepcopy-and-continue; finish again); after every calculate the result must equal the independent evaluation with the overridden cells as constants, the same call on a fresh model, and the unrestricted run on every returned node.',
    'Trusts xlref.wb on the restricted grammar; multi-cell overrides consist of populated non-array cells without blank elements.',
    'DESIGN.md 2/C07')
chk('C17', 'model-based histories over original / deepcopy / dill copies, compared with fresh objects; compiled functions copied and called interleaved',
    'Up to three live objects (original, deepcopy, dill round trip) of one model receive interleaved calculate-with-overrides / compile+call (the compiled function is itself copied) / finish / to_dict / write; every observed result must equal the independent evaluation and a fresh model. Formula-level compiled functions are copied and called interleaved with different arguments; circular models are copied and compared with fresh ones.',
    'A copy carries no cells/books (the repo drops them on pickling): re-finishing a copy is only required not to disturb the others. Shared-memo base conversions are covered by C20 (interleaved part).',
    'DESIGN.md 2/C17')

# ---- additions made after the seeded-change rounds (appended to the level text of each check)
_EXTRA = {
    'C02': 'Third spelling for cell-valued operands: the compiled function of =B1 op C1 called directly with the two values.',
    'C03': 'File presentations also with cross-book references in the numbered-link form of real xlsx files ([k]Sheet!A1 + external-link parts incl. non-xlsx targets), array areas across the Z/AA and ZZ/AAA column borders with cached spill values, text constants that start like an error value.',
    'C04': 'Third observation point for relative R1C1 spellings: Cell(host address, formula).compile().inputs; the host workbook directory is varied for numbered-link spellings.',
    'C05': 'Enumerated parts: one array of elements equal as Python values but of different Excel kinds (1/TRUE/0/FALSE/"1") in calls of 8-40 arguments; outer(inner(X)) against outer(<literal of inner(X)>) into destinations larger than the result.',
    'C06': 'Operators must leave their operands unchanged; every area of a result must be a rectangle whose name reads back to itself; results of the range operator are used as operands again; references assembled step by step with .value read in between; simplify() over whole rows/columns.',
    'C07': 'Histories also call functions compiled earlier again after the operations in between, supply values through names defined by a formula and through alias names; enumerated sparse-range sequences (rectangles most of whose cells are unpopulated: what-ifs over the whole, a part, through a name, then plain recalculation).',
    'C08': 'A what-if calculation on the model between two calls of the compiled function (same and other targets); enumerated parts: sparse-range sequences (compile / call / what-if interleaved, two functions of one model), alias chains of 2-3 names as inputs; names defined by a formula in the model; an AttributeError/TypeError/KeyError out of compile() is a failure.',
    'C09': 'A dictionary-path part with arbitrary IEEE doubles; the export of a deep copy must equal the export; blank placeholders that are due in the first export whatever the iteration order (narrows listed finding F37) plus enumerated placeholder shapes; unions as one argument and LARGE/SMALL in formulas.',
    'C10': 'Enumerated family: two avoidable cycles, the back edge of one being a rectangle that holds a cell of the other, every guard combination and three cell orders, with signatures of their own.',
    'C12': 'Enumerated metamorphic part: aggregation(IS-function(range)) must equal aggregation(<literal logical array>) for 23 aggregations x 7 inner functions.',
    'C13': 'The re-converging shapes are compiled ten ways: original, deepcopy, copy, dill copy, compiled twice, after a first calculation, after the model grew (volatile cells added by a second import, also into a constant cell and into a blank placeholder cell).',
    'C14': 'Further faults: spill references (ANCHORARRAY) to an absent sheet / absent or unreadable book / a non-array cell; formulas with 2-3 different unresolved items each under its own IFERROR/ISERROR/ISNA (expected: the ordinary intercepted value); #REF! as an operand of the reference operators (any error value accepted, aborting is not).',
    'C15': 'Files also with numbered external links and with array formulas whose spill cells are not stored; enumerated shapes with array areas beyond the rectangle of stored cells.',
    'C16': 'compare() with the solution, without it, without it after a later what-if calculation, with one file at a time and with the files in reverse order.',
    'C17': 'Every to_dict() in a history is imported again and compared with the reference of that object; references to names nobody defines; enumerated sparse-range what-ifs (incl. a value for an unpopulated cell) applied to deepcopy / dill copies taken before or after a first calculation, with the original re-checked afterwards.',
    'C18': 'Enumerated exemplars: every operand form, bare / signed / with postfix %, in every argument position (valid ones: totality and round trip; with a dangling operator: must be rejected).',
}
for _p, _t in _EXTRA.items():
    CHECKS[_p]['text'] = CHECKS[_p]['text'].rstrip() + ' ' + _t
