#!/venv/bin/python
"""Regenerates the generated part of DESIGN.md (between the GENERATED markers): repaired defects (from /repo's
git log), open findings (known_findings.json), seeded changes (seeded/*/meta.json), mutant results."""
import os, json, glob, subprocess, re
ROOT = os.path.dirname(os.path.dirname(os.path.abspath(__file__)))
kf = json.load(open(os.path.join(ROOT, 'known_findings.json')))['findings']
out = []
log = subprocess.check_output(['git', '-C', '/repo', 'log', '--reverse', '--format=%h %s']).decode().splitlines()
fixes = [l for l in log if ' fix:' in l[:13]]
by_commit = {}
for fd in kf:
    if fd.get('status') == 'fixed':
        by_commit.setdefault(fd.get('commit', '')[:7], []).append(fd)
out.append('## 11. Defects repaired in /repo (%d `fix:` commits, each minimal, unguarded; baseline suite re-run: 759/759 stable tests pass)\n' % len(fixes))
out.append('| commit | found by | what failed |\n|---|---|---|')
for l in fixes:
    h, msg = l.split(' ', 1)
    fds = by_commit.get(h[:7], [])
    props = sorted({p for fd in fds for p in fd['properties']})
    ids = ', '.join(fd['id'] for fd in fds)
    out.append('| `%s` | %s %s | %s |' % (h, '/'.join(props) or '-', ('(' + ids + ')') if ids else '', msg.replace('fix: ', '').replace('|', '\\|')))
out.append('')
opened = [fd for fd in kf if fd.get('status') == 'open']
out.append('## 12. Open findings (%d; genuine defects recorded, not repaired - each with replayable examples in known_findings.json)\n' % len(opened))
out.append('| id | properties | what fails | where | why it stays open |\n|---|---|---|---|---|')
WHY = json.load(open(os.path.join(ROOT, 'tools', 'open_reasons.json'))) if os.path.exists(os.path.join(ROOT, 'tools', 'open_reasons.json')) else {}
for fd in opened:
    out.append('| %s | %s | %s | `%s` | %s |' % (fd['id'], ','.join(fd['properties']), fd['what'].replace('|', '\\|').replace('\n', ' ')[:420], fd.get('where', '').replace('|', '\\|')[:90], WHY.get(fd['id'], WHY.get('*', ''))))
out.append('')
seeds = sorted(glob.glob(os.path.join(ROOT, 'seeded', '*', 'meta.json')))
out.append('## 13. Seeded changes (%d confirmed) and which check catches them\n' % len(seeds))
out.append('Each change was written by a fresh sub-agent that saw only the property text and a scratch worktree; I confirmed '
           'each in a scratch worktree of my own (demo passes on HEAD, fails with the patch, the 759 baseline tests still pass) '
           'with `tools/seed_verify.py` before keeping it. `caught` = the owning property\'s check exits 1 against the change.\n')
NOTES = json.load(open(os.path.join(ROOT, 'tools', 'seed_notes.json'))) if os.path.exists(os.path.join(ROOT, 'tools', 'seed_notes.json')) else {}
rounds = {}
for mpath in seeds:
    m = json.load(open(mpath))
    name = os.path.basename(os.path.dirname(mpath))
    rnd = name.rsplit('-r', 1)[1] if '-r' in name else '1'
    pid = m.get('property')
    hist = m.get('checks_history', [])
    now = m.get('checks', {})
    first = hist[0] if hist else now
    caught = lambda ch: any(v.get('rc') == 1 for k, v in ch.items() if k.startswith(pid))
    anyc = lambda ch: any(v.get('rc') == 1 for v in ch.values())
    r = rounds.setdefault(rnd, {'n': 0, 'first': 0, 'now': 0, 'cross': 0})
    r['n'] += 1
    tri = m.get('first_triage', {}).get('verdict')
    r['first'] += caught(first) and tri != 'MISSED'
    r['now'] += caught(now)
    r['cross'] += (not caught(now)) and anyc(now)
out.append('| round | confirmed changes | caught by the owning check when first run | caught by the owning check now | caught only by another property\'s check |\n|---|---|---|---|---|')
for rnd in sorted(rounds):
    r = rounds[rnd]
    out.append('| %s | %d | %d | %d | %d |' % (rnd, r['n'], r['first'], r['now'], r['cross']))
out.append('\nEvery miss was turned into a generator / oracle extension (last column) - never into a special case for the change; the '
           'extension was first run on the unchanged tree at seeds 1-3 (quiet, or a genuine defect: F43-F52 were found this way and repaired).\n')
out.append('| seed | property | what it changes / needs | quick | thorough | killing signatures | strengthened |\n|---|---|---|---|---|---|---|')
for mpath in seeds:
    m = json.load(open(mpath))
    name = os.path.basename(os.path.dirname(mpath))
    ch = m.get('checks', {})
    pid = m.get('property')
    q = ch.get('%s:quick' % pid, {})
    t = ch.get('%s:thorough' % pid, {})
    verdict = lambda c: '-' if not c else {0: 'MISSED', 1: 'caught', 2: 'harness error'}.get(c.get('rc'), str(c.get('rc'))) + (' %.0fs' % c.get('wall_s', 0))
    sigs = (q.get('signatures') or t.get('signatures') or [])[:2]
    others = ['%s' % k.split(':')[0] for k, v in ch.items() if not k.startswith(pid) and v.get('rc') == 1]
    hist = m.get('checks_history', [])
    first = ''
    if m.get('first_triage', {}).get('verdict') == 'MISSED' and not (hist and hist[0].get('%s:quick' % pid, {}).get('rc') == 0):
        first = ' **[first run: quick MISSED (triage run before any strengthening); check strengthened afterwards]**'
    elif hist:
        h0 = hist[0]
        fq, ft = h0.get('%s:quick' % pid, {}), h0.get('%s:thorough' % pid, {})
        first = ' **[first run: quick %s%s; check strengthened afterwards]**' % (
            {0: 'MISSED', 1: 'caught'}.get(fq.get('rc'), '?'), (', thorough %s' % {0: 'MISSED', 1: 'caught'}.get(ft.get('rc'), '?')) if ft else '')
    desc = (m.get('summary', '') + ' / needs: ' + m.get('needs', '')).replace('|', '\\|').replace('\n', ' ')[:330] + first
    out.append('| %s | %s | %s | %s | %s | %s%s | %s |' % (name, pid, desc, verdict(q), verdict(t), '; '.join('`%s`' % s for s in sigs).replace('|', '\\|'),
                                                        (' (also caught by ' + ','.join(sorted(set(others))) + ')') if others else '', NOTES.get(name, '')))
out.append('')
mr = os.path.join(ROOT, 'tools', 'mutants_result.json')
if os.path.exists(mr):
    res = json.load(open(mr))
    out.append('### Development-time mutants (tools/mutants.py; string-replacement mutants in a scratch copy)\n')
    byp = {}
    for k, v in sorted(res.items()):
        byp.setdefault(v['property'], []).append((k, v['verdict'].split(' ')[0]))
    out.append('| property | killed | missed (see section 10 for why) |\n|---|---|---|')
    for pth, lst in sorted(byp.items()):
        out.append('| %s | %d | %s |' % (pth, sum(1 for _, v in lst if v == 'KILLED'), ', '.join(k for k, v in lst if v != 'KILLED') or '-'))
    out.append('')
text = '\n'.join(out)
p = os.path.join(ROOT, 'DESIGN.md')
s = open(p).read()
a, b = '<!-- GENERATED:BEGIN -->', '<!-- GENERATED:END -->'
if a in s:
    s = s[:s.index(a) + len(a)] + '\n' + text + '\n' + s[s.index(b):]
else:
    s = s.rstrip('\n') + '\n\n' + a + '\n' + text + '\n' + b + '\n'
open(p, 'w').write(s)
print('DESIGN.md tables regenerated: %d fixes, %d open, %d seeds' % (len(fixes), len(opened), len(seeds)))
