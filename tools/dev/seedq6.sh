#!/bin/sh
for p in "$@"; do for x in a; do
  if [ -f /tmp/seed6/$p/_seed/$x/patch.diff ] && [ ! -f /root/scratch/seedres/R6-$p-$x.json ]; then echo "$p $x"; fi
done; done | xargs -P 3 -L 1 sh -c 'cd /verif && VF_NOSHRINK=1 tools/seed_verify.py /tmp/seed6/$0/_seed/$1 $0 $(echo $0 | tr A-Z a-z)-$1-r6 > /root/scratch/seedres/R6-$0-$1.json 2>/root/scratch/seedres/R6-$0-$1.err'
