import re, json, os
log=open('/root/scratch/xall6.log').read()
cur=None; res={}
for line in log.splitlines():
    m=re.match(r'== (C\d\d) ([ab])', line)
    if m: cur=(m.group(1), m.group(2)); continue
    m=re.search(r'(\d+) violation\(s\)', line)
    if m and cur: res[cur]=int(m.group(1)); 
for (p,x),n in sorted(res.items()):
    name='%s-%s-r6' % (p.lower(), x)
    mp='/verif/seeded/%s/meta.json' % name
    if not os.path.exists(mp): print('no meta', name); continue
    meta=json.load(open(mp))
    meta['first_triage']={'what':'./check %s quick (VF_NOSHRINK) against the patched tree right after the change was delivered, before any strengthening' % p,'violations':n,'verdict':'caught' if n else 'MISSED'}
    json.dump(meta,open(mp,'w'),indent=1)
print(len(res), {k:v for k,v in res.items() if v==0})
