#!/bin/sh
for i in $(seq -w 1 20); do for x in a b; do
  [ -f /tmp/seed6/C$i/_seed/$x/patch.diff ] || continue
  grep -q "== C$i $x" /root/scratch/xall6.log 2>/dev/null && continue
  echo "== C$i $x"; /root/scratch/xcheck.sh /tmp/seed6/C$i/_seed/$x C$i 2>&1 | tail -3
done; done
