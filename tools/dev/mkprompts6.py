import json, os, glob
R='/tmp/seed6'
HEAD = """You are given a scratch git worktree of the pure-Python package `formulas` (an Excel formula interpreter: tokenizer/parser, schedula dataflow compilation, workbook evaluation) at {R}/{P} (detached HEAD; Python is /venv/bin/python, which has all dependencies). Work ONLY inside {R}/{P}. Do not read or use anything under /verif, and do not touch /repo. NEVER use `git stash` (the stash is shared between worktrees of one repository and other people work in sibling worktrees): to go back to the clean tree use `git diff > {R}/{P}/_my.patch; git checkout -- formulas`, to re-apply use `git apply {R}/{P}/_my.patch`.

TASK: craft realistic code changes to the package that BREAK the semantic property below while the package still imports and the existing test suite still passes. Think of slips a developer could plausibly make: an off-by-one, a dropped case or guard, a wrong default, a stale cache, a comparison flipped, an argument order swapped, a refactoring that merges two passes, two cooperating sites that each look fine alone. Each change must need something specific to manifest - an unusual but legitimate input class, a boundary, a particular multi-step sequence of API calls, a particular insertion/iteration order, a rarely used argument or function - not something ordinary use (or the existing tests) would expose at once. Keep each change small (1-15 lines) and plausible; do not special-case a single magic constant no real developer would write.

"""
TAIL = """DELIVERABLES - produce ONE change, in {R}/{P}/_seed/a/ (you have about 45 minutes: settle on a mechanism quickly), containing:
  patch.diff  - `git diff` of the change against HEAD (must apply with `git apply` to a clean checkout of HEAD);
  demo.py     - a small self-contained program, run as `cd <checkout> && /venv/bin/python _seed/<x>/demo.py` (put the checkout root first on sys.path and assert `formulas.__file__` is inside it), that exits 0 when the property holds for its scenario and non-zero (with a message) when it is violated: it must FAIL with the change applied and PASS on the unchanged HEAD;
  meta.json   - {{"property": "{P}", "summary": "...what was changed...", "needs": "...what it needs in order to manifest...", "files": [...], "tests_run": "...command and result..."}}.
You MUST verify all three yourself: (1) demo.py passes on a clean HEAD, (2) demo.py fails with the patch, (3) the existing tests still pass with the patch: run `cd {R}/{P} && /venv/bin/python -m pytest -q -p no:cacheprovider --timeout=900 test/test_parser.py test/test_tokens.py test/test_ranges.py test/test_excel.py test/test_readme.py test/test_cell.py` (about one minute). The tests `test_output_403`, `test_output_404` and `test_excel_model` fail on the unchanged tree as well: ignore those three, but make sure the error list printed by `test_excel_model` is the same with and without your change. When you run tests make sure the worktree's package is the one imported (`python -c "import formulas; print(formulas.__file__)"` run from {R}/{P} must print a path under it).
The unchanged HEAD already has some defects in this area; if your demo trips over one, choose another scenario (the demo must pass on HEAD). Leave the worktree clean (HEAD checked out, no modifications) except for the _seed/ directory; remove test/test_files/tmp if the tests created it. Never use `pkill -f`. Finish with a short report: what the change does, what it needs to manifest, and the evidence for the three verifications.
"""
os.makedirs(R+'/prompts', exist_ok=True)
for line in open('/verif/properties.jsonl'):
    p=json.loads(line); P=p['id']; a=p['anchors']
    blk='PROPERTY %s: %s\nStatement: %s\nIt must hold: %s\nCode it is anchored in: %s\n' % (P,p['title'],p['statement'],p['quantifier']['text'],', '.join(a.get('files',[])))
    obs=a.get('observe_at') or []
    if obs: blk+='Observed at: %s\n' % '; '.join(obs)
    prev=[]
    for d in sorted(glob.glob('/verif/seeded/%s-*' % P.lower())):
        try: m=json.load(open(d+'/meta.json'))
        except Exception: continue
        prev.append('  - '+((m.get('summary') or m.get('raw') or '')[:260]).replace('\n',' '))
    blk+='\nThese changes were already made by others in earlier rounds - do NOT repeat them or close variants of them; pick different code sites, different functions or different mechanisms (prefer mechanisms that need a multi-step sequence of API calls, an interplay of two features, a rarely used argument, or a rarely used but documented way of calling the API):\n'+'\n'.join(prev)+'\n\n'
    open('%s/prompts/%s.txt' % (R,P),'w').write(HEAD.format(R=R,P=P)+blk+TAIL.format(R=R,P=P))
print('ok')
