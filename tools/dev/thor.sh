#!/bin/sh
# usage: thor.sh Cnn...   sequential thorough runs into /root/scratch/thor
for c in "$@"; do
  s=$(date +%s)
  (cd /verif && VERIF_SEED=${SEED:-1} VF_NOSHRINK=1 VF_OUTDIR=/root/scratch/thor/$c ./check $c thorough > /root/scratch/thor/$c.log 2>&1; echo "$c rc=$? $(( $(date +%s) - s ))s" >> /root/scratch/thor/summary.log)
done
