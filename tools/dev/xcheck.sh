#!/bin/sh
# usage: xcheck.sh <seed dir> <Cnn>   -> runs ./check Cnn quick against a scratch copy with the patch (no shrink)
d=$(mktemp -d /root/scratch/xc_XXXX); cp -r /repo/formulas $d/; (cd $d && patch -p1 -s < $1/patch.diff) || { echo "patch failed"; rm -rf $d; exit 3; }
cd /verif && VF_REPO=$d VF_OUTDIR=$d/out VF_NOSHRINK=1 ./check $2 quick 2>&1 | grep -v "^KNOWN" | grep -v "^VIOL" | sort | uniq -c | tail -5
rm -rf $d
