#!/bin/sh
# usage: allquick.sh <seed...>
cd /verif
for s in "$@"; do for i in $(seq -w 1 20); do
  out=$(VERIF_SEED=$s VF_OUTDIR=/root/scratch/oq VF_NOSHRINK=1 ./check C$i quick 2>&1); rc=$?
  echo "seed=$s C$i rc=$rc $(echo "$out" | grep -v '^KNOWN' | grep 'signature\|HARNESS' | head -5 | tr '\n' ' ') $(echo "$out" | tail -1)"
done; done
