#!/bin/bash
cd /verif
for n in "$@"; do
  P=$(echo ${n:0:3} | tr c C)
  extra=""
  [ "$n" = "c08-b-r2" ] && extra="--checks=C13"
  [ "$n" = "c17-b-r2" ] && extra="--checks=C13"
  [ "$n" = "c09-b-r2" ] && extra="--checks=C01"
  [ "$n" = "c13-b-r3" ] && extra="--checks=C03"
  /venv/bin/python tools/seed_verify.py seeded/$n $P $n --recheck $extra > /root/scratch/seedres/RC3-$n.json 2> /root/scratch/seedres/RC3-$n.err
  echo "$n done $(python3 -c "
import json; r=json.load(open('/root/scratch/seedres/RC3-$n.json')); print(r.get('applied_with',''), {k:(v['rc'],v['signatures'][:1]) for k,v in r.get('checks',{}).items()})" 2>&1 | tail -1)"
done
