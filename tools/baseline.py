#!/venv/bin/python
"""Runs the repository's baseline suite (guard off - there is no guard) and
compares with /root/.vp/BASELINE.json stable_pass.  usage: tools/baseline.py [out.log]"""
import json, subprocess, sys, os, xml.etree.ElementTree as ET
out = '/root/scratch/baseline.junit.xml'
env = dict(os.environ); env.pop('FORMULAS_VERIF', None)
subprocess.run('cd /repo && /venv/bin/python -m pytest -ra -q -p no:cacheprovider --timeout=900 '
               '--continue-on-collection-errors --junitxml=%s > /root/scratch/baseline.log 2>&1' % out, shell=True, env=env)
base = json.load(open('/root/.vp/BASELINE.json'))
ok = set()
for tc in ET.parse(out).getroot().iter('testcase'):
    if not list(tc):
        ok.add('%s::%s' % (tc.get('classname'), tc.get('name')))
missing = [t for t in base['stable_pass'] if t not in ok]
print('baseline: %d/%d stable tests pass; missing: %s' % (len(base['stable_pass']) - len(missing), len(base['stable_pass']), missing[:10]))
subprocess.run('cd /repo && git status --short | head -5; rm -rf /repo/test/test_files/tmp /repo/.pytest_cache', shell=True)
