#!/venv/bin/python
"""Confirm one seeded change and run the checks against it.

usage: tools/seed_verify.py <seed dir with patch.diff, demo.py, meta.json> <Cnn> <name> [--no-tests] [--checks C01,C09]
Steps (all in a scratch git worktree of /repo under /tmp/sv, removed afterwards):
  1. demo.py passes on the clean tree        2. patch applies; demo.py fails with it
  3. the repository's baseline suite still passes (759 stable tests)
  4. ./check <Cnn> quick (VF_REPO=<worktree>) must exit 1; if it does not, thorough is tried
Writes /verif/seeded/<name>/{patch.diff,demo.py,meta.json} when 1-3 hold (kept regardless of 4) and prints a verdict."""
import os, sys, json, shutil, subprocess, time, xml.etree.ElementTree as ET

ROOT = os.path.dirname(os.path.dirname(os.path.abspath(__file__)))


def sh(cmd, cwd=None, env=None, timeout=None):
    r = subprocess.run(cmd, shell=True, cwd=cwd, env=env, capture_output=True, text=True, timeout=timeout)
    return r.returncode, (r.stdout + r.stderr)


def main():
    src, pid, name = sys.argv[1], sys.argv[2], sys.argv[3]
    no_tests = '--no-tests' in sys.argv or '--recheck' in sys.argv
    extra = []
    for a in sys.argv:
        if a.startswith('--checks='):
            extra = a.split('=', 1)[1].split(',')
    wt = '/tmp/sv/%s' % name
    os.makedirs('/tmp/sv', exist_ok=True)
    sh('git -C /repo worktree remove --force %s' % wt)
    shutil.rmtree(wt, ignore_errors=True)
    rc, out = sh('git -C /repo worktree add -q --detach %s HEAD' % wt)
    assert rc == 0, out
    res = {'name': name, 'property': pid}
    try:
        os.makedirs(os.path.join(wt, '_seed', 'x'))
        for fn in ('patch.diff', 'demo.py', 'meta.json'):
            if os.path.exists(os.path.join(src, fn)):
                shutil.copy(os.path.join(src, fn), os.path.join(wt, '_seed', 'x', fn))
        rc, out = sh('/venv/bin/python _seed/x/demo.py', cwd=wt, timeout=900)
        res['demo_clean_rc'] = rc
        rc, out = sh('git apply _seed/x/patch.diff', cwd=wt)
        if rc != 0:
            # the tree moved on under the patch (my own fix commits): context lines may be offset
            rc2, out2 = sh('patch -p1 --no-backup-if-mismatch -s < _seed/x/patch.diff', cwd=wt)
            res['applied_with'] = 'patch(1) with fuzz, after git apply refused' if rc2 == 0 else 'NOT APPLIED'
            if rc2 == 0:
                rc = 0
        res['apply_rc'] = rc
        if rc != 0:
            res['apply_err'] = out[-300:]
            res['confirmed'] = False
            print(json.dumps(res))
            return
        rc, out = sh('/venv/bin/python _seed/x/demo.py', cwd=wt, timeout=900)
        res['demo_patched_rc'] = rc
        res['demo_patched_tail'] = out[-300:]
        ok = res['demo_clean_rc'] == 0 and res['apply_rc'] == 0 and res['demo_patched_rc'] != 0
        if ok and not no_tests:
            junit = '/tmp/sv/%s.junit.xml' % name
            env = dict(os.environ)
            env.pop('FORMULAS_VERIF', None)
            sh('/venv/bin/python -m pytest -q -p no:cacheprovider --timeout=900 --continue-on-collection-errors --junitxml=%s' % junit, cwd=wt, env=env, timeout=3600)
            base = json.load(open('/root/.vp/BASELINE.json'))
            passed = set()
            try:
                for tc in ET.parse(junit).getroot().iter('testcase'):
                    if not list(tc):
                        passed.add('%s::%s' % (tc.get('classname'), tc.get('name')))
            except Exception as ex:  # noqa
                res['junit_error'] = repr(ex)
            missing = [t for t in base['stable_pass'] if t not in passed]
            res['baseline_missing'] = missing[:10]
            res['baseline_ok'] = not missing
            ok = ok and not missing
        res['confirmed'] = ok
        # checks
        for prop in [pid] + [p for p in extra if p != pid]:
            for tier in ('quick', 'thorough'):
                outd = '/tmp/sv/%s.out' % name
                env = dict(os.environ, VF_REPO=wt, VF_OUTDIR=outd)
                t0 = time.time()
                rc, out = sh('%s/check %s %s' % (ROOT, prop, tier), cwd=ROOT, env=env, timeout=7200)
                sigs = [l.strip()[11:] for l in out.splitlines() if l.strip().startswith('signature:')]
                res.setdefault('checks', {})['%s:%s' % (prop, tier)] = {'rc': rc, 'signatures': sigs[:6], 'wall_s': round(time.time() - t0, 1),
                                                                     'err': out[-400:] if rc == 2 else ''}
                shutil.rmtree(outd, ignore_errors=True)
                if rc == 1 or prop != pid:
                    break
        if '--recheck' in sys.argv:
            mp = os.path.join(ROOT, 'seeded', name, 'meta.json')
            if os.path.exists(mp):
                meta = json.load(open(mp))
                meta.setdefault('checks_history', []).append(meta.get('checks', {}))
                meta['checks'] = res.get('checks', {})
                json.dump(meta, open(mp, 'w'), indent=1)
        elif ok:
            dst = os.path.join(ROOT, 'seeded', name)
            os.makedirs(dst, exist_ok=True)
            for fn in ('patch.diff', 'demo.py'):
                shutil.copy(os.path.join(src, fn), os.path.join(dst, fn))
            meta = {}
            if os.path.exists(os.path.join(src, 'meta.json')):
                try:
                    meta = json.load(open(os.path.join(src, 'meta.json')))
                except Exception:  # noqa
                    meta = {'raw': open(os.path.join(src, 'meta.json')).read()[:2000]}
            meta['property'] = pid
            meta['verified_by_me'] = {'demo_on_clean_tree_rc': res['demo_clean_rc'], 'demo_with_patch_rc': res['demo_patched_rc'],
                                      'baseline_suite_passes_with_patch': res.get('baseline_ok', 'not run'),
                                      'what_i_ran': 'tools/seed_verify.py: scratch worktree of /repo HEAD, demo.py before/after git apply, full pytest baseline vs BASELINE.json stable_pass, ./check with VF_REPO=<worktree>'}
            meta['checks'] = res.get('checks', {})
            json.dump(meta, open(os.path.join(dst, 'meta.json'), 'w'), indent=1)
    finally:
        sh('git -C /repo worktree remove --force %s' % wt)
        shutil.rmtree(wt, ignore_errors=True)
    print(json.dumps(res))


if __name__ == '__main__':
    main()
