#!/venv/bin/python
"""For every listed finding: do its examples still fail with a listed signature on the current tree?"""
import os, sys, json, glob, importlib
ROOT = os.path.dirname(os.path.dirname(os.path.abspath(__file__)))
sys.path.insert(0, ROOT)
os.chdir(ROOT)
from vf import runner
files = [os.path.join(ROOT, 'known_findings.json')] + sorted(glob.glob(os.path.join(ROOT, 'known_findings.d', '*.json')))
for path in files:
    data = json.load(open(path))
    for fd in data['findings']:
        for prop in fd.get('properties', []):
            ex = fd.get('examples', {})
            ex = ex.get(prop, []) if isinstance(ex, dict) else ex
            mod = importlib.import_module('vf.props.%s' % prop.lower())
            known = runner.Known(prop)
            hits = 0
            sigs = set()
            for case in ex:
                res = runner.safe_check(mod, case)
                for s, _ in res['fails']:
                    sigs.add(s)
                    if known.match(s) == fd['id'] or fd['status'] != 'open':
                        hits += 1
            print('%-10s %-4s %-6s examples=%d failing=%d %s' % (fd['id'], prop, fd['status'], len(ex), hits, sorted(sigs)[:3] if fd['status'] != 'open' and sigs else ''))
