#!/venv/bin/python
import sys, json, glob, os
sys.path.insert(0, os.path.dirname(os.path.dirname(os.path.abspath(__file__))))
pid = sys.argv[1]
lim = int(sys.argv[2]) if len(sys.argv) > 2 else 400
for f in sorted(glob.glob('replays/%s/*.json' % pid)):
    b = json.load(open(f))
    print('==', os.path.basename(f), b['signature'])
    print('   ', str(b['detail'])[:lim])
    c = b['case']
    if isinstance(c, dict) and 'spec' in c:
        from vf.gen import workbooks as G
        try:
            print('    dict:', json.dumps(G.to_dict(c['spec']), ensure_ascii=False)[:lim * 2])
        except Exception as e:
            print('    (to_dict failed: %r)' % e)
    else:
        print('    case:', json.dumps(c, ensure_ascii=False)[:lim])
