#!/venv/bin/python
"""Development-time sensitivity runner (DESIGN.md 1.9).  Each mutant is a
string replacement in a scratch copy of /repo/formulas (never /repo itself);
the property's quick check must report a VIOLATION (exit 1) against it.
usage: tools/mutants.py [Cnn ...|mutant-id ...]   (results -> tools/mutants_result.json)"""
import os, sys, json, shutil, subprocess, tempfile, time
ROOT = os.path.dirname(os.path.dirname(os.path.abspath(__file__)))
M = []


def mut(mid, prop, path, old, new, count=1):
    M.append(dict(id=mid, prop=prop, path=path, old=old, new=new, count=count))


exec(open(os.path.join(ROOT, 'tools', 'mutant_defs.py')).read())
md = os.path.join(ROOT, 'tools', 'mutants.d')
for fn in sorted(os.listdir(md)) if os.path.isdir(md) else []:
    if fn.endswith('.py'):
        exec(open(os.path.join(md, fn)).read())


def run(m, tier='quick'):
    d = tempfile.mkdtemp(prefix='mut_', dir='/root/scratch')
    try:
        shutil.copytree('/repo/formulas', os.path.join(d, 'formulas'))
        p = os.path.join(d, m['path'])
        s = open(p).read()
        if s.count(m['old']) < 1:
            return 'STALE (pattern not found)', 0
        s = s.replace(m['old'], m['new'], m['count'])
        open(p, 'w').write(s)
        env = dict(os.environ, VF_REPO=d, VF_OUTDIR=d)
        t0 = time.time()
        r = subprocess.run([os.path.join(ROOT, 'check'), m['prop'], tier], env=env, capture_output=True, text=True)
        out = r.stdout + r.stderr
        sigs = [l.strip() for l in out.splitlines() if l.strip().startswith('signature:')]
        verdict = {0: 'MISSED', 1: 'KILLED', 2: 'HARNESS-ERROR'}.get(r.returncode, 'rc%d' % r.returncode)
        if r.returncode == 2:
            verdict += ' ' + out[-400:]
        return verdict + ' ' + '; '.join(sigs[:3]), time.time() - t0
    finally:
        shutil.rmtree(d, ignore_errors=True)


if __name__ == '__main__':
    sel = [a for a in sys.argv[1:]]
    res = {}
    rp = os.path.join(ROOT, 'tools', 'mutants_result.json')
    if os.path.exists(rp):
        res = json.load(open(rp))
    for m in M:
        if sel and m['id'] not in sel and m['prop'] not in sel:
            continue
        v, t = run(m)
        res[m['id']] = {'property': m['prop'], 'verdict': v[:300], 'wall_s': round(t, 1)}
        print('%-28s %s %5.1fs  %s' % (m['id'], m['prop'], t, v[:200]), flush=True)
    json.dump(res, open(rp, 'w'), indent=1, sort_keys=True)
    # leave evidence/ of the real tree fresh again is the caller's job
