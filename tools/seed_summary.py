#!/venv/bin/python
import json, sys, glob
for f in sorted(glob.glob('/root/scratch/seedres/*.json')):
    try:
        r = json.loads(open(f).read().strip().splitlines()[-1])
    except Exception:
        print(f.split('/')[-1], 'running/unreadable'); continue
    ch = r.get('checks', {})
    print(r['name'], 'confirmed=%s' % r.get('confirmed'), 'demo %s->%s' % (r.get('demo_clean_rc'), r.get('demo_patched_rc')), 'base=%s' % r.get('baseline_ok'),
          ' '.join('%s=%s(%.0fs)%s' % (k, {0: 'MISSED', 1: 'CAUGHT', 2: 'ERR'}.get(v['rc'], v['rc']), v['wall_s'], v['signatures'][:1]) for k, v in ch.items()), r.get('baseline_missing') or '')
