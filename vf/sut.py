"""The only module that touches the code under test.

`formulas` is imported from $VF_REPO (default /repo) so that every check runs
against the current working tree.  Nothing is built: the package is pure Python.
"""
import os
import sys
import logging
import warnings

warnings.filterwarnings('ignore')
REPO = os.path.abspath(os.environ.get('VF_REPO', '/repo'))
if REPO in sys.path:
    sys.path.remove(REPO)
sys.path.insert(0, REPO)
os.environ.setdefault('FORMULAS_VERIF', '1')

import numpy as np  # noqa: E402
import schedula as sh  # noqa: E402
import formulas  # noqa: E402

if not os.path.abspath(formulas.__file__).startswith(REPO + os.sep):
    raise ImportError('formulas imported from %s, expected under %s' % (
        formulas.__file__, REPO))

logging.disable(logging.CRITICAL)

from formulas import Parser, ExcelModel, get_functions  # noqa: E402
from formulas.cell import Cell  # noqa: E402
from formulas.ranges import Ranges  # noqa: E402
from formulas.errors import FormulaError  # noqa: E402
import formulas.functions.date as _fdate  # noqa: E402

# Same pin as the repo's own tests: text->date conversion otherwise depends on
# the year in which the module was imported.
try:
    _fdate.DEFAULT_DATE[0] = 2019
except Exception:  # pragma: no cover
    pass

EMPTY = sh.EMPTY
ERR_CIRCULAR = formulas.ERR_CIRCULAR
ERRORS = ('#NULL!', '#DIV/0!', '#VALUE!', '#REF!', '#NAME?', '#NUM!', '#N/A')


class Watchdog(BaseException):
    """Raised from SIGALRM; BaseException so the repo's `except Exception`
    wrappers cannot swallow it."""


def expr(text, context=None):
    return Parser().ast(text, context=context)[1][-1].get_expr


def compile_formula(text, context=None):
    return Parser().ast(text, context=context)[1].compile()


def xl_error(text):
    from formulas.tokens.operand import Error
    return Error.errors[text]


def is_xl_error(x):
    from formulas.tokens.operand import XlError
    return isinstance(x, XlError)


class Foreign:
    """A value outside the Excel value domain (nan, inf, complex, None ...)."""

    def __init__(self, what):
        self.what = what

    def __repr__(self):
        return 'Foreign(%s)' % self.what

    def __eq__(self, other):
        return isinstance(other, Foreign) and other.what == self.what

    def __hash__(self):
        return hash(('Foreign', self.what))


class Blank:
    def __repr__(self):
        return 'BLANK'

    def __eq__(self, other):
        return isinstance(other, Blank)

    def __hash__(self):
        return hash('BLANK')


BLANK = Blank()


class Err:
    """An Excel error value in the harness' own domain (compared by text)."""
    __slots__ = ('t',)

    def __init__(self, t):
        self.t = t

    def __repr__(self):
        return self.t

    def __eq__(self, other):
        return isinstance(other, Err) and other.t == self.t

    def __hash__(self):
        return hash(('Err', self.t))


CIRC = Err('#CIRC!')


def scalar(x):
    """Normalise one element returned by the repo into the harness domain:
    float | bool | str | Err | BLANK | Foreign."""
    if isinstance(x, np.generic):
        x = x.item()
    if isinstance(x, np.ndarray):
        if x.shape == () or x.size == 1:
            return scalar(x.ravel()[0])
        return Foreign('nested-array')
    if x is ERR_CIRCULAR:
        return CIRC
    if is_xl_error(x):
        s = str.__str__(x) if isinstance(x, str) else str(x)
        return Err(s) if s in ERRORS else Foreign('token:%s' % s)
    if x is EMPTY:
        return BLANK
    if isinstance(x, bool):
        return x
    if isinstance(x, int):
        return float(x) if abs(x) < 2 ** 1023 else Foreign('bigint')
    if isinstance(x, float):
        if x != x:
            return Foreign('nan')
        if x in (float('inf'), float('-inf')):
            return Foreign('inf')
        return x
    if isinstance(x, complex):
        return Foreign('complex')
    if isinstance(x, str):
        return x
    if x is None:
        return Foreign('None')
    if x is sh.NONE:
        return Foreign('sh.NONE')
    return Foreign(type(x).__name__)


def matrix(x):
    """Whatever the repo returns -> rectangular list of rows of harness values."""
    if isinstance(x, Ranges):
        x = x.value
    if isinstance(x, np.ndarray):
        if x.ndim == 0:
            return [[scalar(x.item() if x.dtype != object else x.ravel()[0])]]
        if x.ndim == 1:
            return [[scalar(v) for v in x]]
        if x.ndim == 2:
            return [[scalar(v) for v in row] for row in x]
        return [[Foreign('ndim%d' % x.ndim)]]
    if isinstance(x, (list, tuple)):
        return [[Foreign('pylist')]]
    return [[scalar(x)]]


def one(x):
    """Result that is expected to be a single value (1x1 and scalar are the same)."""
    m = matrix(x)
    if len(m) == 1 and len(m[0]) == 1:
        return m[0][0]
    return Foreign('shape%dx%d' % (len(m), len(m[0]) if m else 0))


def to_repo(v):
    """Harness value -> value to feed the repo."""
    if isinstance(v, Err):
        return ERR_CIRCULAR if v.t == '#CIRC!' else xl_error(v.t)
    if isinstance(v, Blank):
        return EMPTY
    return v


def override_value(v):
    """Harness value -> value to pass in calculate(inputs=...) / a compiled
    function.  A blank override is [[EMPTY]] (the form a model holds); a raw
    sh.EMPTY is schedula's 'no value' sentinel, not an Excel value."""
    if isinstance(v, Blank):
        return [[EMPTY]]
    return to_repo(v)


def cell_eval(ref, formula, inputs=None, raises=False, context=None):
    """Evaluate one formula the way a model does: Cell(...).compile().add(dsp).
    `inputs` maps range names to Ranges (or to 2-D lists of harness values).
    Returns the raw solution value of the cell ('MISSING' if not produced)."""
    dsp = sh.Dispatcher(raises=raises)
    c = Cell(ref, formula, context=context).compile()
    ok = c.add(dsp)
    if not ok:
        raise RuntimeError('Cell.add returned nothing')
    inp = {}
    for k, v in (inputs or {}).items():
        if not isinstance(v, Ranges):
            v = Ranges().push(k, np.asarray(
                [[to_repo(x) for x in row] for row in v], object))
        inp[k] = v
    sol = dsp(inp)
    return sol.get(c.output, 'MISSING'), c


def rng(name, rows):
    return Ranges().push(name, np.asarray(
        [[to_repo(x) for x in row] for row in rows], object))
