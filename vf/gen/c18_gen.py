"""C18 generators: token dictionary (shared by the Hypothesis soups and the
atheris target), a generator of *valid* formulas as token lists, single-token
edits, printable strings, and the enumeration of numeric literal forms.
Every random choice is made by Hypothesis (or by libFuzzer in c18_fuzz)."""
import os
from hypothesis import strategies as st

ROOT = os.path.dirname(os.path.dirname(os.path.dirname(os.path.abspath(__file__))))
SEEDS = os.path.join(ROOT, 'corpus', 'c18', 'seeds.txt')

NUMBERS = ['1', '2', '0', '10', '2.5', '.5', '007', '01', '1E+2', '1.5E-3', '00.50', '1e+5', '1E5', '1.', '12']
STRINGS = ['"a"', '""', '"a""b"', '"a b"', '"1+2"', '"("', '")"', '","', '"~"']
BOOLS = ['TRUE', 'FALSE', 'true']
ERRS = ['#NULL!', '#DIV/0!', '#VALUE!', '#REF!', '#NAME?', '#NUM!', '#N/A', '#n/a', '#REF']
REFS = ['A1', '$B$2', 'B2:C3', 'A:A', '1:2', '$A1', 'C$3', 'XFD1048576', 'nm', '_x', 'x.y', 'Sheet1!A1',
        "'S 1'!A1", "'[b.xlsx]S'!A1", '[1]S!A1', 'R1C1', 'R[1]C[-1]', 'A1#', 'B1', 'D4']
OPS = ['+', '-', '*', '/', '^', '&', '=', '<', '>', '<=', '>=', '<>']
PUNCT = ['%', '(', ')', ',', ';', '{', '}', ':']
WS = [' ', '  ', '\t', '\n', '\r', '\xa0', ' ', '\x0b']
FUNCS = ['SUM(', 'IF(', 'PI()', '_xlfn.X(', 'INDEX(', 'sum(', '@']
STRAYCH = ['!', '$', '.', 'E+', 'x', 'é', '"', "'", '#', '?', '~', '\\', '[', ']', '|', '`', '{=',
           '\u0663', '\u0e57', '\u0968', '\uff15', '\U00010d42']  # decimal digits of other scripts (Arabic-Indic 3, Thai 7, Devanagari 2, full-width 5, Garay 2)
DICT = NUMBERS + STRINGS + BOOLS + ERRS + REFS + OPS + PUNCT + WS + FUNCS + STRAYCH
# the classes the validity predicate is certain about: soups over these are decided, not "unknown"
CLEAN = (['1', '2', '0.5', '007', '1E+2', '"a"', '""', 'TRUE', '#N/A', '#REF!', 'A1', 'B2', '$C$3', 'nm', 'Sheet1!A1']
         + OPS + ['%', '(', ')', ',', ';', '{', '}', ':', ' ', ' ', 'SUM(', 'IF(', 'PI()'])
PREFIXES = ['=', '=', '=', '=', '=', '=', '=', '=', '', '{=', ' = ', '==', '+', '#N/A', '@']


def load_seeds():
    out = []
    try:
        with open(SEEDS, encoding='utf8') as f:
            for line in f:
                line = line.rstrip('\n')
                if line and not line.startswith('# '):
                    out.append(line)
    except OSError:
        pass
    return out


# ---------------------------------------------------------------- valid formulas as token lists
_num = st.sampled_from(['1', '2', '0', '10', '2.5', '.5', '007', '1E+2', '1.5E-3', '00.50', '123.456', '1e+5'])
_str = st.sampled_from(['"a"', '""', '"a""b"', '"a b"', '"(x,y)"', '"1+"'])
_lit = st.one_of(_num, _num, _str, st.sampled_from(['TRUE', 'FALSE', '#N/A', '#DIV/0!', '#REF!', '#VALUE!']))
_ref = st.sampled_from(['A1', '$B$2', 'C3', 'B1', 'nm', 'x_1', 'Sheet1!A1', 'D$4', 'AB12'])
_rng = st.sampled_from(['A1:B2', 'B2:C3', 'A:A', '1:2', '$A$1:$B$2', 'Sheet1!A1:B2'])
_binop = st.sampled_from(['+', '-', '*', '/', '^', '&', '=', '<', '>', '<=', '>=', '<>'])
_fname = st.sampled_from(['SUM', 'IF', 'MAX', 'INDEX', 'sum', 'MYFUNC', '_xlfn.X'])


def _sp(draw):
    """optional blanks around an operator / separator (never between two operands)"""
    return draw(st.sampled_from(['', '', '', ' ', '  ']))


@st.composite
def _array(draw):
    cols = draw(st.integers(1, 3))
    rows = draw(st.integers(1, 3))
    toks = ['{']
    el = st.one_of(_num, _str, st.sampled_from(['TRUE', '#N/A', '-1', '-2.5']))
    for r in range(rows):
        if r:
            toks.append(';')
        for c in range(cols):
            if c:
                toks.append(',')
            e = draw(el)
            if e.startswith('-'):
                toks += ['-', e[1:]]
            else:
                toks.append(e)
    toks.append('}')
    return toks


@st.composite
def _refexpr(draw, depth):
    """reference-valued expression: ref, range, intersection, parenthesised union"""
    k = draw(st.integers(0, 5 if depth > 0 else 1))
    if k == 0:
        return [draw(_ref)]
    if k == 1:
        return [draw(_rng)]
    if k == 2:
        return [draw(_ref), ':', draw(_ref)]
    if k == 3:
        return draw(_refexpr(depth - 1)) + [' '] + draw(_refexpr(depth - 1))
    if k == 4:
        return ['('] + draw(_refexpr(depth - 1)) + [','] + [_sp(draw)] + draw(_refexpr(depth - 1)) + [')']
    return ['('] + draw(_refexpr(depth - 1)) + [')']


@st.composite
def _expr(draw, depth):
    k = draw(st.integers(0, 11 if depth > 0 else 2))
    if k == 0:
        return [draw(_lit)]
    if k in (1, 2):
        return draw(_refexpr(min(depth, 1)))
    if k in (3, 4):
        return draw(_expr(depth - 1)) + [_sp(draw), draw(_binop), _sp(draw)] + draw(_expr(depth - 1))
    if k == 5:
        return [draw(st.sampled_from(['-', '+', '-', '--', '-+']))] + draw(_expr(depth - 1))
    if k == 6:
        inner = draw(_expr(depth - 1))
        return ['('] + inner + [')', '%'] if len(inner) > 1 else inner + ['%']
    if k == 7:
        return ['(', _sp(draw)] + draw(_expr(depth - 1)) + [_sp(draw), ')']
    if k in (8, 9):
        n = draw(st.integers(0, 4))
        toks = [draw(_fname) + '(']
        for i in range(n):
            if i:
                toks += [',', _sp(draw)]
            if draw(st.integers(0, 5)) == 0:
                continue  # empty argument
            toks += draw(_expr(depth - 1))
        toks.append(')')
        return toks
    if k == 10:
        return draw(_array())
    return draw(_refexpr(depth))


@st.composite
def valid_tokens(draw, depth=3):
    toks = [t for t in draw(_expr(draw(st.integers(1, depth)))) if t != '']
    # merge sign runs into single tokens is not needed; drop blanks that ended up next to each other
    out = []
    for t in toks:
        if t.strip(' ') == '' and out and out[-1].strip(' ') == '':
            continue
        out.append(t)
    return out


def seed_tokens(s):
    """greedy split of a seed formula (without the leading '=') into DICT-like tokens;
    unknown runs stay together as one token"""
    import re
    rx = re.compile(r'"(?:[^"]|"")*"|\'(?:[^\']|\'\')*\'![$A-Za-z0-9:]+|#[A-Z/0!?]+|[A-Za-z_.][\w.]*\(|'
                    r'[$A-Za-z_][\w.$!]*(?::[$A-Za-z0-9]+)?|(?:\d+(?:\.\d+)?|\.\d+)(?:[eE][+-]\d+)?|<=|>=|<>|\s+|.', re.S)
    return rx.findall(s)


@st.composite
def edit_case(draw):
    """single-edit mutation (delete / insert / replace / duplicate one token) of a valid formula"""
    seeds = load_seeds()
    if seeds and draw(st.integers(0, 3)) == 0:
        s = draw(st.sampled_from(seeds))
        body = s.lstrip()
        pre = '='
        if body.startswith('{='):
            pre, body = '=', body[2:].rstrip()[:-1]
        elif body.startswith('='):
            body = body[1:]
        toks = seed_tokens(body)
        base_src = 'seed'
    else:
        toks, pre, base_src = draw(valid_tokens()), '=', 'gen'
    kind = draw(st.sampled_from(['delete', 'insert', 'replace', 'duplicate', 'none']))
    toks = list(toks) or ['1']
    base = pre + ''.join(toks)
    pos = draw(st.integers(0, len(toks) - 1))
    pool = st.sampled_from(CLEAN) if draw(st.booleans()) else st.sampled_from(DICT)
    if kind == 'delete':
        new = toks[:pos] + toks[pos + 1:]
    elif kind == 'insert':
        pos = draw(st.integers(0, len(toks)))
        new = toks[:pos] + [draw(pool)] + toks[pos:]
    elif kind == 'replace':
        new = toks[:pos] + [draw(pool)] + toks[pos + 1:]
    elif kind == 'duplicate':
        new = toks[:pos + 1] + toks[pos:]
    else:
        new = toks
    return {'s': pre + ''.join(new), 'src': 'edit', 'edit': kind, 'base': base, 'of': base_src}


@st.composite
def _array_soup(draw):
    """array constants with independently drawn row lengths (ragged about half of the time), in a context"""
    el = st.sampled_from(['1', '2', '0.5', '"a"', 'TRUE', '#N/A', '-1', '007', '1E+2'])
    rows = draw(st.lists(st.lists(el, min_size=1, max_size=3), min_size=1, max_size=3))
    if draw(st.booleans()):
        rows = [r[:len(rows[0])] + rows[0][len(r):] for r in rows]      # same length as the first row
    sep = draw(st.sampled_from([',', ', ', ' ,']))
    arr = '{' + draw(st.sampled_from([';', '; '])).join(sep.join(r) for r in rows) + '}'
    ctx = draw(st.sampled_from(['=%s', '=SUM(%s)', '=1+%s', '=%s*2', '=INDEX(%s,1,1)', '={1}&%s', '=(%s)', '=-%s%%']))
    return {'s': ctx.replace('%s', arr).replace('%%', '%'), 'src': 'soup', 'pool': 'array'}


@st.composite
def soup_case(draw):
    if draw(st.integers(0, 11)) == 0:
        return draw(_array_soup())
    clean = draw(st.integers(0, 2)) == 0
    pool = CLEAN if clean else DICT
    toks = draw(st.lists(st.sampled_from(pool), min_size=1, max_size=12))
    pre = '=' if clean else draw(st.sampled_from(PREFIXES))
    return {'s': pre + ''.join(toks), 'src': 'soup', 'pool': 'clean' if clean else 'full'}


_GRAMMAR_CHARS = '()+-*/,;{}"\' :!$%&<>=^#.0123456789ABCabcEeXx_~|\t@[]?\\'


@st.composite
def text_case(draw):
    k = draw(st.integers(0, 3))
    if k == 0:      # any printable / Unicode text (no surrogates, they cannot be written to a replay file)
        body = draw(st.text(st.characters(blacklist_categories=('Cs',)), max_size=20))
        kind = 'unicode'
    elif k == 1:    # printable ASCII
        body = draw(st.text(st.characters(min_codepoint=32, max_codepoint=126), max_size=24))
        kind = 'ascii'
    else:           # characters of the grammar, dense
        body = draw(st.text(st.sampled_from(_GRAMMAR_CHARS), max_size=16))
        kind = 'grammar-chars'
    pre = draw(st.sampled_from(PREFIXES))
    return {'s': pre + body, 'src': 'text', 'alphabet': kind}


# ---------------------------------------------------------------- numeric literal forms (enumerated)
INTS = ['0', '1', '7', '10', '42', '123', '999999', '007', '00', '01', '0010', '1234567890123456', '12345678901234567890']
FRACS = ['', '.0', '.5', '.25', '.05', '.125000', '.999999999', '.000']
EXPS = ['', 'E+0', 'E+5', 'E-5', 'E+05', 'E-05', 'e+2', 'e-2', 'E+10', 'E+100', 'E-100', 'E+280', 'E-300']
CONTEXTS = ['=%s', '= %s ', '=-%s', '=+%s', '=(%s)', '=%s+0', '=0+%s', '=SUM(%s)', '=SUM(1,%s)', '={%s}',
            '=%s%%', '=%s=%s', '=%s*1', '=IF(%s>0,%s,0)', '=-(%s)', '=1-%s', '=%s&""', '{=%s}']
QUICK_CONTEXTS = ['=%s', '= %s ', '=-%s', '=%s+0', '=SUM(1,%s)', '={%s}', '=%s%%', '{=%s}']


def numeric_cases(tier):
    ctxs = QUICK_CONTEXTS if tier == 'quick' else CONTEXTS
    for ip in INTS + ['']:
        for fr in FRACS:
            if ip == '' and fr == '':
                continue
            for ex in EXPS:
                lit = ip + fr + ex
                form = '%s%s%s' % ('int' if ip else 'dot', '-frac' if fr else '', '-exp' if ex else '')
                if len(ip) > 1 and ip[0] == '0':
                    form += '-lead0'
                for c in ctxs:
                    yield {'s': c.replace('%s', lit).replace('%%', '%'), 'src': 'num', 'lit': lit, 'ctx': c, 'form': form}


# ---------------------------------------------------------------- basic invalid texts (enumerated, pinned one by one)
def basic_valid():
    """Systematic valid exemplars: every operand form, bare / signed / with a postfix %, in every argument position
    (first, middle, last, next to an empty argument, inside parentheses).  Only totality, round trip and operator
    provenance are asserted on them (src 'basic-valid')."""
    O = ['1', 'A1', '"a"', 'nm', 'PI()', '(1)', 'TRUE', '#N/A', '{1}', '2.5', 'B2:C3', 'SUM(1,2)']
    out = []
    for o in O:
        for form in ('%s', '%s%%', '-%s', '-%s%%', '(%s)%%', '%s%%%%', '1+%s', '%s*2', '1<=%s%%'):
            x = form % o
            for ctx in ('=%s', '=SUM(%s,2)', '=SUM(1,%s)', '=SUM(1,%s,3)', '=IF(%s,%s,%s)', '=SUM(%s,,2)', '=SUM(,%s)', '=SUM(%s,)',
                        '=(%s)', '=SUM((%s),2)', '=IF(A1>1,%s,%s)', '=SUM(IF(1,%s),2)'):
                out.append(ctx.replace('%s', x))
    seen = set()
    for s_ in out:
        if s_ not in seen:
            seen.add(s_)
            yield {'s': s_, 'src': 'basic-valid'}


def basic_invalid():
    """Minimal exemplars of every class the property names.  They are reported under their own
    signature ('basic|<text>') so that no globbed known finding can ever hide one of them."""
    O = ['1', 'A1', '"a"', 'nm', 'PI()', '(1)', 'TRUE', '#N/A', '{1}', '1%']
    B = ['+', '-', '*', '/', '^', '&', '=', '<', '>', '<=', '>=', '<>', ':', ',']
    out = []
    for o in O:
        for b in B:
            out.append('=%s%s' % (o, b))
            if b not in '+-':
                out.append('=%s%s' % (b, o))
            out.append('=(%s%s)' % (o, b))
            out.append('=SUM(%s%s)' % (o, b))
            # a dangling operator directly before / after an argument separator or inside a later argument
            out.append('=SUM(%s%s,2)' % (o, b))
            out.append('=IF(1,%s%s,3)' % (o, b))
            out.append('=SUM(1,%s%s)' % (o, b))
            if b not in '+-':
                out.append('=SUM(1,%s%s)' % (b, o))
                out.append('=IF(%s%s,2,3)' % (b, o))
            out.append('=SUM((%s%s),2)' % (o, b))
    for o in ('1', 'A1'):
        for b in B[:-1]:
            for b2 in B:
                if b2 not in '+-' and not (b + b2 in ('<=', '>=', '<>')):
                    out.append('=%s%s%s%s' % (o, b, b2, o))
    out += ['=1,*1', '=A1,=A1', '=A1,:A1', '=A1,,A1', '=(A1,,A1)']
    out += ['=\u0663', '=1E+\u0e57', '=SUM(1,\u0968)', '=\u0663+1', '=1.\u0663', '=\uff15', '=\U00010d42', '=1\u0663', '=-\u0e57%']
    out += ['=1 A1', '=A1 1', '="a" "a"', '=1"a"', '="a"1', '=(1)(1)', '=(1)1', '=1(1)', '={1}{1}', '=PI()1', '=1 PI()',
            '="a"PI()', '=1%1', '=A1%A1', '=(A1)(A1)', '=(A1)A1', '=(A1) 1', '=1 (A1)', '=1 2', '=TRUE FALSE', '=A1 "a"',
            '=SUM(1 2)', '=SUM(A1)A1', '=SUM(A1)(A1)', '={1}A1', '=A1{1}', '=nm"a"', '="a"nm', '=1 nm', '=nm 1',
            '=(1', '=1)', '=((1)', '=(1))', '=SUM(1', '=SUM(1))', '=)1(', '=()', '=(', '=)', '={1', '=1}', '={1}}', '={{1}',
            '=(1}', '={1)', '=SUM(1}', '=}', '={', '=IF(1,2', '=IF(1,(2)', '=1+(2', '=1+2)', '=(1+2))*(3',
            '={1,2;3}', '={1;2,3}', '={1,2;3,4;5}', '={1,2,3;4,5}', '=SUM({1,2;3})', '={"a","b";"c"}', '={1,2;3}+1',
            '=1~2', '=~', '=a|b', '=`', '=1;2', '=SUM(1;2)', '="a', '=a"', '=1+"a', '=1+~1', '=A1;A2', '=(A1;A2)',
            '=', '= ', '=()', '=SUM(())', '=-', '=+', '=--', '=%', '=,', '=:', '=1+', '=*1', '=1  -*  4', '=a 1']
    from ..xlref import c18_syntax as SX
    seen = set()
    for s in out:
        # the templates also produce a few valid texts ('=SUM(1,)', '=1,-1' ...): only the certainly invalid ones are kept
        if s not in seen and SX.classify(s)[0] == 'invalid':
            seen.add(s)
            yield {'s': s, 'src': 'basic'}
