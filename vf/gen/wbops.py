"""Spec-level overrides / inputs / outputs for the model-level checks (C07, C08, C17).

An override is plain JSON:  ['cell', [b,s,r,c], const] | ['name', i, rows] | ['rect', [b,s,r1,c1,r2,c2], rows]
(rows = 2-D list of consts shaped like the target).  Helpers translate one
override list into (a) inputs for the repo (node id -> value) and (b) cell
overrides for the reference evaluator.
"""
from hypothesis import strategies as st

from .. import sut
from ..xlref import wb as W
from ..xlref import core as X
from . import workbooks as G

VALS = st.one_of(st.sampled_from([0.0, 1.0, -2.0, 3.5, 10.0, 42.0, -0.5, 1000.0]), st.sampled_from(['zz', 'Hello', 'ab', '']),
                 st.booleans(), st.none(), st.sampled_from(['#N/A', '#DIV/0!', '#VALUE!']).map(lambda e: ['E', e]))


# Elements of a multi-cell override are never blank: a blank element would have to be schedula's raw EMPTY
# sentinel inside the array, which the dispatcher treats as 'no value' for the underlying cell (not an Excel value).
VALS_NOBLANK = VALS.filter(lambda v: v is not None)


def node_of(m, name_upper):
    """Actual node key of the model for an upper-cased identifier (or None)."""
    cache = getattr(m, '_vf_nodes', None)
    if cache is None or cache[0] != len(m.dsp.nodes):
        cache = (len(m.dsp.nodes), {str(k).upper(): k for k in m.dsp.data_nodes if isinstance(k, str)})
        try:
            m._vf_nodes = cache
        except Exception:  # noqa
            pass
    hit = cache[1].get(name_upper)
    if hit is None and '!' not in name_upper:
        # a defined name of a model loaded from files is scoped to its workbook: '[book.xlsx]'!NAME
        cands = [k for u, k in cache[1].items() if u.endswith("]'!" + name_upper)]
        if len(cands) == 1:
            hit = cands[0]
    return hit


def target_id(spec, ov):
    kind = ov[0]
    if kind == 'cell':
        return G.node_id(spec, tuple(ov[1]))
    if kind == 'name':
        return spec['names'][ov[1]]['name'].upper()
    if kind == 'rect':
        return G.rect_id(spec, tuple(ov[1]))
    if kind == 'fname':
        return spec['fnames'][ov[1]]['name'].upper()
    raise ValueError(kind)


def target_rect(spec, ov):
    if ov[0] == 'fname':
        return (-1, -1, 0, 0, -1, -1)  # a formula-defined name covers no cell
    if ov[0] == 'cell':
        b, s, r, c = ov[1]
        return (b, s, r, c, r, c)
    if ov[0] == 'name':
        return tuple(spec['names'][ov[1]]['rect'])
    return tuple(ov[1])


def repo_value(spec, ov):
    if ov[0] == 'fname':
        return sut.to_repo(W.const(ov[2]))
    if ov[0] == 'cell':
        return sut.override_value(W.const(ov[2]))
    rows = [[sut.to_repo(W.const(v)) for v in row] for row in ov[2]]
    # the two ways a caller writes a block of values: a nested list or an object array (chosen by the override itself,
    # so that a case stays a pure function of its JSON)
    if len(repr(ov[2])) % 2:
        return rows
    return sut.np.asarray(rows, object)


def to_inputs(m, spec, ovs):
    """-> (inputs dict for calculate(), list of overrides whose node does not exist in the model)"""
    inputs, missing = {}, []
    for ov in ovs:
        nid = node_of(m, target_id(spec, ov))
        if nid is None:
            missing.append(ov)
        else:
            inputs[nid] = repo_value(spec, ov)
    return inputs, missing


def to_cells(spec, ovs):
    """Cell-level overrides for xlref.wb.evaluate (later overrides win)."""
    out = {}
    for ov in ovs:
        if ov[0] == 'fname':
            continue
        b, s, r1, c1, r2, c2 = target_rect(spec, ov)
        if ov[0] == 'cell':
            out[(b, s, r1, c1)] = ov[2]
            continue
        for i, r in enumerate(range(r1, r2 + 1)):
            for j, c in enumerate(range(c1, c2 + 1)):
                out[(b, s, r, c)] = ov[2][i][j]
    return [[list(k), v] for k, v in out.items()]


def to_fnames(spec, ovs):
    """Values supplied for formula-defined names: {index: value} for xlref.wb.evaluate(fname_over=...)."""
    out = {ov[1]: ov[2] for ov in ovs if ov[0] == 'fname'}
    for i, v in list(out.items()):
        # a value supplied for a name defined as another name reaches that name too, unless it is supplied itself
        f = spec['fnames'][i]['f']
        while f[0] == 'fname' and f[1] not in out:
            out[f[1]] = v
            f = spec['fnames'][f[1]]['f']
    return out


def array_cells(spec):
    out = set()
    for cell in spec['cells']:
        if 'arr' in cell:
            out.update(W.cell_keys(cell))
    return out


def referenced_rects(spec):
    """Rectangles (multi-cell) that some formula mentions directly: these have their own node in a model."""
    out = []
    for cell in spec['cells']:
        if 'f' in cell:
            for kind, x in W.refs_of(cell['f']):
                if kind == 'rect' and (x[2], x[3]) != (x[4], x[5]) and x not in out:
                    out.append(x)
    return out


@st.composite
def overrides(draw, spec, max_n=3, kinds=('cell', 'formula', 'name', 'rect'), values=VALS, min_n=0, allow_arrays=False):
    """min_n..max_n overrides on distinct, non-overlapping targets.  Array-formula cells are never targets;
    multi-cell targets (names, ranges) must consist of populated cells only."""
    arr = array_cells(spec)
    pop = W.populated(spec)
    cells = [c for c in spec['cells'] if 'arr' not in c]

    def keys_of(rect):
        b, s, r1, c1, r2, c2 = rect
        return {(b, s, r, c) for r in range(r1, r2 + 1) for c in range(c1, c2 + 1)}

    arr_groups = [set(W.cell_keys(c)) for c in spec['cells'] if 'arr' in c]
    readers = []   # (rect-or-None, set of cells read) per reference of every formula
    for c in spec['cells']:
        if 'f' in c:
            for kind, x in W.refs_of(c['f'], spec.get('names', [])):
                if kind == 'cell':
                    readers.append((None, {x}))
                elif kind == 'rect':
                    readers.append((tuple(x), keys_of(x)))
                elif kind == 'col':
                    b_, s_, c1_, c2_ = x
                    readers.append((None, {(b_, s_, r_, cc) for r_ in range(1, 40) for cc in range(c1_, c2_ + 1)}))

    def ok(rect):
        k = keys_of(rect)
        # array formulas: every array-formula area the target touches must lie wholly inside it
        if any((g & k) and not g <= k for g in arr_groups):
            return False
        # ... and the cells of those array formulas may be read only through the array area itself or through this
        # very rectangle (reading a sub-rectangle of an overridden array area returns nested objects on the unchanged
        # tree: outside the asserted domain, see DESIGN section 10)
        for g in arr_groups:
            if g & k:
                gb, gs = next(iter(g))[0], next(iter(g))[1]
                grect = (gb, gs, min(x[2] for x in g), min(x[3] for x in g), max(x[2] for x in g), max(x[3] for x in g))
                for rr, cells_read in readers:
                    if cells_read & g and rr not in (tuple(rect), grect):
                        return False
        unpop = k - pop
        if unpop:
            # unpopulated cells of the target may be read only through this very rectangle (otherwise the statement
            # does not say whether supplying a value populates them for other readers)
            for rr, cells_read in readers:
                if cells_read & unpop and rr != tuple(rect):
                    return False
            if len(k & pop) == 0:
                return False
        return True
    elig = {
        'cell': [c for c in cells if 'f' not in c],
        'formula': [c for c in cells if 'f' in c],
        'name': [i for i, nm in enumerate(spec.get('names', [])) if ok(tuple(nm['rect']))],
        'rect': [r for r in referenced_rects(spec) if ok(r)],
        'fname': list(range(len(spec.get('fnames', [])))),
    }
    avail = [k for k in kinds if elig[k]]
    used = set()
    out = []
    if not avail:
        return out
    if not allow_arrays:
        # random multi-cell targets never touch an array-formula area (listed finding F42 covers what goes wrong there;
        # the fixed shapes of C07's 'array-range-histories' part keep that area asserted)
        for kk in ('name', 'rect'):
            elig[kk] = [t for t in elig[kk] if not (keys_of(tuple(spec['names'][t]['rect']) if kk == 'name' else t) & arr)]
        avail = [k for k in kinds if elig[k]]
        if not avail:
            return out
    nv = values.filter(lambda v: v is not None)
    for _ in range(draw(st.integers(min_n, max_n))):
        kind = draw(st.sampled_from(avail))
        if kind in ('cell', 'formula'):
            ov = ['cell', list(draw(st.sampled_from(elig[kind]))['at']), draw(values)]
        elif kind == 'fname':
            i = draw(st.sampled_from(elig['fname']))
            if ('fname', i) in used:
                continue
            used.add(('fname', i))
            out.append(['fname', i, draw(nv)])
            continue
        elif kind == 'name':
            i = draw(st.sampled_from(elig['name']))
            b, s, r1, c1, r2, c2 = spec['names'][i]['rect']
            ov = ['name', i, [[draw(nv) for _ in range(c1, c2 + 1)] for _ in range(r1, r2 + 1)]]
        else:
            rect = draw(st.sampled_from(elig['rect']))
            b, s, r1, c1, r2, c2 = rect
            ov = ['rect', list(rect), [[draw(nv) for _ in range(c1, c2 + 1)] for _ in range(r1, r2 + 1)]]
        keys = keys_of(target_rect(spec, ov))
        if keys & used:
            continue
        used |= keys
        out.append(ov)
    return out


def ov_labels(spec, ovs):
    """Classes of an override list (used in signatures).  Two listed findings are keyed on them:
    a name/range override over a cell that is itself computed (formula cell or error-valued constant, which the
    repo models as a zero-input formula) races with that formula; a name that shares its target with another name."""
    lb = set()
    forms = {k for c in spec['cells'] if 'f' in c for k in W.cell_keys(c)}
    errconst = {tuple(c['at']) for c in spec['cells'] if 'f' not in c and isinstance(c['v'], list)}
    names = spec.get('names', [])
    for ov in ovs:
        if ov[0] == 'fname':
            lb.add('ov:formula-name')
            if spec['fnames'][ov[1]]['f'][0] == 'fname':
                lb.add('ov:formula-name-alias')
            continue
        if ov[0] == 'cell':
            lb.add('ov:formula-cell' if tuple(ov[1]) in forms else 'ov:const-cell')
            continue
        b, s, r1, c1, r2, c2 = target_rect(spec, ov)
        keys = {(b, s, r, c) for r in range(r1, r2 + 1) for c in range(c1, c2 + 1)}
        what = 'name' if ov[0] == 'name' else 'range'
        aliased = False
        chain = set()
        if ov[0] == 'name':
            chain = {i for i, nm in enumerate(names) if nm.get('alias') == ov[1]} | ({names[ov[1]]['alias']} if 'alias' in names[ov[1]] else set())
            if 'alias' in names[ov[1]]:
                lb.add('ov:name-alias-chain')
        for i, nm in enumerate(names):
            if (ov[0] == 'name' and i == ov[1]) or i in chain:
                continue
            nb, ns, a1_, b1_, a2_, b2_ = nm['rect']
            if keys & {(nb, ns, r, c) for r in range(a1_, a2_ + 1) for c in range(b1_, b2_ + 1)}:
                aliased = True
        arrk = array_cells(spec)
        if keys & (errconst | (forms - arrk)):
            lb.add('ov:%s-over-computed-cell' % what)
        elif keys & arrk:
            lb.add('ov:%s-over-array-formula' % what)
        elif keys - W.populated(spec):
            lb.add('ov:%s-partly-blank' % what)
        elif aliased:
            lb.add('ov:%s-aliased-by-name' % what)
        elif ov[0] == 'name':
            lb.add('ov:name-multi' if (r1, c1) != (r2, c2) else 'ov:name-single')
        else:
            lb.add('ov:range')
    return sorted(lb)


def build(spec, path, dirpath=None):
    """A finished model of the spec through the chosen load path."""
    if path == 'dict':
        return sut.ExcelModel().from_dict(G.to_dict(spec))
    paths = G.write_files(spec, dirpath)
    return sut.ExcelModel().loads(*paths).finish()


def compare_solution(spec, sol, expected, sub, only=None):
    flat, conflicts = G.flatten(sol)
    fails = [('consistency|%s|%s' % (sub, c[0]), '%s %s' % (c[1], c[2])) for c in conflicts]
    exp = expected if only is None else {k: v for k, v in expected.items() if k in only}
    return fails + G.compare(spec, flat, exp, sub=sub), flat
