"""Formula trees, spellers and the canonical expr rendering (shared by C01, C08, C09, C18).

Nothing in this file looks at the code under test: the precedence table, the
minimal-parenthesis rule and the chain parser are written from Excel's
published operator table (comparison < & < + - < * / < ^ < postfix % < unary
sign; equal rank groups left to right).

PUBLIC API
----------
Tree = plain JSON-able nested lists:
    ['num', 2.5]                unsigned finite number literal (float >= 0)
    ['str', 'abc']              text literal (the value, quotes not doubled)
    ['bool', True]              logical literal
    ['err', '#N/A']             error literal
    ['ref', 'A1']               single cell; ['ref', 'A1', 'Sheet1'] with a sheet; sheet may be
                                'S 1' (needs quotes) or '[b.xlsx]T' (workbook + sheet)
    ['rng', 'A1:B2']            rectangle (only as a function argument); optional sheet like ref
    ['union', [ref|rng, ...]]   parenthesised union (A1,B1:B2) -- only as ONE function argument
                                (printed by canon as nested pairs: (A1, (B1, C1)))
    ['bin', op, L, R]           op in BINOPS
    ['neg', X] ['pos', X]       prefix sign
    ['pct', X]                  postfix %
    ['func', 'SUM', [arg...]]   arg = Tree | ['empty']
    ['arr', [[e, ...], ...]]    array literal; e = num | ['neg', num] | str | bool | err

BINOPS, RANK                    Excel's table (RANK['%'] = 6, RANK['u'] = 7)
canon(tree) -> str              the text `Parser().ast(f)[1][-1].get_expr` prints for the tree
                                (binary '(a op b)', unary '-a', 'a%', 'NAME(a, , b)',
                                'ARRAY(ARRAY(..), ..)'), literals in their default spelling
spell(tree, style) -> Spelled   .text (with leading '='), .expr (canon with the literal spellings
                                chosen by the style), .feats (set of strings: 'run:bin-un',
                                'run:bin-un:next=^', 'run:un-un', 'ws', 'newline', 'case',
                                'redundant', 'full', 'numfmt', 'absref', 'nl-string',
                                'lower-error', 'quoted-sheet-then-book', 'pct-pct')
    style = {'paren': 'min'|'full'|'redundant',   parenthesis policy
             'runs':  bool,      False: a prefix sign never directly follows another sign/+/-
                                 (the operand is parenthesised), True: natural minimal spelling
             'extra': [int..],   'redundant' only: extra paren layers per node, cycled
             'ws':    [str..],   whitespace put into the gaps between tokens, cycled ('' = none)
             'case':  [0|1|2..], per name token: 0 upper, 1 lower, 2 mixed; cycled
             'num':   [int..],   number format per literal, cycled (see NUMFMTS)
             'errcase': bool}    True: error literals follow the case policy too
    MIN = {'paren': 'min', 'runs': True} is the plain minimal speller.
normalise(tree) -> tree         F(<single empty argument>) == F()
parse_chain(tokens) -> tree     independent precedence-climbing parser over a flat token list
                                (operand trees, 'u-', 'u+', '%', binary operators, '(' , ')')
chain_text(tokens) -> str       the formula text of such a token list
walk(tree), refs_of(tree), depth(tree), n_ops(tree), ref_name(node)
has_sign_run(text_feats)        True when feats contain a 'run:' feature
random_tree(ints, max_depth=5, ...) -> tree   deterministic decoder of a list of integers
strategies: trees(max_depth=5, ...), styles()   (Hypothesis)
"""
import re
from decimal import Decimal

BINOPS = ['=', '<', '>', '<=', '>=', '<>', '&', '+', '-', '*', '/', '^']
RANK = {'=': 1, '<': 1, '>': 1, '<=': 1, '>=': 1, '<>': 1, '&': 2, '+': 3, '-': 3, '*': 4, '/': 4, '^': 5,
        '%': 6, 'u': 7}
ERRORS = ('#NULL!', '#DIV/0!', '#VALUE!', '#REF!', '#NAME?', '#NUM!', '#N/A')
EMPTY_ARG = ['empty']
MIN = {'paren': 'min', 'runs': True}
NUMFMTS = ('plain', 'dot-zero', 'exp', 'lead-dot', 'exp-shift', 'exp-lower')


# --------------------------------------------------------------------------
# small helpers over trees
# --------------------------------------------------------------------------
def walk(t):
    """Every node, pre-order (array elements and function arguments included)."""
    yield t
    k = t[0]
    if k == 'bin':
        for c in (t[2], t[3]):
            yield from walk(c)
    elif k in ('neg', 'pos', 'pct'):
        yield from walk(t[1])
    elif k == 'func':
        for a in t[2]:
            yield from walk(a)
    elif k == 'union':
        for a in t[1]:
            yield from walk(a)
    elif k == 'arr':
        for row in t[1]:
            for e in row:
                yield from walk(e)


def depth(t):
    k = t[0]
    if k == 'bin':
        return 1 + max(depth(t[2]), depth(t[3]))
    if k in ('neg', 'pos', 'pct'):
        return 1 + depth(t[1])
    if k == 'func':
        return 1 + max([depth(a) for a in t[2]] or [0])
    return 0  # literals, references, unions and array literals are leaves


def n_ops(t):
    return sum(1 for n in walk(t) if n[0] in ('bin', 'neg', 'pos', 'pct'))


def sheet_prefix(sheet):
    """Canonical prefix the way a node id carries it: plain names upper-cased,
    names with a space quoted, workbook names kept, their sheet upper-cased."""
    if not sheet:
        return ''
    if sheet.startswith('['):
        book, sh = sheet[1:].split(']', 1)
        return "'[%s]%s'!" % (book, sh.upper())
    if ' ' in sheet:
        return "'%s'!" % sheet.upper()
    return sheet.upper() + '!'


def ref_name(node):
    """Canonical name of a ref / rng node ('A1', 'SHEET1!A1:B2', "'S 1'!A1")."""
    return sheet_prefix(node[2] if len(node) > 2 else None) + node[1]


def refs_of(t):
    """Canonical names of all ref/rng leaves, first occurrence order."""
    out = []
    for n in walk(t):
        if n[0] in ('ref', 'rng'):
            nm = ref_name(n)
            if nm not in out:
                out.append(nm)
    return out


def has_sign_run(feats):
    return any(f.startswith('run:') for f in feats)


# --------------------------------------------------------------------------
# literals
# --------------------------------------------------------------------------
def _plain_num(x):
    x = float(x)
    if x == int(x) and x < 1e15:
        return str(int(x))
    r = repr(x)
    if 'e' in r:
        m, e = r.split('e')
        return '%sE%s%d' % (m, '+' if int(e) >= 0 else '-', abs(int(e)))
    return r


def num_text(x, fmt=0):
    """Unsigned number -> one of Excel's spellings with exactly the same value.
    fmt indexes NUMFMTS; a format that does not apply falls back to plain."""
    plain = _plain_num(x)
    name = NUMFMTS[fmt % len(NUMFMTS)]
    if name == 'plain' or 'E' in plain:
        return plain
    if name == 'dot-zero':
        return plain + ('0' if '.' in plain else '.0')
    if name == 'lead-dot':
        return plain[1:] if plain.startswith('0.') else plain
    d = Decimal(plain)
    if name in ('exp', 'exp-lower'):
        s = '%sE+0' % plain
    else:  # exp-shift: 2.5 -> 25E-1 ; 20 -> 200E-1
        s = '%sE-1' % _plain_num_dec(d * 10)
    if float(s) != float(x):  # pragma: no cover  (defensive: never change the value)
        return plain
    return s.replace('E', 'e') if name == 'exp-lower' else s


def _plain_num_dec(d):
    s = format(d, 'f')
    if '.' in s:
        s = s.rstrip('0').rstrip('.')
    return s


def str_text(s):
    return '"%s"' % s.replace('"', '""')


def _case(s, how):
    if how == 1:
        return s.lower()
    if how == 2:
        out, up = [], False
        for ch in s:
            out.append(ch.upper() if up else ch.lower())
            if ch.isalpha():
                up = not up
        return ''.join(out)
    return s


# --------------------------------------------------------------------------
# canonical rendering (what get_expr prints)
# --------------------------------------------------------------------------
def canon(t):
    return spell(t, {'paren': 'full', 'runs': True}).expr


# --------------------------------------------------------------------------
# the speller
# --------------------------------------------------------------------------
class Spelled:
    __slots__ = ('text', 'expr', 'feats', 'tokens')

    def __init__(self, text, expr, feats, tokens):
        self.text, self.expr, self.feats, self.tokens = text, expr, feats, tokens

    def __repr__(self):
        return 'Spelled(%r, %r, %s)' % (self.text, self.expr, sorted(self.feats))


class _Cursor:
    def __init__(self, seq, default):
        self.seq = list(seq) if seq else [default]
        self.i = 0

    def next(self):
        v = self.seq[self.i % len(self.seq)]
        self.i += 1
        return v


class _Ctx:
    def __init__(self, style):
        self.paren = style.get('paren', 'min')
        self.runs = style.get('runs', True)
        self.extra = _Cursor(style.get('extra'), 0)
        self.case = _Cursor(style.get('case'), 0)
        self.num = _Cursor(style.get('num'), 0)
        self.errcase = style.get('errcase', False)
        self.feats = set()


def _needs_paren(child, parent_kind, parent_op, side):
    """Minimal parentheses from Excel's table.  parent_kind in 'bin','sign','pct'."""
    k = child[0]
    if parent_kind == 'bin':
        if k == 'bin':
            rc, rp = RANK[child[1]], RANK[parent_op]
            return rc < rp or (side == 'R' and rc == rp)
        return False  # a signed or % operand binds tighter than every binary operator
    if parent_kind == 'sign':  # -X : the sign binds tightest, so X may only be a primary or another sign
        return k in ('bin', 'pct')
    if parent_kind == 'pct':  # X% : X may be a primary or a signed primary; (x%)% is always parenthesised
        return k in ('bin', 'pct')
    return False


def _sp(t, cx, prev_sign, next_op, deco=True):
    """-> (tokens, expr).  prev_sign: None | 'b' (binary + or - just emitted) |
    'u' (prefix sign just emitted); next_op: tuple of the operators whose
    unparenthesised left operand this node is, innermost first (they are applied
    to a signed operand before a preceding binary +/-; for the sign-run feature)."""
    k = t[0]
    layers = 0
    if deco and cx.paren == 'redundant' and k != 'empty':
        layers = cx.extra.next()
    if layers:
        cx.feats.add('redundant')
        toks, ex = _sp_inner(t, cx, None, None)
        return ['('] * layers + toks + [')'] * layers, ex
    return _sp_inner(t, cx, prev_sign, next_op)


def _wrap(t, cx, parent_kind, parent_op, side, prev_sign, next_op):
    need = _needs_paren(t, parent_kind, parent_op, side)
    full = cx.paren == 'full' and t[0] in ('bin', 'neg', 'pos', 'pct')
    brk = (not cx.runs) and prev_sign and _starts_with_sign(t, cx)
    if need or full or brk:
        if full and not need:
            cx.feats.add('full')
        toks, ex = _sp(t, cx, None, None)
        return ['('] + toks + [')'], ex
    return _sp(t, cx, prev_sign, next_op)


def _starts_with_sign(t, cx):
    """Would the unparenthesised spelling of t start with a prefix sign?"""
    while True:
        k = t[0]
        if k in ('neg', 'pos'):
            return True
        if k == 'bin':
            if _needs_paren(t[2], 'bin', t[1], 'L') or cx.paren == 'full':
                return False
            t = t[2]
        elif k == 'pct':
            if _needs_paren(t[1], 'pct', None, None) or cx.paren == 'full':
                return False
            t = t[1]
        else:
            return False


def _sp_inner(t, cx, prev_sign, next_op):
    k = t[0]
    if k == 'num':
        fmt = cx.num.next()
        s = num_text(t[1], fmt)
        if s != _plain_num(t[1]):
            cx.feats.add('numfmt')
        return [s], s
    if k == 'str':
        if '\n' in t[1]:
            cx.feats.add('nl-string')
        s = str_text(t[1])
        return [s], s
    if k == 'bool':
        c = cx.case.next()
        s = _case('TRUE' if t[1] else 'FALSE', c)
        if c:
            cx.feats.add('case')
        return [s], s
    if k == 'err':
        s = t[1]
        if cx.errcase:
            c = cx.case.next()
            if c and _case(s, c) != s:
                s = _case(s, c)
                cx.feats.add('lower-error')
        return [s], t[1]
    if k in ('ref', 'rng'):
        return [_ref_text(t, cx)], ref_name(t)
    if k == 'union':
        toks, ex = ['('], []
        for i, a in enumerate(t[1]):
            if i:
                toks.append(',')
            toks.append(_ref_text(a, cx))
            ex.append(ref_name(a))
        # the reference-union operator is binary: n areas print right-nested, (A1, (B1, C1))
        e = ex[-1]
        for x in reversed(ex[:-1]):
            e = '(%s, %s)' % (x, e)
        return toks + [')'], e
    if k == 'empty':
        return [], ''
    if k == 'bin':
        op = t[1]
        lt, le = _wrap(t[2], cx, 'bin', op, 'L', prev_sign, (op,) + tuple(next_op or ()))
        rt, re_ = _wrap(t[3], cx, 'bin', op, 'R', 'b' if op in '+-' else None, None)
        return lt + [op] + rt, '(%s %s %s)' % (le, op, re_)
    if k in ('neg', 'pos'):
        sign = '-' if k == 'neg' else '+'
        if prev_sign == 'b':
            cx.feats.add('run:bin-un')
            sp = tuple(next_op or ())
            cx.feats.add('run:bin-un:next=%s' % ('^' if '^' in sp else (sp[0] if sp else 'none')))
        elif prev_sign == 'u':
            cx.feats.add('run:un-un')
        xt, xe = _wrap(t[1], cx, 'sign', None, None, 'u', next_op)
        return [sign] + xt, sign + xe
    if k == 'pct':
        if t[1][0] == 'pct':
            cx.feats.add('pct-pct')
        xt, xe = _wrap(t[1], cx, 'pct', None, None, prev_sign, ('%',) + tuple(next_op or ()))
        return xt + ['%'], xe + '%'
    if k == 'func':
        c = cx.case.next()
        if c:
            cx.feats.add('case')
        toks, ex = [_case(t[1], c) + '('], []
        for i, a in enumerate(t[2]):
            if i:
                toks.append(',')
            at, ae = _sp(a, cx, None, None)
            toks += at
            ex.append(ae)
        return toks + [')'], '%s(%s)' % (t[1].upper(), ', '.join(ex))
    if k == 'arr':
        toks, rows = ['{'], []
        for i, row in enumerate(t[1]):
            if i:
                toks.append(';')
            es = []
            for j, e in enumerate(row):
                if j:
                    toks.append(',')
                if e[0] == 'neg':  # a signed constant is one token: no blank, no parenthesis inside it
                    et, ee = _sp_inner(e[1], cx, None, None)
                    et, ee = ['-' + et[0]], '-' + ee
                else:
                    et, ee = _sp_inner(e, cx, None, None)
                toks += et
                es.append(ee)
            rows.append('ARRAY(%s)' % ', '.join(es))
        return toks + ['}'], 'ARRAY(%s)' % ', '.join(rows)
    raise ValueError('unknown node %r' % (t,))


_CELL = re.compile(r'^([A-Z]+)(\d+)$')


def _ref_text(t, cx):
    """One token: [sheet!]cell[:cell] with case / $ decoration."""
    c = cx.case.next()
    sheet = t[2] if len(t) > 2 else None
    parts = []
    for i, cell in enumerate(t[1].split(':')):
        m = _CELL.match(cell)
        col, row = m.group(1), m.group(2)
        if c == 2:  # mixed policy on a cell = absolute markers (case has no 'mixed' for one letter)
            cx.feats.add('absref')
            parts.append('$%s$%s' % (col, row) if i == 0 else '%s$%s' % (col, row))
        else:
            parts.append(_case(col, c) + row)
    if c == 1:
        cx.feats.add('case')
    body = ':'.join(parts)
    if not sheet:
        return body
    if sheet.startswith('['):
        cx.feats.add('book-ref')
        if 'quoted-sheet-seen' in cx.feats:
            cx.feats.add('quoted-sheet-then-book')
        return "'%s'!%s" % (sheet, body)
    if ' ' in sheet:
        cx.feats.add('quoted-sheet-seen')
        return "'%s'!%s" % (_case(sheet, c if c == 1 else 0), body)
    return '%s!%s' % (_case(sheet, c), body)


def spell(tree, style=None):
    style = style or MIN
    cx = _Ctx(style)
    toks, expr = _sp(tree, cx, None, None)
    ws = _Cursor(style.get('ws'), '')
    out = ['=']
    for i, tk in enumerate(toks):
        gap = ws.next()
        if gap:
            cx.feats.add('newline' if '\n' in gap else 'ws')
        out.append(gap)
        out.append(tk)
    cx.feats.discard('quoted-sheet-seen')
    return Spelled(''.join(out), expr, cx.feats, toks)


# --------------------------------------------------------------------------
# independent chain parser (E1 of C01): precedence climbing from Excel's table
# --------------------------------------------------------------------------
def parse_chain(tokens):
    """tokens: operand trees (lists), 'u-', 'u+', '%', binary operator strings,
    '(' and ')'.  Prefix signs bind tightest, then postfix %, then the binary
    ranks of RANK, equal ranks group left to right."""
    pos = [0]

    def peek():
        return tokens[pos[0]] if pos[0] < len(tokens) else None

    def take():
        tk = tokens[pos[0]]
        pos[0] += 1
        return tk

    def primary():
        tk = take()
        if tk == '(':
            node = expr(1)
            if take() != ')':
                raise ValueError('unbalanced')
            return node
        if isinstance(tk, list):
            return tk
        raise ValueError('operand expected, got %r' % (tk,))

    def signed():
        tk = peek()
        if tk in ('u-', 'u+'):
            take()
            return ['neg' if tk == 'u-' else 'pos', signed()]
        return primary()

    def postfix():
        node = signed()
        while peek() == '%':
            take()
            node = ['pct', node]
        return node

    def expr(minrank):
        left = postfix()
        while True:
            tk = peek()
            if isinstance(tk, str) and tk in RANK and tk not in ('%', 'u') and RANK[tk] >= minrank:
                take()
                right = expr(RANK[tk] + 1)
                left = ['bin', tk, left, right]
            else:
                return left
    node = expr(1)
    if pos[0] != len(tokens):
        raise ValueError('trailing tokens')
    return node


def chain_text(tokens):
    out = ['=']
    for tk in tokens:
        if isinstance(tk, list):
            out.append(spell(tk).text[1:])
        else:
            out.append({'u-': '-', 'u+': '+'}.get(tk, tk))
    return ''.join(out)


def normalise(t):
    """F(<one empty argument>) is spelled F() and therefore IS the call without arguments."""
    k = t[0]
    if k == 'bin':
        return ['bin', t[1], normalise(t[2]), normalise(t[3])]
    if k in ('neg', 'pos', 'pct'):
        return [k, normalise(t[1])]
    if k == 'func':
        args = [normalise(a) for a in t[2]]
        if args == [['empty']]:
            args = []
        return ['func', t[1], args]
    return t


# --------------------------------------------------------------------------
# Hypothesis strategies
# --------------------------------------------------------------------------
NUM_POOL = [0.0, 1.0, 2.0, 3.0, 5.0, 7.0, 10.0, 0.5, 0.25, 2.5, 1.5, 100.0, 12.0]
STR_POOL = ['a', 'B', 'abc', '', ' ', '3', 'x y', 'a"b', "it's", 'a,b', '(', ')', '{1;2}', 'A1', '1+1', '-', '%', 'TRUE',
            # texts that are exactly one token of the grammar
            ',', ';', '{', '}', ':', '!', '#', '"', '=', '&', '#REF!', '$A$1', '<>', 'SUM(']
CELLS = ['A1', 'B1', 'C1', 'D1', 'A2', 'B2']
RANGES = ['A1:B1', 'A1:A2', 'A1:B2', 'C1:D1', 'B1:B2']
SHEETS = [None, None, None, None, 'Sheet1', 'S 1', '[b.xlsx]T']
FUNCS_SCALAR = ['ABS']
FUNCS_AGG = ['SUM', 'MIN', 'MAX']
SPY = 'VFSPY'


class _Src:
    """Deterministic source of choices: a list of integers, cycled."""

    def __init__(self, ints):
        self.ints = list(ints) or [0]
        self.i = 0
        self.budget = 45  # nodes

    def next(self, n):
        v = self.ints[self.i % len(self.ints)] + (self.i // len(self.ints))
        self.i += 1
        return v % n

    def pick(self, seq):
        return seq[self.next(len(seq))]


def random_tree(ints, max_depth=5, sheets=True, newline_strings=True, funcs=True, arrays=True):
    """Decode a list of integers into a tree (pure function; the distribution is
    controlled here, not by the search engine): operators dominate, functions
    get 0-6 arguments with empty / range / union / array arguments, forms are
    restricted to what Excel accepts (IF 2-3 arguments, ABS 1, SUM/MIN/MAX >= 1)."""
    src = _Src(ints)
    strs = STR_POOL + (['a\nb'] if newline_strings else [])

    def ref():
        sh = src.pick(SHEETS) if sheets else None
        c = src.pick(CELLS)
        return ['ref', c] if sh is None else ['ref', c, sh]

    def leaf():
        r = src.next(100)
        if r < 40:
            return ref()
        if r < 65:
            return ['num', src.pick(NUM_POOL)]
        if r < 80:
            return ['str', src.pick(strs)]
        if r < 90:
            return ['bool', bool(src.next(2))]
        return ['err', src.pick(ERRORS)]

    def elem():
        r = src.next(100)
        if r < 35:
            return ['num', src.pick(NUM_POOL)]
        if r < 50:
            return ['neg', ['num', src.pick(NUM_POOL)]]
        if r < 70:
            return ['str', src.pick(strs)]
        if r < 85:
            return ['bool', bool(src.next(2))]
        return ['err', src.pick(ERRORS)]

    def arr():
        nr, nc = 1 + src.next(3), 1 + src.next(3)
        return ['arr', [[elem() for _ in range(nc)] for _ in range(nr)]]

    def refarg():
        r = src.next(3)
        if r == 0:
            return ref()
        if r == 1:
            nm = src.pick(RANGES)
            return ['rng', nm, 'Sheet1'] if sheets and src.next(4) == 0 else ['rng', nm]
        return ['union', [(['ref', src.pick(CELLS)] if src.next(2) else ['rng', src.pick(RANGES)]) for _ in range(2 + src.next(2))]]

    def arg(d):
        r = src.next(100)
        if r < 60:
            return gen(d)
        if r < 72:
            return ['empty']
        if r < 88 or not arrays:
            return refarg()
        return arr()

    def gen(d):
        src.budget -= 1
        if d <= 0 or src.budget <= 0 or src.next(100) < 12:
            return leaf()
        r = src.next(100)
        if r < 58 or not funcs:
            if r % 4 == 3:
                return [src.pick(['neg', 'neg', 'pos', 'pct', 'pct']), gen(d - 1)]
            a = gen(d - 1)
            return ['bin', src.pick(BINOPS), a, gen(d - 1 if src.next(3) else max(d - 2, 0))]
        if r < 70:
            return [src.pick(['neg', 'neg', 'pos', 'pct', 'pct']), gen(d - 1)]
        f = src.next(10)
        if f < 3:
            return ['func', src.pick(FUNCS_AGG), [arg(d - 1) for _ in range(1 + src.next(min(6, 2 + d)))]]
        if f < 7:
            return ['func', SPY, [arg(d - 1) for _ in range(src.next(min(7, 3 + d)))]]
        if f < 9:
            n = 2 + (src.next(3) > 0)
            return ['func', 'IF', [gen(d - 1)] + [(['empty'] if src.next(5) == 0 else gen(d - 1)) for _ in range(n - 1)]]
        return ['func', 'ABS', [gen(d - 1)]]

    top = src.next(100)
    if arrays and top < 4:
        return arr()
    if top < 7:
        return leaf()
    return normalise(gen(1 + src.next(max_depth) if top < 40 else max_depth - src.next(2)))


def trees(max_depth=5, **vocab):
    """Hypothesis strategy: random_tree over a list of 48 integers (shrinks towards small trees)."""
    from hypothesis import strategies as st
    return st.lists(st.integers(0, 9999), min_size=48, max_size=48).map(lambda ints: random_tree(ints, max_depth, **vocab))


WS_POOL = ['', '', '', ' ', ' ', '  ', '\n', ' \n ']


def styles(runs=None):
    """Random spelling styles (plain dicts)."""
    from hypothesis import strategies as st
    return st.fixed_dictionaries({
        'paren': st.sampled_from(['min', 'min', 'full', 'redundant']),
        'runs': st.booleans() if runs is None else st.just(runs),
        'extra': st.lists(st.sampled_from([0, 0, 0, 1, 2]), min_size=1, max_size=7),
        'ws': st.one_of(st.just(['']), st.lists(st.sampled_from(WS_POOL), min_size=1, max_size=9)),
        'case': st.one_of(st.just([0]), st.lists(st.sampled_from([0, 1, 2]), min_size=1, max_size=5)),
        'num': st.one_of(st.just([0]), st.lists(st.integers(0, len(NUMFMTS) - 1), min_size=1, max_size=4)),
    })
