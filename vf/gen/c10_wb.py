"""C10 generators: circular workbooks on random digraphs (plain-JSON cases,
see vf/xlref/c10_lazy.py for the expression format) and random digraphs.

`rnd` is anything with the random.Random interface: a seeded random.Random
(custom parts) or Hypothesis' st.randoms(use_true_random=False) (shrinkable)."""

BOOK = 'b.xlsx'
NAMES = ['NM_A', 'NM_B', 'NM_C', 'NM_D']

STRICT_KINDS = [('arith', 8), ('range', 5), ('name', 3), ('name-range', 2), ('cond', 2), ('iferror-first', 3),
                ('ifs-cond1', 2), ('ifs-late-cond', 8)]
GUARD_KINDS = [('if-then', 8), ('if-else', 6), ('ifs', 6), ('iferror', 5), ('ifna', 4), ('if-range', 5),
               ('if-name', 3), ('nested', 3), ('ifs-nodefault', 2)]


def wchoice(rnd, table):
    tot = sum(w for _, w in table)
    x = rnd.random() * tot
    for k, w in table:
        x -= w
        if x < 0:
            return k
    return table[-1][0]


def R(k):
    return ['R', k[0], k[1], k[2], k[3]]


def gen_wb(rnd, tier='quick', max_n=None):
    """-> case dict {'k': 'wb', 'cells', 'names', 'orders', 'paths', 'sheet_order'}"""
    max_n = max_n or (6 if tier == 'quick' else 7)
    two_books = rnd.random() < 0.15
    sheets = [(BOOK, 'S')]
    if rnd.random() < 0.5:
        sheets.append((BOOK, 'T'))
    if two_books:
        sheets.append(('a.xlsx', 'S') if rnd.random() < 0.5 else ('c.xlsx', 'U'))
    n = rnd.randint(2, max_n) if rnd.random() < 0.3 else rnd.randint(min(4, max_n), max_n)
    p = rnd.uniform(0.12, 0.45)
    # one or two groups of cells with few references between them, each with its own regime:
    # (share of guarded edges, share of selected guards)
    ngroups = 2 if (n >= 4 and rnd.random() < 0.6) else 1
    group = [0 if ngroups == 1 or i < (n + 1) // 2 else 1 for i in range(n)]
    regimes = [(rnd.choice([0.0, 0.3, 0.6, 0.6, 0.8, 1.0]), rnd.choice([0.0, 0.2, 0.4, 0.5, 0.8]))]
    if ngroups == 2:
        regimes.append((1.0, 0.0) if rnd.random() < 0.6 else (rnd.choice([0.5, 0.8, 1.0]), rnd.choice([0.0, 0.0, 0.3])))
        if rnd.random() < 0.5:
            regimes.reverse()
    pcross = rnd.choice([0.0, 0.0, 0.05, 0.15])
    if ngroups == 2:
        p = rnd.uniform(0.25, 0.6)
        # the groups live in different columns so that rectangles do not tie them together (mostly)
        pos = []
        for gi in (0, 1):
            slots = [(b, s, gi + 1, r) for (b, s) in sheets for r in range(1, 6)]
            pos += rnd.sample(slots, group.count(gi))
    else:
        slots = [(b, s, c, r) for (b, s) in sheets for c in (1, 2) for r in range(1, 6)]
        pos = rnd.sample(slots, n)
    narrow = ngroups == 2 and rnd.random() < 0.8
    # ---- guard cells (column G = 7, H = 8 on the first sheet): never circular
    g0 = sheets[0]
    cells = []
    gtrue = g0 + (7, 1)
    gfalse = g0 + (7, 2)
    gone = g0 + (7, 3)
    gzero = g0 + (7, 4)
    gna = g0 + (7, 5)
    gdiv = g0 + (7, 6)
    gnum = g0 + (8, 1)   # positive number
    gneg = g0 + (8, 2)   # negative number
    gform_t = g0 + (8, 3)  # =H1>0
    gform_f = g0 + (8, 4)  # =H2>0
    consts = {gtrue: True, gfalse: False, gone: 1, gzero: 0, gna: ['E', '#N/A'], gdiv: ['E', '#DIV/0!'],
              gnum: 5, gneg: -3, gform_t: ['>', R(gnum), 0], gform_f: ['>', R(gneg), 0]}
    used = set()

    def guard(sel):
        k = rnd.randint(0, 4)
        if k == 0:
            return bool(sel)
        if k == 1:
            c = gtrue if sel else gfalse
        elif k == 2:
            c = gone if sel else gzero
        elif k == 3:
            c = gform_t if sel else gform_f
            used.add(gnum if sel else gneg)
        else:
            used.add(gnum if sel else gneg)
            return ['>', R(gnum if sel else gneg), 0]
        used.add(c)
        return R(c)

    def errguard(sel, na_only):
        """first argument of IFERROR / IFNA"""
        if sel:
            c = gna if (na_only or rnd.random() < 0.5) else gdiv
            if rnd.random() < 0.3:
                return ['E', '#N/A'] if c == gna else ['E', '#DIV/0!']
        else:
            c = rnd.choice([gone, gnum, gzero])
        used.add(c)
        return R(c)

    names = []

    def name_for(target):
        for b, nm, t in names:
            if t == target:
                return ['N', b, nm]
        if two_books or len(names) >= len(NAMES):
            return None  # names stay in single-book workbooks (dict path + names is finding F-C10-1)
        nm = NAMES[len(names)]
        names.append([BOOK, nm, target])
        return ['N', BOOK, nm]

    def rect_around(k):
        b, s, c, r = k
        c1, c2 = (c, c) if narrow else (max(1, c - rnd.randint(0, 1)), min(2, c + rnd.randint(0, 1)))
        r1, r2 = max(1, r - rnd.randint(0, 2)), min(6, r + rnd.randint(0, 2))
        return ['RG', b, s, c1, r1, c2, r2]

    def term(j, i):
        tgt = pos[j]
        pg, psel = regimes[group[i]]
        guarded = rnd.random() < pg
        sel = rnd.random() < psel
        k0 = 1 + rnd.randint(0, 3)
        if not guarded:
            kind = wchoice(rnd, STRICT_KINDS)
            if kind == 'arith':
                return R(tgt)
            if kind == 'range':
                return ['SUM', rect_around(tgt)]
            if kind == 'name':
                nm = name_for(R(tgt))
                return nm or R(tgt)
            if kind == 'name-range':
                nm = name_for(rect_around(tgt))
                return ['SUM', nm] if nm else ['SUM', rect_around(tgt)]
            if kind == 'cond':
                return ['IF', ['>', R(tgt), 0], 10, 20]
            if kind in ('ifs-cond1', 'ifs-late-cond'):
                # a reference in a CONDITION of IFS is never avoidable (only value branches are), whatever the
                # earlier conditions say: earlier conditions are constants / non-circular guards, TRUE and FALSE
                cond = ['>', R(tgt), 0] if rnd.random() < 0.7 else R(tgt)
                if kind == 'ifs-cond1':
                    return ['IFS', cond, 10, True, 20]
                e = ['IFS']
                for n_ in range(rnd.randint(1, 2)):
                    e += [guard(rnd.random() < 0.5), 30 + n_]
                e += [cond, 10]
                if rnd.random() < 0.7:
                    e += [True, 20]
                return e
            return ['IFERROR', R(tgt), 1000]
        kind = wchoice(rnd, GUARD_KINDS)
        if kind == 'if-then':
            return ['IF', guard(sel), R(tgt), k0]
        if kind == 'if-else':
            return ['IF', guard(not sel), k0, R(tgt)]
        if kind == 'ifs':
            if rnd.random() < 0.5:
                return ['IFS', guard(sel), R(tgt), True, k0]
            return ['IFS', guard(not sel), k0, guard(True), R(tgt)]
        if kind == 'ifs-nodefault':
            return ['IFS', guard(sel), R(tgt)]
        if kind == 'iferror':
            return ['IFERROR', errguard(sel, False), R(tgt)]
        if kind == 'ifna':
            return ['IFNA', errguard(sel, True), R(tgt)]
        if kind == 'if-range':
            return ['IF', guard(sel), ['SUM', rect_around(tgt)], k0]
        if kind == 'if-name':
            nm = name_for(R(tgt))
            return ['IF', guard(sel), nm or R(tgt), k0]
        # nested: selected only if both are
        s1 = rnd.random() < 0.6
        s2 = sel
        return ['IF', guard(s1), ['IF', guard(s2), R(tgt), k0], k0 + 1]

    # ---- upstream constants (column K = 11) and the graph cells
    up = [g0 + (11, r) for r in (1, 2)]
    for i in range(n):
        terms = [float(2 ** i * 100)]
        for j in range(n):
            if rnd.random() < (p if group[i] == group[j] else pcross):
                terms.append(term(j, i))
        if rnd.random() < 0.25:
            u = rnd.choice(up)
            used.add(u)
            consts[u] = 7 if u == up[0] else 0.5
            terms.append(R(u))
        if len(terms) == 1 and rnd.random() < 0.5:
            cells.append(list(pos[i]) + [terms[0]])
        else:
            cells.append(list(pos[i]) + [['+'] + terms])
    # ---- downstream observers (column D = 4): outside the graph
    nobs = rnd.randint(0, 3)
    for r in range(1, nobs + 1):
        j = rnd.randint(0, n - 1)
        kind = rnd.randint(0, 5)
        t = R(pos[j])
        if kind == 0:
            e = ['ISERROR', t]
        elif kind == 1:
            e = ['IFERROR', t, 9]
        elif kind == 2:
            e = ['+', t, 1]
        elif kind == 3:
            e = ['SUM', ['RG', pos[j][0], pos[j][1], 1, 1, 2, 5]]
        elif kind == 4:
            e = ['IF', guard(rnd.random() < 0.5), t, 0]
        else:
            e = ['+', ['IFERROR', t, 3], ['IF', guard(False), t, 1]]
        cells.append(list(g0) + [4, r, e])
    for k in sorted(used):
        cells.append(list(k) + [consts[k]])
    # ---- orders, paths
    m = len(cells) + len(names)
    ident = list(range(m))
    o2 = ident[::-1]
    o3 = ident[:]
    rnd.shuffle(o3)
    orders = [ident, o3] if tier == 'quick' else [ident, o2, o3]
    paths = []
    if two_books:
        paths = ['dict']
    elif names:
        paths = ['file', 'dict'] if rnd.random() < 0.04 else ['file']
    else:
        paths = ['dict', 'file'] if rnd.random() < (0.35 if tier == 'quick' else 0.5) else ['dict']
    so = sorted({c[1] for c in cells if c[0] == BOOK})
    rnd.shuffle(so)
    return {'k': 'wb', 'cells': cells, 'names': names, 'orders': orders, 'paths': paths, 'sheet_order': so}


def gen_graph(rnd, tier='quick'):
    n = rnd.randint(5, 9)
    p = rnd.random() * (0.5 if n <= 7 else 0.38)
    style = rnd.randint(0, 2)
    if style == 0:
        nodes = list(range(n))
        rnd.shuffle(nodes)
    elif style == 1:
        nodes = ["'[b.xlsx]S'!%s%d" % ('AB'[i % 2], i + 1) for i in range(n)]
        rnd.shuffle(nodes)
    else:
        nodes = ['n%d' % (i * 7 % 10) + 'x' * (i % 3) for i in range(n)]
        nodes = sorted(set(nodes))
        n = len(nodes)
    edges = [[nodes[a], nodes[b]] for a in range(n) for b in range(n) if rnd.random() < p]
    skip = [v for v in nodes if rnd.random() < 0.15] if rnd.random() < 0.4 else []
    return {'k': 'cyc', 'nodes': nodes, 'edges': edges, 'skip': skip, 'copy': rnd.random() < 0.7,
            'aslist': rnd.random() < 0.5}
