"""Operation histories on models (C07, C17): generation and execution.

A history is plain JSON: {'spec', 'path', 'ops': [...]} with ops
  ['calc', obj, overrides, outs|None]      calculate(inputs, outputs) on object `obj`   (observed)
  ['call', obj, ins, outs, args]           model.compile(ins, outs)(*args)               (observed)
  ['fcopy', obj, how]                      copy the last compiled function of obj (deepcopy|dill) and call both
  ['to_dict', obj] ['write', obj, sink] ['finish', obj]
  ['copy', src, dst, 'deepcopy'|'dill']    new object dst
Objects are named 'A' (the original), 'B', 'C'.  Every observed result is
compared with (i) the independent evaluator, (ii) the same call on a FRESH
model built from the spec - whatever was done to this or any sibling object
before.
"""
import copy
import os
from hypothesis import strategies as st

from .. import sut
from ..xlref import wb as W
from ..xlref import core as X
from . import workbooks as G
from . import wbops as O


def _dill():
    import dill
    return dill


def do_copy(obj, how):
    if how == 'deepcopy':
        return copy.deepcopy(obj)
    d = _dill()
    return d.loads(d.dumps(obj))


class Runner:
    def __init__(self, spec, path, workdir):
        self.spec, self.path, self.dir = spec, path, workdir
        self.n = 0
        self.specs = {'A': spec}
        self.objs = {'A': self.fresh(spec)}
        self.kind = {'A': 'original'}
        self.fails = []
        self.labels = []
        self.observed = 0
        self.prev_ov = {}      # obj -> override signature of its previous calculation
        self.nontrivial = False
        self.trace = []

    def fresh(self, spec):
        self.n += 1
        return O.build(spec, self.path, os.path.join(self.dir, 'm%d' % self.n))

    def fail(self, sig, detail):
        if sig not in [s for s, _ in self.fails]:
            self.fails.append((sig, '%s | after %s' % (detail, self.trace[-6:])))

    # -- observed operations -------------------------------------------------
    def calc(self, name, ovs, outs, sub):
        m = self.objs[name]
        spec = self.specs[name]
        inputs, missing = O.to_inputs(m, spec, ovs)
        ovs = [ov for ov in ovs if ov not in missing]
        expected = W.evaluate(spec, O.to_cells(spec, ovs), fname_over=O.to_fnames(spec, ovs))
        out_ids = None
        if outs:
            out_ids = [O.node_of(m, G.node_id(spec, tuple(k))) for k in outs]
            out_ids = [o for o in out_ids if o is not None and o not in inputs]
            if not out_ids:
                out_ids = None
        sol = m.calculate(inputs=inputs, outputs=out_ids) if out_ids else m.calculate(inputs=inputs)
        flat, conflicts = G.flatten(sol, supplied=set(inputs), raw_ok={fn['name'].upper() for fn in spec.get('fnames', [])})
        tag = '+'.join(O.ov_labels(spec, ovs)) or 'no-override'
        hist = '>'.join(t[0] for t in self.trace[-2:]) or 'start'
        # unpopulated cells of a multi-cell override: only the readers of that very rectangle are asserted (their own
        # placeholder node keeps BLANK on the unchanged tree), so a two-values conflict there is not reported
        pop = W.populated(spec)
        soft = set()
        for ov in ovs:
            if ov[0] != 'cell':
                b_, s_, r1_, c1_, r2_, c2_ = O.target_rect(spec, ov)
                soft |= {G.node_id(spec, (b_, s_, r_, c_)) for r_ in range(r1_, r2_ + 1) for c_ in range(c1_, c2_ + 1)
                         if (b_, s_, r_, c_) not in pop}
        arr_over = set()
        for ov in ovs:
            if ov[0] != 'cell':
                b_, s_, r1_, c1_, r2_, c2_ = O.target_rect(spec, ov)
                arr_over |= {G.node_id(spec, k_) for k_ in O.array_cells(spec) if k_[0] == b_ and k_[1] == s_ and r1_ <= k_[2] <= r2_ and c1_ <= k_[3] <= c2_}
        for c in conflicts:
            if c[0] == 'two-values' and c[1] in soft:
                continue
            if c[0] == 'two-values' and c[1] in arr_over and 'Foreign(Ranges)' in c[2]:
                continue  # the array cell's node wraps the supplied values in a nested Ranges; the cell values are asserted below
            self.fail('consistency|%s|%s|%s' % (sub, c[0], tag), '%s %s' % (c[1], c[2]))
        # (a) reference
        only = None
        if out_ids:
            only = {k for k in expected if O.node_of(m, G.node_id(spec, k)) in out_ids}
        exp = expected if only is None else {k: v for k, v in expected.items() if k in only}
        for s, d in G.compare(spec, flat, exp, sub='override'):
            form = s.split('|', 2)
            self.fail('override|%s|%s' % (tag, '|'.join(form[1:])), '[%s] %s (overrides %s)' % (name, d, ovs))
        # (b) fresh model, same call
        fm = self.fresh(spec)
        finputs, _ = O.to_inputs(fm, spec, ovs)
        fout = None
        if out_ids:
            fout = [O.node_of(fm, str(o).upper()) for o in out_ids]
            fout = [o for o in fout if o is not None] or None
        fsol = fm.calculate(inputs=finputs, outputs=fout) if fout else fm.calculate(inputs=finputs)
        fflat, _ = G.flatten(fsol)
        keys = set(flat) | set(fflat) if not out_ids else {(G.sheet_id(spec, k[0], k[1]), k[2], k[3]) for k in (only or ())}
        for k in sorted(keys, key=repr):
            a, b = flat.get(k, sut.BLANK), fflat.get(k, sut.BLANK)
            if not X.same(a, b, 1e-12) and not (isinstance(a, sut.Blank) and isinstance(b, sut.Blank)):
                self.fail('%s|%s|%s' % (sub, hist, self.kind[name]), '[%s] %s: %r, fresh model %r (overrides %s)' % (name, k, a, b, ovs))
                break
        # (c) restricting outputs changes no returned value
        if out_ids:
            full = m.calculate(inputs=inputs)
            for o in out_ids:
                if o in sol and o in full and not X.same(sut.one(sol[o]), sut.one(full[o]), 1e-12):
                    self.fail('outputs-restricted|%s' % tag, '[%s] %s: %r restricted, %r unrestricted' % (name, o, sut.one(sol[o]), sut.one(full[o])))
        self.observed += 1
        sig = repr(ovs)
        if name in self.prev_ov and self.prev_ov[name] != sig and any(ov[0] != 'cell' or tuple(ov[1]) in {tuple(c['at']) for c in spec['cells'] if 'f' in c} for ov in ovs):
            self.nontrivial = True
        self.prev_ov[name] = sig
        self.labels += ['op:calc', 'obj:' + self.kind[name]] + O.ov_labels(spec, ovs) + (['outs:subset'] if out_ids else ['outs:all'])

    def call(self, name, ins, outs, args, sub, fcopy=None):
        m = self.objs[name]
        spec = self.specs[name]
        in_ids, in_ovs = [], []
        for ov in ins:
            nid = O.node_of(m, O.target_id(spec, ov))
            if nid is not None:
                in_ids.append(nid)
                in_ovs.append(ov)
        out_keys = [tuple(k) for k in outs]
        out_ids = [O.node_of(m, G.node_id(spec, k)) for k in out_keys]
        if not in_ids or not out_ids or None in out_ids:
            self.labels.append('call-skipped')
            return
        in_cells = set()
        for ov in in_ovs:
            b, s, r1, c1, r2, c2 = O.target_rect(spec, ov)
            in_cells |= {(b, s, r, c) for r in range(r1, r2 + 1) for c in range(c1, c2 + 1)}
        down = W.downstream(spec, in_cells)
        if not [k for k in out_keys if k in down and k not in in_cells] or any(k in in_cells for k in out_keys):
            self.labels.append('call-skipped')
            return
        try:
            func = m.compile(in_ids, out_ids)
        except sut.Watchdog:
            raise
        except Exception as ex:
            if isinstance(ex, (AttributeError, TypeError, KeyError, IndexError, NameError, RecursionError, ArithmeticError)):
                # not a refusal: the compiler itself fell over
                self.fail('%s|compile-raised:%s' % (sub, type(ex).__name__), '[%s] compile(%s, %s) raised %r' % (name, in_ids, out_ids, ex))
            self.labels.append('compile-refused:%s' % type(ex).__name__)
            return
        funcs = [('compiled', func)]
        if fcopy:
            funcs.append(('compiled-' + fcopy, do_copy(func, fcopy)))
        if not hasattr(self, 'compiled'):
            self.compiled = []
        self.compiled.append((name, funcs, in_ovs, out_keys, copy.deepcopy(spec)))
        ovs = []
        for ov, a in zip(in_ovs, args):
            o2 = list(ov)
            o2[2] = a if ov[0] == 'cell' else _shape_like(spec, ov, a)
            ovs.append(o2)
        expected = W.evaluate(spec, O.to_cells(spec, ovs))
        tag = '+'.join(O.ov_labels(spec, ovs))
        results = {}
        for fname, f in funcs + funcs[::-1][:len(funcs) - 1]:
            vals = [O.repo_value(spec, o) for o in ovs]
            res = f(*vals)
            if len(out_ids) == 1:
                res = [res]
            for k, rv in zip(out_keys, res):
                got = sut.one(rv)
                exp = expected.get(k)
                if not isinstance(exp, W.Unsure) and not X.same(got, 0.0 if isinstance(exp, sut.Blank) else exp, 1e-9):
                    self.fail('%s|%s|%s' % (sub, fname, tag), '[%s] %s: %s gives %r, reference %r (args %r)' % (name, G.node_id(spec, k), fname, got, exp, args))
                if k in results and not X.same(results[k], got, 1e-12):
                    self.fail('%s|copy-differs|%s' % (sub, fname), '%s: %r vs %r' % (G.node_id(spec, k), results[k], got))
                results[k] = got
        self.observed += 1
        self.labels += ['op:call', 'obj:' + self.kind[name]] + ([('fcopy:' + fcopy)] if fcopy else [])

    def recall(self, idx, args, sub):
        """A function compiled earlier in the history is called again, after whatever happened to the objects since."""
        stored = getattr(self, 'compiled', [])
        if not stored:
            self.labels.append('recall-skipped')
            return
        name, funcs, in_ovs, out_keys, spec = stored[idx % len(stored)]
        ovs = []
        for i, ov in enumerate(in_ovs):
            a = args[i % len(args)]
            o2 = list(ov)
            o2[2] = a if ov[0] == 'cell' else _shape_like(spec, ov, a)
            ovs.append(o2)
        expected = W.evaluate(spec, O.to_cells(spec, ovs))
        tag = '+'.join(O.ov_labels(spec, ovs))
        for fname, f in funcs:
            res = f(*[O.repo_value(spec, o) for o in ovs])
            if len(out_keys) == 1:
                res = [res]
            for k, rv in zip(out_keys, res):
                got, exp = sut.one(rv), expected.get(k)
                if not isinstance(exp, W.Unsure) and not X.same(got, 0.0 if isinstance(exp, sut.Blank) else exp, 1e-9):
                    self.fail('%s|recall:%s|%s' % (sub, fname, tag), '[%s] %s: %s called again later gives %r, reference %r (args %r)' % (
                        name, G.node_id(spec, k), fname, got, exp, args))
        self.observed += 1
        self.labels += ['op:recall']

    # -- unobserved operations -----------------------------------------------
    def other(self, op):
        k = op[0]
        m = self.objs.get(op[1])
        if m is None:
            return
        if k == 'to_dict':
            d = m.to_dict()
            if getattr(self, 'observe_export', False):
                # the export of any object (original or copy) describes the same workbook: imported again it calculates
                # to the reference values of that object's spec
                import json
                import re
                spec = self.specs[op[1]]
                m2 = sut.ExcelModel().from_dict(json.loads(json.dumps(d)))
                flat, _ = G.flatten(m2.calculate())
                signrun = any(isinstance(v, str) and v.startswith('=') and re.search(r'[-+]\s*[-+]', v) for v in d.values())
                for s_, d_ in G.compare(spec, flat, W.evaluate(spec), sub='export'):
                    self.fail('export|%s|%s%s' % (self.kind[op[1]], s_.split('|', 1)[1], '|sign-run' if signrun else ''),
                              '[%s] to_dict -> from_dict: %s' % (op[1], d_))
                self.observed += 1
        elif k == 'write':
            if op[2] == 'disk':
                self.n += 1
                m.write(dirpath=os.path.join(self.dir, 'w%d' % self.n))
            else:
                m.write()
        elif k == 'finish':
            if self.kind[op[1]] != 'original':
                # a copy carries no cells/books (by __getstate__): re-finishing it is only required not to disturb the others
                try:
                    m.finish(complete=False)
                except sut.Watchdog:
                    raise
                except Exception:  # noqa
                    self.labels.append('finish-on-copy-raised')
            elif self.path == 'dict':
                m.finish(complete=False)
            else:
                m.finish()
        elif k == 'edit':
            # the user edits a constant cell of THIS object: only this object's results may change
            spec = copy.deepcopy(self.specs[op[1]])
            # plain-valued constants only: an error-valued constant is a formula node in the repo's model
            # (replacing a formula by a value on a live model is not an operation the API offers)
            consts = [c for c in spec['cells'] if 'f' not in c and not isinstance(c['v'], list)]
            if not consts:
                return
            cell = consts[op[2] % len(consts)]
            cell['v'] = op[3]
            b, s_, r, c = cell['at']
            m.from_dict({G.qual_full(spec, b, s_) + G.a1(r, c): G.const_out(op[3])})
            self.specs[op[1]] = spec
        elif k == 'extend':
            # the user adds a formula cell to THIS object: =SUM(<rectangle of existing cells>)+<n> in a free cell
            spec = copy.deepcopy(self.specs[op[1]])
            pop = W.populated(spec)
            arr = O.array_cells(spec)
            cands = sorted(k_ for k_ in pop if k_ not in arr)
            if not cands:
                return
            b, s_, r, c = cands[op[2] % len(cands)]
            r2 = r + 1 if (b, s_, r + 1, c) in pop and (b, s_, r + 1, c) not in arr else r
            c2 = c + 1 if all((b, s_, rr, c + 1) in pop and (b, s_, rr, c + 1) not in arr for rr in range(r, r2 + 1)) else c
            row = 10
            while (b, s_, row, 7) in pop:
                row += 1
            tree = ['bin', '+', ['fn', 'SUM', ['rng', [b, s_, r, c, r2, c2]]], ['num', float(op[3])]]
            spec['cells'].append({'at': [b, s_, row, 7], 'f': tree})
            m.from_dict({G.qual_full(spec, b, s_) + G.a1(row, 7): '=' + G.render(spec, tree, (b, s_, row, 7), True)})
            self.specs[op[1]] = spec
        elif k == 'copy':
            src, dst, how = op[1], op[2], op[3]
            self.objs[dst] = do_copy(self.objs[src], how)
            self.specs[dst] = self.specs[src]
            self.kind[dst] = how
            self.prev_ov[dst] = self.prev_ov.get(src, None) or '[]'
        self.labels.append('op:' + k + ((':' + op[3]) if k == 'copy' else ''))

    def run(self, ops, sub):
        for op in ops:
            if op[0] == 'recall':
                self.recall(op[1], op[2], sub)
                self.trace.append(['recall', op[1]])
                continue
            if op[1] not in self.objs and op[0] != 'copy':
                continue
            if op[0] == 'copy' and op[1] not in self.objs:
                continue
            if op[0] == 'calc':
                self.calc(op[1], op[2], op[3], sub)
            elif op[0] == 'call':
                self.call(op[1], op[2], op[3], op[4], sub, op[5] if len(op) > 5 else None)
            else:
                self.other(op)
            self.trace.append([op[0], op[1]] + ([op[3]] if op[0] == 'copy' else []))


def _shape_like(spec, ov, a):
    b, s, r1, c1, r2, c2 = O.target_rect(spec, ov)
    if isinstance(a, list) and a and isinstance(a[0], list) and not (len(a) == 2 and a[0] == 'E'):
        return a
    return [[a for _ in range(c1, c2 + 1)] for _ in range(r1, r2 + 1)]


# ---------------------------------------------------------------- strategies
@st.composite
def histories(draw, tier, max_ops=8, objects=('A',), copies=('deepcopy',), name_rate=3, end_with_calc=True, fcopies=False,
              start_with_copy=False, edits=False, undef_rate=0):
    spec = draw(G.specs(tier, max_books=2, wholecols=False, name_rate=name_rate, arr_rate=4, alias_rate=3, fname_rate=6, undef_rate=undef_rate))
    path = draw(st.sampled_from(['dict', 'dict', 'file']))
    forms = [c for c in spec['cells'] if 'f' in c and 'arr' not in c]
    pop = sorted(W.populated(spec))
    live = ['A']
    ops = []
    nops = draw(st.integers(2, max_ops))
    if start_with_copy and len(objects) > 1:
        pre = draw(st.lists(st.sampled_from(['calc', 'to_dict']), max_size=1))
        if pre == ['calc']:
            ops.append(['calc', 'A', draw(O.overrides(spec, max_n=2)), None])
        ops.append(['copy', 'A', objects[1], draw(st.sampled_from(list(copies)))])
        live.append(objects[1])
    for i in range(nops):
        last = end_with_calc and i == nops - 1
        kinds = ['calc', 'calc', 'calc', 'call', 'to_dict', 'write', 'finish', 'copy', 'copy'] + (['edit', 'edit', 'extend', 'extend'] if edits else [])
        k = 'calc' if last else draw(st.sampled_from(kinds))
        obj = draw(st.sampled_from(live))
        if k in ('to_dict', 'finish') and any(o[0] == 'call' for o in ops) and draw(st.booleans()):
            # a function compiled earlier is called again (other arguments) after the operations in between
            ops.append(['recall', draw(st.integers(0, 3)), [draw(O.VALS_NOBLANK) for _ in range(2)]])
            continue
        if k == 'calc':
            prev = [o for o in ops if o[0] == 'calc' and o[2]]
            if prev and draw(st.integers(0, 2)) == 0:
                # the same targets as an earlier calculation, other values
                ovs = []
                for ov in prev[-1][2]:
                    if ov[0] == 'fname':
                        ovs.append(['fname', ov[1], draw(O.VALS_NOBLANK)])
                    elif ov[0] == 'cell':
                        ovs.append(['cell', ov[1], draw(O.VALS)])
                    else:
                        ovs.append([ov[0], ov[1], [[draw(O.VALS_NOBLANK) for _ in row] for row in ov[2]]])
            else:
                ovs = draw(O.overrides(spec, max_n=3, kinds=('cell', 'formula', 'name', 'rect', 'cell', 'formula', 'name', 'rect', 'fname')))
            outs = None
            if pop and draw(st.integers(0, 2)) == 0:
                outs = [list(x) for x in draw(st.lists(st.sampled_from(pop), min_size=1, max_size=3, unique=True))]
            ops.append(['calc', obj, ovs, outs])
        elif k == 'call':
            ins = draw(O.overrides(spec, max_n=2, values=st.just(0.0), min_n=1))
            if not ins or not forms:
                continue
            in_cells = set()
            for ov in ins:
                b, s, r1, c1, r2, c2 = O.target_rect(spec, ov)
                in_cells |= {(b, s, r, c) for r in range(r1, r2 + 1) for c in range(c1, c2 + 1)}
            down = W.downstream(spec, in_cells)
            dep = [tuple(c['at']) for c in forms if tuple(c['at']) in down and tuple(c['at']) not in in_cells]
            if not dep:
                continue
            outs = [list(x) for x in draw(st.lists(st.sampled_from(dep), min_size=1, max_size=2, unique=True))]
            args = [draw(O.VALS if ov[0] == 'cell' else O.VALS_NOBLANK) for ov in ins]
            op = ['call', obj, ins, outs, args]
            if fcopies and draw(st.booleans()):
                op.append(draw(st.sampled_from(['deepcopy', 'dill'])))
            ops.append(op)
        elif k == 'copy':
            free = [o for o in objects if o not in live]
            if not free:
                continue
            how = draw(st.sampled_from(list(copies)))
            ops.append(['copy', obj, free[0], how])
            live.append(free[0])
        elif k == 'extend':
            # only the original keeps its cells (copies drop them by __getstate__), so only it can be extended
            ops.append(['extend', 'A', draw(st.integers(0, 40)), draw(st.integers(0, 9))])
        elif k == 'edit':
            ops.append(['edit', obj, draw(st.integers(0, 30)), draw(st.sampled_from([11.0, -7.0, 0.0, 2.5, 'edited', True]))])
        elif k == 'write':
            ops.append(['write', obj, draw(st.sampled_from(['mem', 'disk']))])
        else:
            ops.append([k, obj])
    return {'k': 'history', 'spec': spec, 'path': path, 'ops': ops}


EDIT_VALS = st.one_of(st.sampled_from([11.0, -7.0, 0.0, 2.5]), st.sampled_from(['edited', 'q']), st.booleans())
