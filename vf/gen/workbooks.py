"""WBSpec generator, renderers (dict / xlsx files) and solution flattening.
See vf/xlref/wb.py for the spec format.  Public API:

  specs(tier, **features)            Hypothesis strategy -> spec (plain JSON)
  to_dict(spec)                      fully-qualified dict for ExcelModel.from_dict
  write_files(spec, dirpath)         xlsx files (openpyxl); returns list of paths in book order
  node_id(spec, key) / sheet_id(...) the repo-side identifier of a cell (upper-cased for matching)
  flatten(solution)                  {(SHEET_ID, r, c): harness value} from every solution node + conflicts
  compare(spec, flat, expected, ...) -> list of (signature, detail)
  features_of(spec)                  labels describing which reference forms a spec uses
  workdir()                          context manager: per-process scratch dir under /verif/.work (removed afterwards)
"""
import os
import re
import shutil
import contextlib
from hypothesis import strategies as st

from .. import sut
from ..xlref import wb as W
from ..xlref import core as X

COLS = 'ABCDEFGHIJKLMNOPQRSTUVWXYZ'
MAXR, MAXC = 6, 5  # rows 1..MAXR, cols A..E (design: rows 1-8, cols A-F; kept slightly smaller => denser graphs)

SHEET_NAMES = {
    'plain': ['S1', 'data', 'Sheet2'],
    'space': ['My Sheet', 'a b'],
    'mixed': ['MiXed', 'camelCase'],
    'nonascii': ['Über', 'été'],
}
# classes used only where the property owns them (C09): ids that may not read back
SHEET_NAMES_EXTRA = {'default': ['Sheet'],  # the title openpyxl gives the only sheet of a new workbook
                     
    'digit': ['1st', '2024'],
    'punct': ['Sh-1', 'a+b', 'x(y)'],
    'apostrophe': ["It's", "O'k"],
    # letters whose upper-casing cannot be undone by lower-casing (sheet titles are matched case-insensitively)
    'casefold': ['Ma\u00dfe', 'stra\u00dfe1'],
}
# excluded by construction elsewhere (they are finding 11): digit-leading, punctuation
NUM_CONST = [0.0, 1.0, 2.0, 3.0, 5.0, 7.0, -1.0, -4.0, 0.5, 2.5, -1.5, 10.0, 100.0, 0.25]
TXT_CONST = ['ab', 'x', 'Hello', 'abc', 'ZZ', 'q', '#N/A yet', '#REF! was here']  # the last two: text that merely starts like an error value
FNAME_POOL = ['Dbl_1x', 'K.rate']  # names defined by a formula
NAME_POOL = ['TOTAL_IN', 'my_name', 'Rate.x', 'XNAME']  # must not look like a cell reference (RN1 is column RN row 1)
ERR_CONST = ['#N/A', '#DIV/0!', '#VALUE!', '#REF!', '#NUM!', '#NAME?', '#NULL!']


def col(c):
    out = ''
    while c:  # bijective base 26
        c, r = divmod(c - 1, 26)
        out = chr(65 + r) + out
    return out


def a1(r, c, ab=False):
    return ('$%s$%d' if ab else '%s%d') % (col(c), r)


def needs_quote(name):
    return not re.match(r'^[^\W\d][\w.]*$', name)


def book_name(spec, b):
    return spec['books'][b]['name']


def sheet_name(spec, b, s):
    return spec['books'][b]['sheets'][s]


def qual_full(spec, b, s):
    return "'[%s]%s'!" % (book_name(spec, b), sheet_name(spec, b, s).replace("'", "''"))


def sheet_id(spec, b, s):
    """Upper-cased repo-side sheet id of (book, sheet)."""
    return ("'[%s]%s'" % (book_name(spec, b), sheet_name(spec, b, s))).upper()


def node_id(spec, key):
    b, s, r, c = key
    return '%s!%s' % (sheet_id(spec, b, s), a1(r, c))


def rect_id(spec, rect):
    b, s, r1, c1, r2, c2 = rect
    if (r1, c1) == (r2, c2):
        return '%s!%s' % (sheet_id(spec, b, s), a1(r1, c1))
    return '%s!%s:%s' % (sheet_id(spec, b, s), a1(r1, c1), a1(r2, c2))


# ---------------------------------------------------------------- rendering
def _lit_num(x):
    s = X.num_literal(abs(float(x)))
    return '(-%s)' % s if x < 0 else s


def has_xbook(t, cur, names):
    for kind, x in W.refs_of(t, names):
        if x[0] != cur[0]:
            return True
    return False


def render(spec, t, cur, full, linkidx=None, absolute=False):
    """Formula text of a tree hosted at cell `cur` = (b, s, r, c).  full=True:
    every reference fully qualified ('[book]sheet'!A1).  linkidx {book: k}: references to
    other books in the numbered-link form xlsx files contain ([k]Sheet!A1)."""
    names = spec.get('names', [])

    def q(b, s):
        if linkidx is not None and b != cur[0]:
            return '[%d]%s!' % (linkidx[b], sheet_name(spec, b, s))
        if full:
            return qual_full(spec, b, s)
        if (b, s) == (cur[0], cur[1]):
            return ''
        if b == cur[0]:
            nm = sheet_name(spec, b, s)
            return ("'%s'!" % nm.replace("'", "''")) if needs_quote(nm) else nm + '!'
        return qual_full(spec, b, s)

    def go(t):
        k = t[0]
        if k == 'num':
            return _lit_num(t[1])
        if k == 'str':
            return '"%s"' % t[1].replace('"', '""')
        if k == 'bool':
            return 'TRUE' if t[1] else 'FALSE'
        if k == 'err':
            return t[1]
        if k == 'fname':
            return spec['fnames'][t[1]]['name']
        if k == 'undef':
            return t[1]
        if k == 'anchor':
            b, s, r, c = t[1]
            return '_xlfn.ANCHORARRAY(%s%s)' % (q(b, s), a1(r, c, absolute))
        if k == 'ref':
            b, s, r, c = t[1]
            return q(b, s) + a1(r, c, absolute or (len(t) > 2 and t[2]))
        if k == 'rng':
            b, s, r1, c1, r2, c2 = t[1]
            ab = absolute or (len(t) > 2 and t[2])
            return q(b, s) + a1(r1, c1, ab) + ':' + a1(r2, c2, ab)
        if k == 'col':
            b, s, c1, c2 = t[1]
            return q(b, s) + '%s:%s' % (col(c1), col(c2))
        if k == 'name':
            return names[t[1]]['name']
        if k == 'uni':
            return '(%s)' % ','.join(go(a) for a in t[1:])
        if k == 'isect':
            return '%s %s' % (go(t[1]), go(t[2]))
        if k == 'neg':
            return '-(%s)' % go(t[1])
        if k == 'bin':
            return '(%s%s%s)' % (go(t[2]), t[1], go(t[3]))
        if k == 'fn':
            return '%s(%s)' % (t[1], ','.join(go(a) for a in t[2:]))
        raise ValueError(k)
    return go(t)


def const_out(v):
    v = W.const(v)
    if isinstance(v, sut.Err):
        return v.t
    return v


def to_dict(spec):
    d = {}
    for cell in spec['cells']:
        b, s, r, c = cell['at']
        if 'f' in cell:
            f = '=' + render(spec, cell['f'], cell['at'], True)
            if 'arr' in cell:
                key = rect_id_raw(spec, (b, s, r, c, cell['arr'][0], cell['arr'][1]))
            else:
                key = qual_full(spec, b, s) + a1(r, c)
            d[key] = f
        else:
            v = const_out(cell['v'])
            if isinstance(v, str) and v.startswith('='):
                v = '="%s"' % v.replace('"', '""')  # text that looks like a formula: the dictionary form spells it as a text formula
            d[qual_full(spec, b, s) + a1(r, c)] = v
    for nm in spec.get('names', []):
        d[nm['name']] = '=' + (spec['names'][nm['alias']]['name'] if 'alias' in nm else rect_id_raw(spec, nm['rect'], ab=True))
    for fn in spec.get('fnames', []):
        if fn.get('raw'):
            d[fn['name']] = fn['f'][1]  # a constant name given as a plain value, not as the formula "=0.25"
        else:
            d[fn['name']] = '=' + render(spec, fn['f'], (fn['book'], -1, 0, 0), True, absolute=True)
    return d


def rect_id_raw(spec, rect, ab=False):
    b, s, r1, c1, r2, c2 = rect
    if (r1, c1) == (r2, c2):
        return qual_full(spec, b, s) + a1(r1, c1, ab)
    return qual_full(spec, b, s) + a1(r1, c1, ab) + ':' + a1(r2, c2, ab)


STALE = 777.0  # cached value found in spill cells of array formulas in real files


def link_plan(spec, b, variant):
    """External links of book b for the numbered-link presentation: every other book, with link targets that are not
    .xlsx books (an old .xls, a .xlsm) placed before / between / after them.  -> (targets in order, {book: index})"""
    others = [ob for ob in range(len(spec['books'])) if ob != b]
    if variant % 2:
        others = others[::-1]
    targets = [book_name(spec, ob) for ob in others]
    decoys = {0: [], 1: [(0, 'legacy.xls')], 2: [(len(targets), 'macro.xlsm')], 3: [(0, 'legacy.xls'), (1, 'notes.docx')]}[(variant // 2) % 4]
    for pos, name in sorted(decoys, reverse=True):
        targets.insert(min(pos, len(targets)), name)
    return targets, {ob: 1 + targets.index(book_name(spec, ob)) for ob in others}


def _bare_ascii(name):
    return re.match(r'^[A-Za-z_][A-Za-z0-9_.]*$', name) is not None and not re.match(r'^[A-Za-z]{1,3}[0-9]+$', name)


def merge_plan(spec):
    """Cells (b, s, r, c) to be merged with their unpopulated right neighbour (r, c+1): pairs that lie inside a rectangle
    some formula reads, the left cell populated and not part of an array formula.  At most two per sheet, never overlapping."""
    pop = W.populated(spec)
    arr = {k for cell in spec['cells'] if 'arr' in cell for k in W.cell_keys(cell)}
    out, per_sheet, used = [], {}, set()
    rects = sorted({x for cell in spec['cells'] if 'f' in cell for kind, x in W.refs_of(cell['f'], spec.get('names', [])) if kind == 'rect'})
    for (b, s_, r1, c1, r2, c2) in rects:
        for r in range(r1, r2 + 1):
            for c in range(c1, c2):
                k, k2 = (b, s_, r, c), (b, s_, r, c + 1)
                if k in pop and k not in arr and k2 not in pop and k not in used and k2 not in used and per_sheet.get((b, s_), 0) < 2:
                    out.append(k)
                    used.update((k, k2))
                    per_sheet[(b, s_)] = per_sheet.get((b, s_), 0) + 1
    return out


def write_files(spec, dirpath, sheet_order=None, links=None, stale=True, merge=False):
    import openpyxl
    from openpyxl.worksheet.formula import ArrayFormula
    from openpyxl.workbook.defined_name import DefinedName
    names = spec.get('names', [])
    paths = []
    for b, bk in enumerate(spec['books']):
        wb = openpyxl.Workbook()
        wb.remove(wb.active)
        order = list(range(len(bk['sheets'])))
        if sheet_order:
            order = sheet_order.get(str(b), order)
        for s in order:
            wb.create_sheet(bk['sheets'][s])
        for cell in spec['cells']:
            cb, cs, r, c = cell['at']
            if cb != b:
                continue
            ws = wb[bk['sheets'][cs]]
            if 'f' in cell:
                full = has_xbook(cell['f'], cell['at'], names)  # finding 31: mixed quoted forms are unsafe
                lidx = None
                if full and links is not None:
                    xs = {(x[0], x[1]) for _, x in W.refs_of(cell['f'], names) if x[0] != b}
                    # the quoted numbered form '[1]My Sheet'!A1 is a listed C04 finding: such cells keep the full form
                    if all(_bare_ascii(sheet_name(spec, xb, xs_)) for xb, xs_ in xs):
                        lidx, used_links = link_plan(spec, b, links)[1], True
                f = '=' + render(spec, cell['f'], cell['at'], full and lidx is None, lidx)
                if 'arr' in cell:
                    r2, c2 = cell['arr']
                    ref = '%s:%s' % (a1(r, c), a1(r2, c2))
                    for i in range(r, r2 + 1):
                        for j in range(c, c2 + 1):
                            if (i, j) != (r, c) and stale:  # stale=False: only the anchor is stored (what openpyxl itself writes)
                                ws.cell(row=i, column=j, value=STALE)
                    ws[a1(r, c)] = ArrayFormula(ref, f)
                else:
                    ws.cell(row=r, column=c, value=f)
            else:
                v = const_out(cell['v'])
                cc = ws.cell(row=r, column=c, value=v)
                if isinstance(cell['v'], str) and cc.data_type != 's':
                    cc.data_type = 's'  # text that looks like a formula / an error stays text
        if merge:
            for (mb, ms, r, c) in merge_plan(spec):
                if mb == b:
                    wb[bk['sheets'][ms]].merge_cells(start_row=r, start_column=c, end_row=r, end_column=c + 1)
        for nm in names:
            nb, ns, r1, c1, r2, c2 = nm['rect']
            if nb != b:
                continue
            sn = bk['sheets'][ns]
            sq = "'%s'" % sn.replace("'", "''") if needs_quote(sn) else sn
            txt = '%s!%s' % (sq, a1(r1, c1, True) if (r1, c1) == (r2, c2) else a1(r1, c1, True) + ':' + a1(r2, c2, True))
            if 'alias' in nm:
                txt = names[nm['alias']]['name']
            wb.defined_names[nm['name']] = DefinedName(nm['name'], attr_text=txt)
        for fn in spec.get('fnames', []):
            if fn['book'] == b:
                wb.defined_names[fn['name']] = DefinedName(fn['name'], attr_text=render(spec, fn['f'], (b, -1, 0, 0), False, absolute=True))
        if links is not None and len(spec['books']) > 1:
            from openpyxl.packaging.relationship import Relationship
            from openpyxl.workbook.external_link.external import ExternalLink, ExternalBook
            for target in link_plan(spec, b, links)[0]:
                el = ExternalLink(externalBook=ExternalBook(id='rId1'))
                el.file_link = Relationship(type='externalLinkPath', Target=target, TargetMode='External')
                wb._external_links.append(el)
        p = os.path.join(dirpath, bk['name'])
        os.makedirs(os.path.dirname(p), exist_ok=True)
        wb.save(p)
        paths.append(p)
    return paths


@contextlib.contextmanager
def workdir():
    root = os.path.join(os.path.dirname(os.path.dirname(os.path.dirname(os.path.abspath(__file__)))), '.work')
    d = os.path.join(root, 'p%d' % os.getpid())
    shutil.rmtree(d, ignore_errors=True)
    os.makedirs(d)
    try:
        yield d
    finally:
        shutil.rmtree(d, ignore_errors=True)


# ---------------------------------------------------------------- solution -> flat map
def flatten(sol, max_rows=60, supplied=(), raw_ok=()):
    """-> (flat, conflicts): flat = {(SHEET_ID, r, c): value} from every
    solution node that is a single-area Ranges; a cell seen through two nodes
    with different values is a conflict."""
    flat, conflicts = {}, []
    for k, v in sol.items():
        if isinstance(k, sut.sh.Token):
            continue
        if not isinstance(v, sut.Ranges):
            # every cell / range / name node of a model holds a Ranges; a raw Python object there is foreign
            # (a node the caller supplied as input may come back as given when it lies outside the requested outputs)
            # (the node of a name defined by a formula holds whatever that formula returned: raw_ok)
            if k not in supplied and str(k).upper().split('!')[-1] not in raw_ok:
                conflicts.append(('raw-node-value', str(k), type(v).__name__))
            continue
        if len(v.ranges) != 1:
            continue
        rg = v.ranges[0]
        r1, r2 = int(rg['r1']) or 1, int(rg['r2'])
        c1, c2 = int(rg['n1']) or 1, int(rg['n2'])
        try:
            val = v.value
        except Exception as ex:  # noqa
            conflicts.append(('value-raises', k, repr(ex)))
            continue
        sid = str(rg.get('sheet_id', '')).upper()
        nr = min(r2, r1 + max_rows - 1) - r1 + 1
        nc = min(c2, c1 + 30) - c1 + 1
        for i in range(min(nr, val.shape[0] if val.ndim == 2 else 1)):
            for j in range(min(nc, val.shape[1] if val.ndim == 2 else 1)):
                x = sut.scalar(val[i][j] if val.ndim == 2 else val.ravel()[0])
                key = (sid, r1 + i, c1 + j)
                if key in flat and not X.same(flat[key], x, 1e-9):
                    # a blank seen through a range and 0/'' through its own node are the same cell state
                    if not (_blankish(flat[key]) and _blankish(x)):
                        conflicts.append(('two-values', '%s!%s' % (sid, a1(r1 + i, c1 + j)), '%r vs %r (node %s)' % (flat[key], x, k)))
                if key not in flat or isinstance(flat[key], sut.Blank):
                    flat[key] = x
    return flat, conflicts


def _blankish(v):
    return isinstance(v, sut.Blank)


def compare(spec, flat, expected, sub='wiring', skip=()):
    """Model values vs reference values for every populated cell.  Returns failures."""
    fails = []
    forms = cell_forms(spec)
    for key, exp in expected.items():
        if isinstance(exp, W.Unsure) or key in skip:
            continue
        sid = sheet_id(spec, key[0], key[1])
        got = flat.get((sid, key[2], key[3]), 'MISSING')
        if isinstance(exp, sut.Blank):
            ok = got == 'MISSING' or isinstance(got, sut.Blank)
        elif got == 'MISSING':
            ok = False
        else:
            ok = X.same(got, exp, 1e-9)
        if not ok:
            form = forms.get(key, 'const')
            gcls = 'missing' if got == 'MISSING' else X.cls(got)
            ecls = X.cls(exp)
            if isinstance(exp, float) and 0 < abs(exp) < 1e-14:
                ecls = 'num-tiny'
            fails.append(('%s|%s|%s->%s' % (sub, form, ecls, gcls),
                          '%s: got %r, expected %r' % (node_id(spec, key), got, exp)))
    return fails


def cell_forms(spec):
    """key -> reference-form class of the cell's formula (first 'interesting' form it uses)."""
    names = spec.get('names', [])
    out = {}
    for cell in spec['cells']:
        if 'f' not in cell:
            for k in W.cell_keys(cell):
                out[k] = 'const'
            continue
        form = tree_form(spec, cell['f'], cell['at'])
        if 'arr' in cell:
            form = 'array-formula'
        for k in W.cell_keys(cell):
            out[k] = form
    return out


def tree_form(spec, t, cur):
    forms = set()

    def go(t):
        k = t[0]
        if k in ('ref', 'rng', 'col'):
            b, s = t[1][0], t[1][1]
            where = 'xbook' if b != cur[0] else 'xsheet' if s != cur[1] else 'same'
            forms.add({'ref': 'cell', 'rng': 'range', 'col': 'wholecol'}[k] + '-' + where)
        elif k == 'name':
            forms.add('name')
        elif k == 'fname':
            forms.add('name')
            go(t[2])
        elif k == 'bin':
            go(t[2]); go(t[3])
        elif k == 'neg':
            go(t[1])
        elif k in ('uni', 'isect'):
            for a in t[1:]:
                go(a)
        elif k == 'anchor':
            b, s = t[1][0], t[1][1]
            forms.add('array-formula')
            forms.add('range-' + ('xbook' if b != cur[0] else 'xsheet' if s != cur[1] else 'same'))
        elif k == 'fn':
            for a in t[2:]:
                go(a)
    go(t)
    for pref in ('wholecol-xbook', 'wholecol-xsheet', 'wholecol-same', 'name', 'range-xbook', 'cell-xbook',
                 'range-xsheet', 'cell-xsheet', 'range-same', 'cell-same'):
        if pref in forms:
            return pref
    return 'literal'


def features_of(spec):
    f = set()
    forms = cell_forms(spec)
    f.update('form:' + v for v in forms.values())
    if len(spec['books']) > 1:
        f.add('multi-book')
    if any(len(b['sheets']) > 1 for b in spec['books']):
        f.add('multi-sheet')
    if spec.get('names'):
        f.add('names')
    if spec.get('fnames'):
        f.add('formula-names')
    if any("'anchor'" in repr(c.get('f')) for c in spec['cells']):
        f.add('spill-anchor')
    for b in spec['books']:
        for s in b['sheets']:
            for cls, lst in dict(SHEET_NAMES, **SHEET_NAMES_EXTRA).items():
                if s in lst:
                    f.add('sheetname:' + cls)
    f.add('levels:%d' % min(depth_levels(spec), 6))
    return sorted(f)


def depth_levels(spec):
    deps = W.depends_on(spec)
    level = {}
    for cell in spec['cells']:
        for k in W.cell_keys(cell):
            level[k] = 1 + max([level.get(d, 0) for d in deps.get(k, ())] or [0])
    return max(level.values()) if level else 0


# ---------------------------------------------------------------- strategy
@st.composite
def specs(draw, tier='quick', max_books=2, arrays=True, names=True, wholecols=True, errors=True,
          min_cells=4, max_cells=14, const=None, sheet_classes=None, name_rate=6, arr_rate=10, alias_rate=0, fname_rate=0, undef_rate=0, anchor_rate=0, book_names=None, fname_names=False):
    nb = draw(st.integers(1, max_books))
    bname = draw(st.sampled_from(book_names)) if book_names else 'b%d.xlsx'
    used_names = set()
    books = []
    for b in range(nb):
        ns = draw(st.integers(1, 2))
        sheets = []
        for _ in range(ns):
            cls = draw(st.sampled_from(sheet_classes or ['plain', 'plain', 'space', 'mixed', 'nonascii']))
            cands = [n for n in dict(SHEET_NAMES, **SHEET_NAMES_EXTRA)[cls] if n.upper() not in {x.upper() for x in sheets}]
            if not cands:  # a one-name class used up by the first sheet
                cands = [n for n in SHEET_NAMES['plain'] if n.upper() not in {x.upper() for x in sheets}]
            sheets.append(draw(st.sampled_from(cands)))
        books.append({'name': bname % b, 'sheets': sheets})
    locs = [(b, s) for b in range(nb) for s in range(len(books[b]['sheets']))]
    ncell = draw(st.integers(min_cells, max_cells))
    taken = set()
    cells = []
    spec = {'books': books, 'cells': cells, 'names': []}
    if fname_rate:
        spec['fnames'] = []
    pos_list = []
    for i in range(ncell):
        b, s = draw(st.sampled_from(locs))
        r = draw(st.integers(1, MAXR))
        c = draw(st.integers(1, MAXC))
        if (b, s, r, c) in taken:
            continue
        arr = None
        if arrays and i >= 2 and draw(st.integers(0, arr_rate - 1)) == 0:
            h, w = draw(st.sampled_from([(1, 2), (2, 1), (2, 2), (3, 1), (1, 3), (2, 3), (3, 2)]))
            keys = {(b, s, r + di, c + dj) for di in range(h) for dj in range(w)}
            if r + h - 1 <= MAXR + 1 and c + w - 1 <= MAXC + 1 and not (keys & taken):
                arr = [r + h - 1, c + w - 1]
                taken |= keys
        taken.add((b, s, r, c))
        pos_list.append(((b, s, r, c), arr))
    # future positions (not yet created when cell i is built) must not fall inside referenced rectangles
    all_keys = []
    for key, arr in pos_list:
        ks = [(key[0], key[1], i, j) for i in range(key[2], (arr or [key[2]])[0] + 1)
              for j in range(key[3], (arr or [0, key[3]])[1] + 1)]
        all_keys.append(ks)
    ncols_used = [0]
    for idx, (key, arr) in enumerate(pos_list):
        earlier = [k for ks in all_keys[:idx] for k in ks]
        later = {k for ks in all_keys[idx:] for k in ks}
        ctx = dict(spec=spec, locs=locs, earlier=earlier, later=later, cur=key, errors=errors,
                   wholecols=wholecols, ncols_used=ncols_used, names_ok=names, undef_rate=undef_rate, anchor_rate=anchor_rate,
                   arr_groups=[all_keys[j] for j in range(idx) if pos_list[j][1] is not None])
        if names and earlier and len(spec['names']) < 2 and draw(st.integers(0, name_rate - 1)) == 0:
            rect = draw(_dense_rect(ctx)) if draw(st.booleans()) else draw(_rect(ctx, small=True))
            if rect is not None:
                spec['names'].append({'name': NAME_POOL[len(spec['names'])], 'rect': list(rect), 'since': idx})
                if alias_rate and len(spec['names']) < 3 and draw(st.integers(0, alias_rate - 1)) == 0:
                    # a second name defined as the first one (ALIAS = BASE): same cells, one more inverse link in the chain
                    j = len(spec['names']) - 1
                    spec['names'].append({'name': NAME_POOL[j + 1], 'rect': list(rect), 'since': idx, 'alias': j})
        if fname_rate and len(spec['fnames']) < 2 and draw(st.integers(0, fname_rate - 1)) == 0:
            # a name defined by a formula over earlier cells of this book (or by a constant)
            mine = [k_ for k_ in earlier if k_[0] == key[0]]
            kind_ = draw(st.integers(0, 5 if fname_names else 3))
            ft = None
            nm_mine = [j for j, nm_ in enumerate(spec['names']) if nm_['rect'][0] == key[0]]
            if kind_ >= 4 and nm_mine:
                # a name defined through another name (TOTAL = SUM(RATES))
                ft = ['fn', 'SUM', ['name', draw(st.sampled_from(nm_mine))]]
            elif kind_ in (0, 4, 5) or not mine:
                ft = ['num', draw(st.sampled_from([0.25, 2.0, -3.0, 10.0]))]
            elif kind_ == 1:
                ft = ['bin', draw(st.sampled_from(['*', '+', '-'])), ['ref', list(draw(st.sampled_from(mine)))], ['num', 2.0]]
            elif kind_ == 2:
                ft = ['bin', '+', ['ref', list(draw(st.sampled_from(mine)))], ['ref', list(draw(st.sampled_from(mine)))]]
            else:
                k0 = draw(st.sampled_from(mine))
                same = [k_ for k_ in mine if k_[:2] == k0[:2] and k_ not in {x for g in ctx['arr_groups'] for x in g}]
                if same:
                    r1_, r2_ = min(k_[2] for k_ in same), max(k_[2] for k_ in same)
                    c1_, c2_ = min(k_[3] for k_ in same), max(k_[3] for k_ in same)
                    if not any(k_[:2] == k0[:2] and r1_ <= k_[2] <= r2_ and c1_ <= k_[3] <= c2_ for k_ in later):
                        ft = ['fn', 'SUM', ['rng', [k0[0], k0[1], r1_, c1_, r2_, c2_]]]
            if ft is not None:
                spec['fnames'].append({'name': FNAME_POOL[len(spec['fnames'])], 'f': ft, 'book': key[0]})
        if arr is not None:
            t = draw(_array_tree(ctx, (arr[0] - key[2] + 1, arr[1] - key[3] + 1)))
            if t is not None:
                cells.append({'at': list(key), 'f': t, 'arr': arr})
                continue
            # no admissible operand rectangle: degrade to constants
            for k in all_keys[idx]:
                cells.append({'at': list(k), 'v': draw(const or _const(errors))})
            continue
        if not earlier or draw(st.integers(0, 99)) < 35:
            cells.append({'at': list(key), 'v': draw(const or _const(errors))})
        else:
            cells.append({'at': list(key), 'f': draw(_tree(ctx, 0))})
    for nm in spec['names']:
        nm.pop('since', None)
    return spec


def _const(errors=True):
    opts = [st.sampled_from(NUM_CONST), st.sampled_from(NUM_CONST), st.sampled_from(TXT_CONST), st.booleans()]
    if errors:
        opts.append(st.sampled_from(ERR_CONST[:4]).map(lambda e: ['E', e]))
    return st.one_of(*opts)


TXT_FORMULA_LIKE = ['=A1*2', '== total ==', '=x', '=SUM(']  # stored text (typed with a leading apostrophe) that looks like a formula


def const_with_formula_like_text():
    return st.one_of(_const(), _const(), _const(), st.sampled_from(TXT_FORMULA_LIKE))


@st.composite
def _rect(draw, ctx, small=False, shape=None):
    """A rectangle on some sheet that contains no cell created later (and not the host cell)."""
    b, s = draw(st.sampled_from(ctx['locs']))
    if shape:
        h, w = shape
        r1 = draw(st.integers(1, max(1, MAXR + 1 - h + 1)))
        c1 = draw(st.integers(1, max(1, MAXC + 1 - w + 1)))
        r2, c2 = r1 + h - 1, c1 + w - 1
    else:
        r1 = draw(st.integers(1, MAXR))
        c1 = draw(st.integers(1, MAXC))
        r2 = draw(st.integers(r1, min(MAXR, r1 + (1 if small else 3))))
        c2 = draw(st.integers(c1, min(MAXC, c1 + (1 if small else 2))))
    inside = {(b, s, r, c) for r in range(r1, r2 + 1) for c in range(c1, c2 + 1)}
    if inside & ctx['later']:
        # shrink to a single earlier cell (construction, not rejection)
        if shape or not ctx['earlier']:
            return None
        k = draw(st.sampled_from(ctx['earlier']))
        return (k[0], k[1], k[2], k[3], k[2], k[3])
    return (b, s, r1, c1, r2, c2)


@st.composite
def _dense_rect(draw, ctx):
    """A rectangle made only of already created cells (so that overriding it as a whole is meaningful)."""
    if not ctx['earlier']:
        return None
    E = set(ctx['earlier'])
    b, s, r, c = draw(st.sampled_from(ctx['earlier']))
    right, below = (b, s, r, c + 1) in E, (b, s, r + 1, c) in E
    if right and below and (b, s, r + 1, c + 1) in E and draw(st.booleans()):
        return (b, s, r, c, r + 1, c + 1)
    if right and (not below or draw(st.booleans())):
        return (b, s, r, c, r, c + 1)
    if below:
        return (b, s, r, c, r + 1, c)
    left, above = (b, s, r, c - 1) in E, (b, s, r - 1, c) in E
    if left:
        return (b, s, r, c - 1, r, c)
    if above:
        return (b, s, r - 1, c, r, c)
    return (b, s, r, c, r, c)


@st.composite
def _scalar_ref(draw, ctx):
    kind = draw(st.integers(0, 9))
    names = ctx['spec']['names']
    if ctx.get('undef_rate') and draw(st.integers(0, ctx['undef_rate'] - 1)) == 0:
        return ['undef', draw(st.sampled_from(['NO_SUCH_NAME', 'undefined.name', 'Missing_1x']))]
    # a defined name is scoped to its workbook: only cells of that book use it
    single = [i for i, nm in enumerate(names) if nm['rect'][2:4] == nm['rect'][4:6] and nm['rect'][0] == ctx['cur'][0]]
    fn_mine = [i for i, fn in enumerate(ctx['spec'].get('fnames', [])) if fn['book'] == ctx['cur'][0]]
    if kind in (0, 2) and fn_mine and draw(st.booleans()):
        i = draw(st.sampled_from(fn_mine))
        return ['fname', i, ctx['spec']['fnames'][i]['f']]
    if kind == 0 and single:
        return ['name', draw(st.sampled_from(single))]
    if kind == 1:
        # unpopulated cell: reads as blank
        b, s = draw(st.sampled_from(ctx['locs']))
        for _ in range(3):
            r, c = draw(st.integers(1, MAXR + 1)), draw(st.integers(1, MAXC + 1))
            if (b, s, r, c) not in ctx['later'] and (b, s, r, c) not in set(ctx['earlier']):
                return ['ref', [b, s, r, c]]
    k = draw(st.sampled_from(ctx['earlier']))
    t = ['ref', list(k)]
    if draw(st.integers(0, 4)) == 0:
        t.append(True)
    return t


@st.composite
def _range_arg(draw, ctx):
    names = ctx['spec']['names']
    kind = draw(st.integers(0, 9))
    mine = [i for i, nm in enumerate(names) if nm['rect'][0] == ctx['cur'][0]]
    if kind == 0 and mine:
        return ['name', draw(st.sampled_from(mine))]
    if kind == 1 and ctx['wholecols'] and ctx['ncols_used'][0] < 2:
        b, s = draw(st.sampled_from(ctx['locs']))
        c1 = draw(st.integers(1, MAXC))
        c2 = draw(st.integers(c1, min(MAXC, c1 + 1)))
        bad = {k for k in ctx['later'] if k[0] == b and k[1] == s and c1 <= k[3] <= c2}
        if not bad:
            ctx['ncols_used'][0] += 1
            return ['col', [b, s, c1, c2]]
    if kind in (4, 5, 6) and ctx.get('arr_groups'):
        # a rectangle that wholly contains an earlier array formula (plus, when free of later cells, one more row)
        g = draw(st.sampled_from(ctx['arr_groups']))
        b, s = g[0][0], g[0][1]
        r1, r2 = min(k[2] for k in g), max(k[2] for k in g)
        c1, c2 = min(k[3] for k in g), max(k[3] for k in g)
        if draw(st.booleans()) and not any((b, s, r2 + 1, c) in ctx['later'] for c in range(c1, c2 + 1)):
            r2 += 1
        t = ['rng', [b, s, r1, c1, r2, c2]]
        return t
    rect = draw(_dense_rect(ctx)) if kind in (2, 3) else draw(_rect(ctx))
    if rect is None:
        return draw(_scalar_ref(ctx))
    t = ['rng', list(rect)]
    if draw(st.integers(0, 5)) == 0:
        t.append(True)
    return t


@st.composite
def _agg_arg(draw, ctx):
    """argument of an aggregate: a range-like operand or, one time in six, a bracketed union of two on one sheet"""
    real = [tuple(c_['at']) for c_ in ctx['spec']['cells'] if 'arr' in c_]  # planned array areas may have degraded to constants
    groups = [g for g in (ctx.get('arr_groups') or []) if (g[0][0], g[0][1], min(k[2] for k in g), min(k[3] for k in g)) in real]
    if ctx.get('anchor_rate') and groups and draw(st.integers(0, ctx['anchor_rate'] - 1)) == 0:
        g = draw(st.sampled_from(groups))
        b, s = g[0][0], g[0][1]
        r1, r2 = min(k[2] for k in g), max(k[2] for k in g)
        c1, c2 = min(k[3] for k in g), max(k[3] for k in g)
        return ['anchor', [b, s, r1, c1], [b, s, r1, c1, r2, c2]]
    a = draw(_range_arg(ctx))
    if a[0] == 'rng' and len(a) == 2 and draw(st.integers(0, 7)) == 0:
        b, s, r1, c1, r2, c2 = a[1]
        if r2 > r1 or c2 > c1:
            # two overlapping parts of the rectangle joined by the intersection operator (a blank)
            if r2 > r1 and (c2 == c1 or draw(st.booleans())):
                i = draw(st.integers(r1, r2))
                j = draw(st.integers(r1, i))
                return ['isect', ['rng', [b, s, r1, c1, i, c2]], ['rng', [b, s, j, c1, r2, c2]]]
            i = draw(st.integers(c1, c2))
            j = draw(st.integers(c1, i))
            return ['isect', ['rng', [b, s, r1, c1, r2, i]], ['rng', [b, s, r1, j, r2, c2]]]
    if draw(st.integers(0, 5)) == 0 and a[0] in ('rng', 'ref'):
        b = draw(_range_arg(ctx))
        if b[0] in ('rng', 'ref') and b[1][:2] == a[1][:2]:
            return ['uni', a, b]
    return a


@st.composite
def _tree(draw, ctx, depth):
    k = draw(st.integers(0, 99))
    if depth >= 3 or k < 30:
        if k % 5 == 0:
            return draw(st.one_of(st.sampled_from(NUM_CONST).map(lambda x: ['num', x]),
                                  st.sampled_from(TXT_CONST).map(lambda x: ['str', x])))
        return draw(_scalar_ref(ctx))
    if k < 50:
        op = draw(st.sampled_from(['+', '-', '*', '/', '+', '-', '*']))
        return ['bin', op, draw(_tree(ctx, depth + 1)), draw(_tree(ctx, depth + 1))]
    if k < 63:
        name = draw(st.sampled_from(['SUM', 'SUM', 'MIN', 'MAX', 'COUNT', 'AVERAGE', 'SUM', 'MIN', 'MAX', 'COUNT', 'AVERAGE', 'LARGE', 'SMALL']))
        if name in ('LARGE', 'SMALL'):
            # k-th value: the position of the arguments matters (a union must stay ONE argument)
            return ['fn', name, draw(_agg_arg(ctx)), ['num', float(draw(st.integers(1, 4)))]]
        n = draw(st.integers(1, 2))
        return ['fn', name] + [draw(_agg_arg(ctx)) for _ in range(n)]
    if k < 73:
        cond = draw(_cond(ctx, depth + 1))
        return ['fn', 'IF', cond, draw(_tree(ctx, depth + 1)), draw(_tree(ctx, depth + 1))]
    if k < 79:
        return ['fn', 'IFERROR', draw(_tree(ctx, depth + 1)), draw(_tree(ctx, depth + 1))]
    if k < 84:
        return draw(_cond(ctx, depth + 1))
    if k < 90:
        # & always has a literal operand containing a letter (no numeric text can arise)
        lit = ['str', draw(st.sampled_from(TXT_CONST))]
        other = draw(_tree(ctx, depth + 1))
        return ['bin', '&', lit, other] if draw(st.booleans()) else ['bin', '&', other, lit]
    if k < 94:
        inner = ['bin', '&', ['str', draw(st.sampled_from(TXT_CONST))], draw(_scalar_ref(ctx))]
        name = draw(st.sampled_from(['LEN', 'UPPER', 'LEFT']))
        if name == 'LEFT':
            return ['fn', 'LEFT', inner, ['num', float(draw(st.integers(0, 4)))]]
        return ['fn', name, inner]
    if k < 96:
        return ['neg', draw(_tree(ctx, depth + 1))]
    if k < 98:
        a = draw(_range_arg(ctx))
        if a[0] in ('rng', 'name'):
            rect = a[1] if a[0] == 'rng' else ctx['spec']['names'][a[1]]['rect']
            h, w = rect[4] - rect[2] + 1, rect[5] - rect[3] + 1
            return ['fn', 'INDEX', a, ['num', float(draw(st.integers(1, h)))], ['num', float(draw(st.integers(1, w)))]]
        return a if a[0] == 'ref' else ['fn', 'SUM', a]
    return ['bin', '^', draw(_scalar_ref(ctx)), ['num', float(draw(st.integers(1, 3)))]]


@st.composite
def _cond(draw, ctx, depth):
    k = draw(st.integers(0, 9))
    if k < 6 or depth >= 3:
        op = draw(st.sampled_from(['=', '<>', '<', '>', '<=', '>=']))
        return ['bin', op, draw(_tree(ctx, depth + 1)), draw(_tree(ctx, depth + 1))]
    if k < 8:
        return ['fn', draw(st.sampled_from(['ISERROR', 'ISNA'])), draw(_tree(ctx, depth + 1))]
    return ['fn', draw(st.sampled_from(['AND', 'OR'])), draw(_cond(ctx, 3)), draw(_cond(ctx, 3))]


@st.composite
def _array_tree(draw, ctx, shape):
    a = draw(_rect(ctx, shape=shape))
    if a is None:
        return None
    k = draw(st.integers(0, 4))
    if k == 0:
        return ['rng', list(a)]
    if k == 1:
        b = draw(_rect(ctx, shape=shape))
        if b is not None:
            return ['bin', draw(st.sampled_from(['+', '-', '*'])), ['rng', list(a)], ['rng', list(b)]]
    if k == 2:
        return ['bin', draw(st.sampled_from(['+', '*', '-'])), ['rng', list(a)], draw(_scalar_ref(ctx))]
    if k == 3:
        return ['fn', 'IF', ['bin', '>', ['rng', list(a)], ['num', float(draw(st.integers(0, 3)))]], ['rng', list(a)], ['num', 0.0]]
    return ['bin', '*', ['rng', list(a)], ['num', float(draw(st.sampled_from([2, -1, 0.5])))]]
