"""Harness clock for C13: a stand-in for the `datetime` *module* as seen by
formulas.functions.date.  It is a real, importable module (dill pickles some
functions of date.py by value together with their globals, which then refer to
this module by name).

Everything of the real module is re-exported; only `datetime.now()` differs:
while a harness instant is set it returns that instant, otherwise the real
clock.  The repo uses `datetime.datetime(...)` as constructor, `.now()`,
`datetime.timedelta` and subtraction from a real datetime -- a subclass is
transparent for all of these."""
import datetime as _real

date = _real.date
time = _real.time
timedelta = _real.timedelta
timezone = _real.timezone
tzinfo = _real.tzinfo
MINYEAR = _real.MINYEAR
MAXYEAR = _real.MAXYEAR
UTC = getattr(_real, 'UTC', _real.timezone.utc)

_STATE = {'now': None, 'reads': 0, 'tick': 0.0}


class datetime(_real.datetime):
    @classmethod
    def now(cls, tz=None):
        t = _STATE['now']
        if t is None:
            return _real.datetime.now(tz)
        _STATE['reads'] += 1
        if _STATE['tick']:
            # a clock that keeps running: every look at it is a little later than the one before
            _STATE['now'] = t + _real.timedelta(seconds=_STATE['tick'])
        return cls(t.year, t.month, t.day, t.hour, t.minute, t.second, t.microsecond)

    @classmethod
    def today(cls):
        return cls.now()

    @classmethod
    def utcnow(cls):
        return cls.now()


def set_now(t):
    """t: a real datetime.datetime (naive) or None to fall back to the real clock."""
    _STATE['now'] = t


def set_tick(seconds):
    _STATE['tick'] = float(seconds)


def get_now():
    return _STATE['now']


def reads():
    return _STATE['reads']


class installed:
    """Context manager: `with installed(sut_date_module):` replaces the module
    global `datetime` of formulas.functions.date by this module and restores the
    original (and the real clock) afterwards."""

    def __init__(self, target_module):
        self.target = target_module
        self.orig = None

    def __enter__(self):
        import sys
        self.orig = self.target.datetime
        self.target.datetime = sys.modules[__name__]
        return self

    def __exit__(self, *exc):
        self.target.datetime = self.orig
        set_now(None)
        set_tick(0)
        return False
