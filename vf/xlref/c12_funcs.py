"""C12 - reference implementations of the core worksheet functions.

One reference per function, written from Excel's documented behaviour (en-US),
never from the code under test.  Every reference returns ``(value, rule_tag)``;
``value`` may be a tuple (several admissible answers).  A reference raises
``Outside(reason)`` when the arguments are outside the domain on which the
rule is asserted: the caller then checks only the weak form (a value of the
Excel value domain comes back, no exception).

Arguments are ``Arg`` objects:
    t = 'lit'   typed directly in the formula text (a scalar literal)
    t = 'ref'   a reference (range input supplied to Cell); rows of cell values,
                BLANK for an empty cell
    t = 'arr'   an array constant {..}
    t = 'omit'  an empty argument slot (=IF(TRUE,,1))
"""
import re
import math
from decimal import Decimal, ROUND_HALF_UP, ROUND_DOWN, ROUND_UP, localcontext
from fractions import Fraction

from ..sut import Err, BLANK, Blank
from . import core as X
from .core import VALUE, NUM, DIV0, NA


class Outside(Exception):
    """Arguments outside the asserted domain of the reference."""


class Arg:
    __slots__ = ('t', 'rows')

    def __init__(self, t, rows=None):
        self.t = t
        self.rows = rows if rows is not None else [[None]]

    @property
    def direct(self):
        return self.t == 'lit'

    def cells(self):
        return [v for row in self.rows for v in row]

    def shape(self):
        return len(self.rows), len(self.rows[0])

    def __repr__(self):
        return '%s%r' % (self.t, self.rows)


def sc(a):
    """The single value of a scalar argument."""
    if a.t == 'omit':
        raise Outside('omitted-argument')
    if len(a.rows) != 1 or len(a.rows[0]) != 1:
        raise Outside('non-scalar-argument')
    return a.rows[0][0]


def deref(v):
    """A formula that returns a blank reference shows 0."""
    if isinstance(v, Blank):
        return (0.0, BLANK)
    return v


def errs_value(errs):
    """Several error sources: Excel reports the first one met; which one is met
    first depends on evaluation order, so any of them is accepted."""
    u = []
    for e in errs:
        if e not in u:
            u.append(e)
    return u[0] if len(u) == 1 else tuple(u)


def nums(vals):
    """Scalar arithmetic coercion of several arguments with left-most error
    precedence.  -> (list of floats | Err | tuple of Err, tag)"""
    first_err = first_bad = None
    tag = 'number'
    out = []
    for i, v in enumerate(vals):
        if isinstance(v, Err):
            if first_err is None:
                first_err = (i, v)
            out.append(None)
            continue
        x, t = X.to_number(v)
        if isinstance(x, Err):
            if first_bad is None:
                first_bad = (i, x, t)
        elif t != 'number' and tag == 'number':
            tag = t
        out.append(x)
    if first_err and first_bad:
        if first_err[0] < first_bad[0]:
            return first_err[1], 'error:left-most'
        return (first_bad[1], first_err[1]), 'error:mixed'
    if first_err:
        return first_err[1], 'error:propagate'
    if first_bad:
        return first_bad[1], first_bad[2]
    return out, tag


def fin(x, tag):
    if isinstance(x, complex) or x != x or x in (float('inf'), float('-inf')):
        return NUM, 'num:overflow'
    return float(x), tag


# ---------------------------------------------------------------------------
# element-wise mathematics
# ---------------------------------------------------------------------------
def _dec(x):
    return Decimal(repr(x))


def _sig_digits(x):
    return len(_dec(x).as_tuple().digits) if x else 1


def _bin_exact(x):
    """The float is exactly its shortest decimal representation (dyadic)."""
    return Fraction(x) == Fraction(_dec(x))


_RMODE = {'ROUND': ROUND_HALF_UP, 'ROUNDUP': ROUND_UP, 'ROUNDDOWN': ROUND_DOWN, 'TRUNC': ROUND_DOWN}


def round_family(name, x, d):
    """Decimal rounding on the shortest decimal representation of x (numbers
    with an exact decimal form of <= 15 significant digits)."""
    if abs(d) > 30:
        raise Outside('round:digits>30')
    dd = int(d)  # digits argument is truncated
    if d != dd:
        if d < 0:
            raise Outside('round:fractional-negative-digits')
    if x == 0:
        return 0.0, 'round:zero'
    if _sig_digits(x) > 15:
        raise Outside('round:>15-significant-digits')
    if abs(x) >= 1e22 or abs(x) < 1e-30:
        raise Outside('round:magnitude')
    D = _dec(x)
    with localcontext() as ctx:
        ctx.prec = 200
        res = D.quantize(Decimal(1).scaleb(-dd), rounding=_RMODE[name])
        sc_ = abs(D.scaleb(dd))
        frac = sc_ - sc_.to_integral_value(rounding=ROUND_DOWN)
    if frac == 0:
        k = 'exact'
    elif frac == Decimal('0.5'):
        k = 'half'
    elif frac < Decimal('0.5'):
        k = 'below-half'
    else:
        k = 'above-half'
    tag = 'round:%s-%s%s' % (k, 'bin' if _bin_exact(x) else 'dec', '' if d == dd else '-fracdigits')
    return float(res), tag


def _quot_exact(x, s):
    return Fraction(_dec(x)) / Fraction(_dec(s))


def ceiling_floor(name, x, s):
    up = name == 'CEILING'
    if s == 0:
        if up:
            return 0.0, 'ceil:zero-significance'
        if x == 0:
            raise Outside('floor:0,0')
        return DIV0, 'floor:zero-significance'
    if x == 0:
        return 0.0, 'ceil:zero-number'
    if x > 0 and s < 0:
        return NUM, 'ceil:pos-number-neg-significance'
    if _sig_digits(x) > 15 or _sig_digits(s) > 15:
        raise Outside('ceil:>15-significant-digits')
    q = _quot_exact(x, s)
    if abs(q) > 2 ** 40:
        raise Outside('ceil:huge-quotient')
    binx = _bin_exact(x) and _bin_exact(s)
    if q.denominator == 1 and not binx:
        # an exact decimal multiple whose binary quotient is not exact: Excel's
        # own result depends on its internal fuzz -- not asserted
        raise Outside('ceil:decimal-multiple')
    n = math.ceil(q) if up else math.floor(q)
    res = Fraction(n) * Fraction(_dec(s))
    sign = ('neg' if x < 0 else 'pos') + '-' + ('neg' if s < 0 else 'pos')
    tag = 'ceil:%s%s' % (sign, '-multiple' if q.denominator == 1 else '')
    return float(res), tag


def even_odd(name, x):
    if abs(x) > 2 ** 50:
        raise Outside('even:huge')
    a = math.ceil(abs(x))
    if name == 'EVEN':
        if a % 2:
            a += 1
    else:
        if a % 2 == 0:
            a += 1
    tag = 'even:' + ('zero' if x == 0 else 'integer' if x == int(x) else 'fraction') + ('-neg' if x < 0 else '')
    return float(-a if x < 0 else a), tag


def mod(n, d):
    if d == 0:
        return DIV0, 'mod:zero-divisor'
    if _sig_digits(n) > 15 or _sig_digits(d) > 15:
        raise Outside('mod:>15-significant-digits')
    q = _quot_exact(n, d)
    if abs(q) >= 2 ** 27:
        raise Outside('mod:huge-quotient')
    r = Fraction(_dec(n)) - Fraction(_dec(d)) * math.floor(q)
    sign = ('neg' if n < 0 else 'pos') + '-' + ('neg' if d < 0 else 'pos')
    if r == 0 and not (_bin_exact(n) and _bin_exact(d)):
        # decimal multiple computed in binary: 0 or (almost) the divisor
        return (0.0, float(d)), 'mod:decimal-multiple'
    return float(r), 'mod:' + sign + ('-multiple' if r == 0 else '')


def _m(f, dom=None, tag=None):
    def g(x):
        if dom is not None and not dom(x):
            return NUM, (tag or f.__name__) + ':domain'
        try:
            return fin(f(x), (tag or f.__name__))
        except OverflowError:
            return NUM, 'num:overflow'
        except ValueError:
            return NUM, (tag or f.__name__) + ':domain'
    return g


def _trig_dom(x):
    return abs(x) < 1e6


def _trig(f, name):
    def g(x):
        if abs(x) >= 1e6:
            raise Outside('trig:large-argument')
        return fin(f(x), name)
    return g


def _recip(f, name, zero_at=None):
    def g(x):
        if abs(x) >= 1e6:
            raise Outside('trig:large-argument')
        try:
            v = f(x)
        except OverflowError:
            return 0.0, name + ':underflow'
        if v == 0:
            return DIV0, name + ':pole'
        if abs(v) < 1e-9:
            raise Outside(name + ':near-pole')
        return fin(1.0 / v, name)
    return g


def _log(x, base=10.0):
    if x <= 0:
        return NUM, 'log:nonpositive-number'
    if base <= 0:
        return NUM, 'log:nonpositive-base'
    if base == 1:
        return DIV0, 'log:base-1'
    return fin(math.log(x) / math.log(base), 'log')


def _power(x, y):
    v, t = X.power(x, y)
    return v, t


def _atan2(x, y):
    if x == 0 and y == 0:
        return DIV0, 'atan2:origin'
    return fin(math.atan2(y, x), 'atan2')


def _sqrt(x):
    if x < 0:
        return NUM, 'sqrt:negative'
    return math.sqrt(x), 'sqrt'


def _exp(x):
    try:
        return fin(math.exp(x), 'exp')
    except OverflowError:
        return NUM, 'num:overflow'


def _sign(x):
    return float((x > 0) - (x < 0)), 'sign'


def _int(x):
    if abs(x) >= 2.0 ** 63:
        return x, 'int-huge'
    return float(math.floor(x)), 'int' + ('-neg-fraction' if x < 0 and x != int(x) else '')


def _hyp(f, name):
    def g(x):
        try:
            return fin(f(x), name)
        except OverflowError:
            return NUM, 'num:overflow'
    return g


# name -> (min arity, max arity, implementation over floats)
MATH = {
    'ABS': (1, 1, lambda x: (abs(x), 'abs')),
    'INT': (1, 1, _int),
    'SIGN': (1, 1, _sign),
    'SQRT': (1, 1, _sqrt),
    'EXP': (1, 1, _exp),
    'LN': (1, 1, lambda x: (NUM, 'ln:nonpositive') if x <= 0 else (math.log(x), 'ln')),
    'LOG10': (1, 1, lambda x: (NUM, 'log10:nonpositive') if x <= 0 else (math.log10(x), 'log10')),
    'LOG': (1, 2, _log),
    'POWER': (2, 2, _power),
    'MOD': (2, 2, mod),
    'ROUND': (2, 2, lambda x, d: round_family('ROUND', x, d)),
    'ROUNDUP': (2, 2, lambda x, d: round_family('ROUNDUP', x, d)),
    'ROUNDDOWN': (2, 2, lambda x, d: round_family('ROUNDDOWN', x, d)),
    'TRUNC': (1, 2, lambda x, d=0.0: round_family('TRUNC', x, d)),
    'CEILING': (2, 2, lambda x, s: ceiling_floor('CEILING', x, s)),
    'FLOOR': (2, 2, lambda x, s: ceiling_floor('FLOOR', x, s)),
    'EVEN': (1, 1, lambda x: even_odd('EVEN', x)),
    'ODD': (1, 1, lambda x: even_odd('ODD', x)),
    'SIN': (1, 1, _trig(math.sin, 'sin')),
    'COS': (1, 1, _trig(math.cos, 'cos')),
    'TAN': (1, 1, _trig(math.tan, 'tan')),
    'ASIN': (1, 1, _m(math.asin, lambda x: -1 <= x <= 1, 'asin')),
    'ACOS': (1, 1, _m(math.acos, lambda x: -1 <= x <= 1, 'acos')),
    'ATAN': (1, 1, _m(math.atan, None, 'atan')),
    'ATAN2': (2, 2, _atan2),
    'SINH': (1, 1, _hyp(math.sinh, 'sinh')),
    'COSH': (1, 1, _hyp(math.cosh, 'cosh')),
    'TANH': (1, 1, _hyp(math.tanh, 'tanh')),
    'ASINH': (1, 1, _m(math.asinh, None, 'asinh')),
    'ACOSH': (1, 1, _m(math.acosh, lambda x: x >= 1, 'acosh')),
    'ATANH': (1, 1, _m(math.atanh, lambda x: -1 < x < 1, 'atanh')),
    'COT': (1, 1, _recip(math.tan, 'cot')),
    'SEC': (1, 1, _recip(math.cos, 'sec')),
    'CSC': (1, 1, _recip(math.sin, 'csc')),
    'DEGREES': (1, 1, lambda x: fin(math.degrees(x), 'degrees')),
    'RADIANS': (1, 1, lambda x: fin(math.radians(x), 'radians')),
}
# relative tolerance per function (default 1e-12)
TOL = {'ROUND': 1e-15, 'ROUNDUP': 1e-15, 'ROUNDDOWN': 1e-15, 'TRUNC': 1e-15,
       'SIN': 1e-9, 'COS': 1e-9, 'TAN': 1e-9, 'COT': 1e-9, 'SEC': 1e-9, 'CSC': 1e-9,
       'STDEV': 1e-9, 'STDEVP': 1e-9, 'STDEV.S': 1e-9, 'STDEV.P': 1e-9, 'VAR': 1e-9, 'VARP': 1e-9,
       'VAR.S': 1e-9, 'VAR.P': 1e-9, 'STDEVA': 1e-9, 'STDEVPA': 1e-9, 'VARA': 1e-9, 'VARPA': 1e-9,
       'EXP': 1e-11, 'LOG': 1e-11, 'POWER': 1e-11}


def math_ref(name, args):
    lo, hi, impl = MATH[name]
    if not lo <= len(args) <= hi:
        raise Outside('arity')
    vals = [sc(a) for a in args]
    xs, tag = nums(vals)
    if not isinstance(xs, list):
        return xs, tag
    v, t = impl(*xs)
    if tag != 'number':
        t = tag + '>' + t
    return v, t


def pi_ref(args):
    if args:
        raise Outside('arity')
    return math.pi, 'pi'


# ---------------------------------------------------------------------------
# logical
# ---------------------------------------------------------------------------
def to_logical(v, direct):
    """-> (bool | Err, tag)"""
    if isinstance(v, Err):
        return v, 'error:propagate'
    if isinstance(v, bool):
        return v, 'logical'
    if isinstance(v, float):
        return v != 0, 'logical:number'
    if isinstance(v, Blank):
        return False, 'logical:blank'
    if isinstance(v, str):
        if not direct:
            raise Outside('logical:text-through-reference')
        if v.upper() in ('TRUE', 'FALSE'):
            return v.upper() == 'TRUE', 'logical:text-boolean'
        if X.is_numtext(v) or X._pytrap(v):
            raise Outside('logical:numeric-text')
        return VALUE, 'logical:text-nonboolean'
    raise TypeError(repr(v))


def _branch(a):
    if a.t == 'omit':
        return 0.0
    return deref(sc(a))


def if_ref(args):
    if not 2 <= len(args) <= 3:
        raise Outside('arity')
    if args[0].t == 'omit':
        raise Outside('omitted-condition')
    c, tag = to_logical(sc(args[0]), args[0].direct)
    if isinstance(c, Err):
        return c, 'if:' + tag
    if c:
        return _branch(args[1]), 'if:' + tag + ('>omitted' if args[1].t == 'omit' else '>then')
    if len(args) == 2:
        return False, 'if:' + tag + '>no-else'
    return _branch(args[2]), 'if:' + tag + ('>omitted' if args[2].t == 'omit' else '>else')


def ifs_ref(args):
    if len(args) < 2 or len(args) % 2:
        raise Outside('arity')
    for i in range(0, len(args), 2):
        v = sc(args[i])
        if isinstance(v, str) and not isinstance(v, Err) and args[i].direct and v.upper() in ('TRUE', 'FALSE'):
            raise Outside('ifs:text-boolean')
        c, tag = to_logical(v, args[i].direct)
        if isinstance(c, Err):
            return c, 'ifs:' + tag
        if c:
            return deref(sc(args[i + 1])), 'ifs:' + tag + '>pair%d' % (i // 2 + 1 if i < 4 else 3)
    return NA, 'ifs:no-match'


def switch_ref(args):
    if len(args) < 3:
        raise Outside('arity')
    e = sc(args[0])
    if isinstance(e, Err):
        return e, 'switch:error-expression'
    if isinstance(e, Blank):
        raise Outside('switch:blank-expression')
    rest = args[1:]
    default = None
    if len(rest) % 2:
        default = rest[-1]
        rest = rest[:-1]
    for i in range(0, len(rest), 2):
        k = sc(rest[i])
        if isinstance(k, (Err, Blank)):
            raise Outside('switch:error-or-blank-value')
        if isinstance(k, bool) != isinstance(e, bool) and not isinstance(k, str) and not isinstance(e, str):
            if float(k) == float(e):
                raise Outside('switch:logical-vs-number')
        c, tag = X.compare(e, k)
        if c == 0 and isinstance(e, str) and e != k:
            # very probably a match in Excel (text comparison ignores case) but
            # not documented for SWITCH: not asserted
            raise Outside('switch:text-differs-in-case-only')
        if c == 0:
            return deref(sc(rest[i + 1])), 'switch:match-' + tag.replace('cmp:', '')
    if default is not None:
        return deref(sc(default)), 'switch:default'
    return NA, 'switch:no-match'


def andor_ref(name, args):
    if not args:
        raise Outside('arity')
    vals, errs, tags = [], [], set()
    for a in args:
        if a.t == 'omit':
            raise Outside('omitted-argument')
        if a.direct:
            c, t = to_logical(sc(a), True)
            if isinstance(c, Err):
                errs.append(c)
                tags.add('direct-error' if t == 'error:propagate' else 'direct-text-nonboolean')
            else:
                vals.append(c)
                tags.add({'logical': 'logical', 'logical:number': 'number',
                          'logical:text-boolean': 'direct-text-boolean'}[t])
        else:
            for v in a.cells():
                if isinstance(v, Err):
                    errs.append(v)
                    tags.add('ref-error')
                elif isinstance(v, bool):
                    vals.append(v)
                    tags.add('logical')
                elif isinstance(v, float):
                    vals.append(v != 0)
                    tags.add('number')
                elif isinstance(v, Blank):
                    tags.add('ref-blank-skipped')
                else:
                    if X.is_numtext(v):
                        raise Outside('numeric-text-in-range')
                    tags.add('ref-text-skipped')
    order = ['direct-text-nonboolean', 'direct-error', 'ref-error', 'direct-text-boolean',
             'ref-text-skipped', 'ref-blank-skipped', 'number', 'logical']
    tag = 'logic:' + min(tags, key=order.index)
    if errs:
        return errs_value(errs), tag
    if not vals:
        return VALUE, 'logic:no-logical-values'
    if name == 'AND':
        return all(vals), tag
    if name == 'OR':
        return any(vals), tag
    return bool(sum(vals) % 2), tag


def not_ref(args):
    if len(args) != 1:
        raise Outside('arity')
    c, tag = to_logical(sc(args[0]), args[0].direct)
    if isinstance(c, Err):
        return c, 'not:' + tag
    return (not c), 'not:' + tag


def iferror_ref(name, args):
    if len(args) != 2:
        raise Outside('arity')
    v = sc(args[0])
    hit = isinstance(v, Err) and (name == 'IFERROR' or v == NA)
    if hit:
        return deref(sc(args[1])), name.lower() + ':replaced'
    return deref(v), name.lower() + (':other-error' if isinstance(v, Err) else ':kept')


# ---------------------------------------------------------------------------
# information
# ---------------------------------------------------------------------------
def _istext(v):
    return isinstance(v, str) and not isinstance(v, Err)


IS = {
    'ISBLANK': lambda v: isinstance(v, Blank),
    'ISERR': lambda v: isinstance(v, Err) and v != NA,
    'ISERROR': lambda v: isinstance(v, Err),
    'ISNA': lambda v: isinstance(v, Err) and v == NA,
    'ISLOGICAL': lambda v: isinstance(v, bool),
    'ISNUMBER': lambda v: isinstance(v, float) and not isinstance(v, bool),
    'ISTEXT': lambda v: isinstance(v, str),
    'ISNONTEXT': lambda v: not isinstance(v, str),
}


def is_ref(name, args):
    if len(args) != 1:
        raise Outside('arity')
    v = sc(args[0])
    k = X.kind(v).split(':')[0]
    if k == 'text' and X._pytrap(v):
        k = 'text-python-float-trap'
    return bool(IS[name](v)), 'is:' + k


def iseven_ref(name, args):
    if len(args) != 1:
        raise Outside('arity')
    v = sc(args[0])
    if isinstance(v, Err):
        return v, 'iseven:error'
    if isinstance(v, bool):
        return VALUE, 'iseven:logical'
    x, t = X.to_number(v)
    if isinstance(x, Err):
        return x, 'iseven:' + t
    if abs(x) >= 2 ** 53:
        raise Outside('iseven:huge')
    n = int(x)  # truncated
    odd = n % 2 == 1
    tag = 'iseven:' + ('number' if t == 'number' else t) + ('-fraction' if x != n else '')
    return (odd if name == 'ISODD' else not odd), tag


# ---------------------------------------------------------------------------
# aggregation
# ---------------------------------------------------------------------------
_AGG_ORDER = ['direct-text-python-float-trap', 'direct-text-nonnumeric', 'direct-error', 'ref-error',
              'direct-numtext', 'direct-logical', 'ref-logical', 'ref-text', 'ref-blank', 'numbers']


def collect(args, a_variant=False):
    """Numbers an Excel aggregation sees.  -> (numbers, errors, tag-set)"""
    out, errs, tags = [], [], set()
    for a in args:
        if a.t == 'omit':
            raise Outside('omitted-argument')
        if a.direct:
            v = sc(a)
            if isinstance(v, Err):
                errs.append(v)
                tags.add('direct-error')
            elif isinstance(v, bool):
                out.append(1.0 if v else 0.0)
                tags.add('direct-logical')
            elif isinstance(v, float):
                out.append(v)
                tags.add('numbers')
            else:
                x, t = X.to_number(v)
                if isinstance(x, Err):
                    errs.append(VALUE)
                    tags.add('direct-text-python-float-trap' if t.endswith('trap') else 'direct-text-nonnumeric')
                else:
                    out.append(x)
                    tags.add('direct-numtext')
        else:
            for v in a.cells():
                if isinstance(v, Err):
                    errs.append(v)
                    tags.add('ref-error')
                elif isinstance(v, bool):
                    tags.add('ref-logical')
                    if not v:
                        tags.add('+ref-false')
                    if a_variant:
                        out.append(1.0 if v else 0.0)
                elif isinstance(v, float):
                    out.append(v)
                    tags.add('numbers')
                elif isinstance(v, Blank):
                    tags.add('ref-blank')
                else:
                    if X.is_numtext(v) or X._pytrap(v):
                        raise Outside('numeric-text-in-range')
                    tags.add('ref-text')
                    if a_variant:
                        out.append(0.0)
    return out, errs, tags


def _var(xs, ddof):
    n = len(xs)
    if n - ddof <= 0:
        return DIV0
    fx = [Fraction(x) for x in xs]
    m = sum(fx) / n
    return float(sum((x - m) ** 2 for x in fx) / (n - ddof))


def _median(xs):
    s = sorted(xs)
    n = len(s)
    return s[n // 2] if n % 2 else (s[n // 2 - 1] + s[n // 2]) / 2.0


def _safe(f):
    try:
        v = f()
    except OverflowError:
        return NUM
    if isinstance(v, Err):
        return v
    return fin(v, '')[0]


AGG = {
    'SUM': lambda xs: _safe(lambda: float(sum(Fraction(x) for x in xs))),
    'PRODUCT': lambda xs: _safe(lambda: math.prod(xs)) if xs else 0.0,
    'SUMSQ': lambda xs: _safe(lambda: float(sum(Fraction(x) ** 2 for x in xs))),
    'AVERAGE': lambda xs: _safe(lambda: float(sum(Fraction(x) for x in xs) / len(xs))) if xs else DIV0,
    'MIN': lambda xs: min(xs) if xs else 0.0,
    'MAX': lambda xs: max(xs) if xs else 0.0,
    'MEDIAN': lambda xs: _median(xs) if xs else NUM,
    'VAR.S': lambda xs: _safe(lambda: _var(xs, 1)),
    'VAR.P': lambda xs: _safe(lambda: _var(xs, 0)),
    'STDEV.S': lambda xs: _safe(lambda: (lambda v: v if isinstance(v, Err) else math.sqrt(v))(_var(xs, 1))),
    'STDEV.P': lambda xs: _safe(lambda: (lambda v: v if isinstance(v, Err) else math.sqrt(v))(_var(xs, 0))),
}
for _a, _b in (('VAR', 'VAR.S'), ('VARP', 'VAR.P'), ('STDEV', 'STDEV.S'), ('STDEVP', 'STDEV.P'),
               ('VARA', 'VAR.S'), ('VARPA', 'VAR.P'), ('STDEVA', 'STDEV.S'), ('STDEVPA', 'STDEV.P')):
    AGG[_a] = AGG[_b]
A_VARIANTS = ('VARA', 'VARPA', 'STDEVA', 'STDEVPA')


def agg_ref(name, args):
    if not args:
        raise Outside('arity')
    if name in A_VARIANTS and any(a.direct and isinstance(sc(a), str) and not isinstance(sc(a), Err) for a in args):
        raise Outside('a-variant:direct-text')
    xs, errs, tags = collect(args, name in A_VARIANTS)
    sfx = '+ref-false' if '+ref-false' in tags and name == 'PRODUCT' else ''  # FALSE in a range: finding F-C12-16
    tags.discard('+ref-false')
    tag = 'agg:' + min(tags, key=_AGG_ORDER.index) if tags else 'agg:numbers'
    if errs:
        return errs_value(errs), tag + sfx
    if name == 'PRODUCT' and xs:
        up = 1.0
        for x in xs:
            if abs(x) > 1:
                up *= abs(x)
        exact = Fraction(1)
        for x in xs:
            exact *= Fraction(x)
        if up > 1.7e308 and abs(exact) < Fraction(17, 10) * 10 ** 308:
            raise Outside('product:intermediate-overflow')
    if not xs:
        tag += '>empty'
    big = max((abs(x) for x in xs), default=0.0)
    if big > 1e150:
        tag = 'agg:huge'
    v = AGG[name](xs)
    if v == NUM and xs and big > 1e150:
        tag = 'agg:overflow'
    return v, tag + sfx


def agg_scale(name, args):
    """Absolute tolerance scale: cancellation in sums/variances is judged
    against the magnitude of the terms, not of the result."""
    try:
        xs, errs, _ = collect(args, name in A_VARIANTS)
    except Outside:
        return 0.0
    big = max((abs(x) for x in xs), default=0.0)
    if name in ('SUM', 'AVERAGE', 'MEDIAN', 'MIN', 'MAX', 'STDEV', 'STDEVP', 'STDEV.S', 'STDEV.P', 'STDEVA', 'STDEVPA'):
        return big
    if name == 'PRODUCT':
        return 0.0
    return big * big if big < 1e150 else 0.0


def count_ref(name, args):
    if not args:
        raise Outside('arity')
    n, tags = 0, set()
    for a in args:
        if a.t == 'omit':
            raise Outside('omitted-argument')
        if a.direct:
            v = sc(a)
            if name == 'COUNTA':
                n += 1
                if isinstance(v, Err):
                    tags.add('direct-error')
                elif isinstance(v, bool):
                    tags.add('direct-logical')
                elif isinstance(v, float):
                    tags.add('numbers')
                elif X.is_numtext(v):
                    tags.add('direct-numtext')
                elif X._pytrap(v):
                    tags.add('direct-text-python-float-trap')
                else:
                    tags.add('direct-text-nonnumeric')
                continue
            if isinstance(v, Err):
                tags.add('direct-error')
            elif isinstance(v, bool):
                n += 1
                tags.add('direct-logical')
            elif isinstance(v, float):
                n += 1
                tags.add('numbers')
            elif X.is_numtext(v):
                n += 1
                tags.add('direct-numtext')
            elif X._pytrap(v):
                tags.add('direct-text-python-float-trap')
            else:
                tags.add('direct-text-nonnumeric')
        else:
            for v in a.cells():
                if isinstance(v, Blank):
                    tags.add('ref-blank')
                    continue
                if name == 'COUNTA':
                    n += 1
                    tags.add('ref-error' if isinstance(v, Err) else 'ref-text' if isinstance(v, str) else 'numbers')
                    continue
                if isinstance(v, Err):
                    tags.add('ref-error')
                elif isinstance(v, bool):
                    tags.add('ref-logical')
                elif isinstance(v, float):
                    n += 1
                    tags.add('numbers')
                else:
                    if X.is_numtext(v) or X._pytrap(v):
                        raise Outside('numeric-text-in-range')
                    tags.add('ref-text')
    return float(n), 'count:' + min(tags, key=_AGG_ORDER.index)


def countblank_ref(args):
    if len(args) != 1 or args[0].t != 'ref':
        raise Outside('countblank:needs-one-reference')
    cells = args[0].cells()
    n = sum(1 for v in cells if isinstance(v, Blank) or v == '')
    tag = 'countblank:' + ('empty-text' if any(v == '' for v in cells if not isinstance(v, Blank)) else
                           'error-in-range' if any(isinstance(v, Err) for v in cells) else 'blank')
    return float(n), tag


def large_small_ref(name, args):
    if len(args) != 2:
        raise Outside('arity')
    a, k = args[0], sc(args[1])
    if a.t == 'omit':
        raise Outside('omitted-argument')
    if a.direct:
        v = sc(a)
        if not isinstance(v, (float, Err)) or isinstance(v, bool):
            raise Outside('large:direct-non-number')
    xs, errs, tags = collect([a])
    tags.discard('+ref-false')
    if isinstance(k, Err):
        errs.append(k)
    elif not isinstance(k, float) or isinstance(k, bool) or k != int(k):
        raise Outside('large:k-not-an-integer-number')
    if errs:
        return errs_value(errs), 'large:error'
    tag = 'large:' + min(tags, key=_AGG_ORDER.index) if tags else 'large:numbers'
    k = int(k)
    if not xs:
        return NUM, 'large:empty'
    if k < 1 or k > len(xs):
        return NUM, 'large:k-out-of-range'
    s = sorted(xs, reverse=(name == 'LARGE'))
    return s[k - 1], tag


def sumproduct_ref(args):
    if not args:
        raise Outside('arity')
    if any(a.t in ('omit', 'lit') for a in args):
        raise Outside('sumproduct:direct-scalar')
    shapes = {a.shape() for a in args}
    errs = [v for a in args for v in a.cells() if isinstance(v, Err)]
    if len(shapes) > 1:
        if errs:
            return tuple(dict.fromkeys([VALUE] + errs)), 'sumproduct:shape-mismatch'
        same_size = len({r * c for r, c in shapes}) == 1
        return VALUE, 'sumproduct:shape-mismatch' + ('-same-size' if same_size else '')
    if errs:
        return errs_value(errs), 'sumproduct:error'
    tags = set()
    cols = []
    for a in args:
        col = []
        for v in a.cells():
            if isinstance(v, float) and not isinstance(v, bool):
                col.append(Fraction(v))
            else:
                if isinstance(v, str) and (X.is_numtext(v) or X._pytrap(v)):
                    raise Outside('numeric-text-in-range')
                tags.add('non-numeric-as-zero')
                col.append(Fraction(0))
        cols.append(col)
    total = Fraction(0)
    for tup in zip(*cols):
        p = Fraction(1)
        for x in tup:
            p *= x
        total += p
    return _safe(lambda: float(total)), 'sumproduct:' + ('non-numeric-as-zero' if tags else 'numbers')


# ---------------------------------------------------------------------------
# text
# ---------------------------------------------------------------------------
def text_of(v):
    """Display form of a value used as text.  -> str | Err ; Outside when the
    display form of the number is not asserted (general format > 15 digits...)"""
    s, tag = X.display(v)
    if s is None:
        raise Outside('text:' + tag)
    if tag == 'display:decimal-small':
        # 0.00005 is shown by the repo as 5e-05: finding F7, owned by C02 -- excluded here
        raise Outside('text:display-decimal-small')
    return s


def first_err(vals):
    for v in vals:
        if isinstance(v, Err):
            return v
    return None


def count_arg(v, what):
    """Numeric 'how many / where' argument of a text function, truncated."""
    if isinstance(v, Err):
        return v, 'error'
    if isinstance(v, bool):
        raise Outside(what + ':logical')
    if isinstance(v, Blank):
        return 0, 'blank'
    if isinstance(v, float):
        if abs(v) > 1e9:
            raise Outside(what + ':huge')
        if v < 0 and v != int(v):
            raise Outside(what + ':negative-fraction')
        return int(v), ('number' if v == int(v) else 'fraction')
    x, t = X.to_number(v)
    if isinstance(x, Err):
        if t.endswith('trap'):
            raise Outside(what + ':python-float-trap')
        return VALUE, ('text-empty' if v == '' else 'text-nonnumeric')
    if x < 0 and x != int(x) or abs(x) > 1e9:
        raise Outside(what + ':numeric-text-range')
    return int(x), ('numtext' if x == int(x) and re.match(r'^[+-]?\d+$', v) else 'numtext-nonint-spelling')


def _texts_and_counts(spec, args):
    """spec: string of 't' (text argument) / 'n' (count argument) per position.
    Left-most error wins; a #VALUE! from a count argument competes by position."""
    vals = [sc(a) for a in args]
    out, tags = [], []
    bad = None
    for i, (k, v) in enumerate(zip(spec, vals)):
        if isinstance(v, Err):
            if bad is not None:
                return (bad, v), ['error:mixed']
            return v, ['error:propagate' if i == 0 else 'error:argument-%d' % (i + 1)]
        if k == 't':
            out.append(text_of(v))
            tags.append('t:' + X.kind(v))
        else:
            n, t = count_arg(v, 'count')
            if isinstance(n, Err):
                if bad is None:
                    bad = n
                    badtag = t
                tags.append('n:' + t)
                out.append(None)
            else:
                out.append(n)
                tags.append('n:' + t)
    if bad is not None:
        return bad, ['count:' + badtag]
    return out, tags


def _argclass(tags):
    """Most unusual argument class, for the signature."""
    order = ['n:numtext-nonint-spelling', 'n:numtext', 't:num', 'n:fraction', 'n:blank', 't:bool', 't:blank',
             't:numtext', 't:text', 'n:number']
    present = [t for t in order if t in tags]
    return present[0] if present else 'plain'


def left_right_ref(name, args):
    if not 1 <= len(args) <= 2:
        raise Outside('arity')
    r, tags = _texts_and_counts('tn'[:len(args)], args)
    if not isinstance(r, list):
        return r, tags[0]
    s = r[0]
    n = r[1] if len(args) == 2 else 1
    if n < 0:
        return VALUE, 'left:negative-count'
    pos = 'default' if len(args) == 1 else 'zero' if n == 0 else 'beyond' if n > len(s) else 'whole' if n == len(s) else 'inside'
    tag = 'left:%s|%s' % (pos, _argclass(tags))
    if name == 'LEFT':
        return s[:n], tag
    return (s[len(s) - n:] if n < len(s) else s), tag


def mid_ref(args):
    if len(args) != 3:
        raise Outside('arity')
    r, tags = _texts_and_counts('tnn', args)
    if not isinstance(r, list):
        return r, tags[0]
    s, st, n = r
    if st < 1:
        return VALUE, 'mid:start<1'
    if n < 0:
        return VALUE, 'mid:negative-count'
    pos = 'start-beyond' if st > len(s) else 'start-last+1' if st == len(s) + 1 else 'zero-count' if n == 0 else \
        'over-end' if st - 1 + n > len(s) else 'inside'
    return s[st - 1:st - 1 + n], 'mid:%s|%s' % (pos, _argclass(tags))


def replace_ref(args):
    if len(args) != 4:
        raise Outside('arity')
    r, tags = _texts_and_counts('tnnt', args)
    if not isinstance(r, list):
        return r, tags[0]
    s, st, n, new = r
    if st < 1:
        return VALUE, 'replace:start<1'
    if n < 0:
        return VALUE, 'replace:negative-count'
    pos = 'start-beyond' if st > len(s) else 'zero-count' if n == 0 else 'over-end' if st - 1 + n > len(s) else 'inside'
    return s[:st - 1] + new + s[st - 1 + n:], 'replace:%s|%s' % (pos, _argclass(tags))


_ASCII = re.compile(r'^[\x20-\x7eéÉ]*$')


def text1_ref(name, args):
    """LEN UPPER LOWER TRIM"""
    if len(args) != 1:
        raise Outside('arity')
    v = sc(args[0])
    if isinstance(v, Err):
        return v, 'error:propagate'
    s = text_of(v)
    k = X.kind(v)
    if name == 'LEN':
        return float(len(s)), 'len:' + k
    if name in ('UPPER', 'LOWER'):
        if not _ASCII.match(s):
            raise Outside('case:non-ascii')
        return (s.upper() if name == 'UPPER' else s.lower()), name.lower() + ':' + k
    if name == 'TRIM':
        if any(ch.isspace() and ch not in ' \u00a0' for ch in s) or any(ord(ch) < 32 for ch in s):
            raise Outside('trim:other-whitespace')
        res = ' '.join(w for w in s.split(' ') if w != '')
        if '\u00a0' in s:
            # TRIM removes only the 7-bit space (32); the non-breaking space (160) stays
            return res, 'trim:nbsp'
        if re.search(r'[^ ] {2,}[^ ]', s):
            return res, 'trim:inner-run'
        return res, 'trim:' + ('ends' if res != s else 'unchanged')
    raise KeyError(name)


def find_ref(args):
    if not 2 <= len(args) <= 3:
        raise Outside('arity')
    r, tags = _texts_and_counts('ttn'[:len(args)], args)
    if not isinstance(r, list):
        return r, tags[0]
    f, w = r[0], r[1]
    st = r[2] if len(args) == 3 else 1
    if st < 1:
        return VALUE, 'find:start<1'
    if st > len(w):
        if f == '':
            raise Outside('find:empty-needle-start-beyond')
        return VALUE, 'find:start-beyond'
    cls = _argclass(tags)
    if f == '':
        return float(st), 'find:empty-needle|' + cls
    i = w.find(f, st - 1)
    if i < 0:
        ci = w.lower().find(f.lower(), st - 1) >= 0
        return VALUE, 'find:' + ('case-mismatch' if ci else 'not-found')
    return float(i + 1), 'find:' + ('found-after-start' if st > 1 else 'found') + '|' + cls


def _wild2re(p):
    out, i, wild = [], 0, False
    while i < len(p):
        ch = p[i]
        if ch == '~':
            if i + 1 < len(p) and p[i + 1] in '?*~':
                out.append(re.escape(p[i + 1]))
                i += 2
                continue
            raise Outside('search:lone-tilde')
        if ch == '?':
            out.append('.')
            wild = True
        elif ch == '*':
            out.append('.*?')
            wild = True
        else:
            out.append(re.escape(ch))
        i += 1
    return ''.join(out), wild


def search_ref(args):
    if not 2 <= len(args) <= 3:
        raise Outside('arity')
    r, tags = _texts_and_counts('ttn'[:len(args)], args)
    if not isinstance(r, list):
        return r, tags[0]
    f, w = r[0], r[1]
    st = r[2] if len(args) == 3 else 1
    if not _ASCII.match(f) or not _ASCII.match(w):
        raise Outside('search:non-ascii')
    if st < 1:
        return VALUE, 'search:start<1'
    if st > len(w):
        if f == '' or set(f) <= {'*'}:
            raise Outside('search:empty-needle-start-beyond')
        return VALUE, 'search:start-beyond|' + _argclass(tags)
    if f == '':
        return float(st), 'search:empty-needle|' + _argclass(tags)
    rx, wild = _wild2re(f)
    esc = '~' in f
    m = re.compile(rx, re.I | re.S).search(w, st - 1)
    kind = 'wildcard' if wild else 'escaped' if esc else 'plain'
    if not m:
        return VALUE, 'search:%s-not-found|%s' % (kind, _argclass(tags))
    if kind == 'plain':
        kind = 'plain' if w.find(f, st - 1) == m.start() else 'plain-case-insensitive'
    return float(m.start() + 1), 'search:%s|%s' % (kind, _argclass(tags))


def substitute_ref(args):
    if not 3 <= len(args) <= 4:
        raise Outside('arity')
    r, tags = _texts_and_counts('tttn'[:len(args)], args)
    if not isinstance(r, list):
        return r, tags[0]
    s, old, new = r[:3]
    cls = _argclass(tags)
    if len(args) == 4:
        if any(t.startswith('n:numtext') for t in tags):
            raise Outside('substitute:numeric-text-instance')
        k = r[3]
        if k < 1:
            return VALUE, 'substitute:instance<1'
    else:
        k = None
    if old == '':
        return s, 'substitute:empty-old-text'
    # non-overlapping occurrences, left to right
    pos, i = [], s.find(old)
    while i >= 0:
        pos.append(i)
        i = s.find(old, i + len(old))
    if k is None:
        return s.replace(old, new), 'substitute:all-%s|%s' % ('none' if not pos else 'some', cls)
    if k > len(pos):
        return s, 'substitute:instance-beyond|' + cls
    p = pos[k - 1]
    return s[:p] + new + s[p + len(old):], 'substitute:instance|' + cls


def concat_ref(name, args):
    if not args:
        raise Outside('arity')
    parts, errs, tags = [], [], set()
    for a in args:
        if a.t == 'omit':
            raise Outside('omitted-argument')
        if name == 'CONCATENATE':
            vs = [sc(a)]
        else:
            vs = a.cells()
            if len(vs) > 1:
                tags.add('range')
        for v in vs:
            if isinstance(v, Err):
                errs.append(v)
            else:
                if not errs:
                    parts.append(text_of(v))
                tags.add(X.kind(v))
    if errs:
        return errs_value(errs), 'concat:error'
    order = ['range', 'blank', 'num', 'bool', 'numtext', 'text']
    return ''.join(parts), 'concat:' + min(tags, key=order.index)


def textjoin_ref(args):
    if len(args) < 3:
        raise Outside('arity')
    d = sc(args[0])
    ig = sc(args[1])
    errs = [v for v in (d, ig) if isinstance(v, Err)]
    if not errs:
        dl = text_of(d)
        if isinstance(ig, str):
            raise Outside('textjoin:text-ignore-empty')
        ig = bool(ig) if not isinstance(ig, Blank) else False
    items, tags = [], set()
    for a in args[2:]:
        if a.t == 'omit':
            raise Outside('omitted-argument')
        vs = a.cells()
        if len(vs) > 1:
            tags.add('range')
        for v in vs:
            if isinstance(v, Err):
                errs.append(v)
            elif not errs:
                s = text_of(v)
                if s == '':
                    tags.add('blank-cell' if isinstance(v, Blank) else 'empty-text')
                    if ig:
                        continue
                items.append(s)
    if errs:
        return errs_value(errs), 'textjoin:error'
    emp = 'empty-text' if 'empty-text' in tags else 'blank-cell' if 'blank-cell' in tags else 'no-empties'
    if isinstance(d, Blank):
        return dl.join(items), 'textjoin:blank-delimiter'
    return dl.join(items), 'textjoin:%s-%s' % ('ignore' if ig else 'keep', emp)


_THOUSANDS = re.compile(r'^ *[+-]?\d{1,3}(,\d{3})+(\.\d*)? *$', re.A)
_PERCENT = re.compile(r'^( *[+-]?(\d+(\.\d*)?|\.\d+)([eE][+-]?\d+)?) *% *$', re.A)
_LETTERS = re.compile(r'^[A-Za-z ]*$')


def value_ref(args):
    if len(args) != 1:
        raise Outside('arity')
    v = sc(args[0])
    if isinstance(v, Err):
        return v, 'error:propagate'
    if isinstance(v, bool):
        return VALUE, 'value:logical'
    if isinstance(v, Blank):
        return 0.0, 'value:blank'
    if isinstance(v, float):
        return v, 'value:number'
    x, t = X.to_number(v)
    if not isinstance(x, Err):
        return x, 'value:' + t.replace('coerce:', '')
    if t.endswith('trap'):
        return VALUE, 'value:text-python-float-trap'
    if _THOUSANDS.match(v):
        return float(v.strip(' ').replace(',', '')), 'value:thousands-separator'
    m = _PERCENT.match(v)
    if m:
        return float(m.group(1).strip(' ')) / 100.0, 'value:percent'
    if _LETTERS.match(v):
        return VALUE, 'value:' + ('text-empty' if v == '' else 'text-nonnumeric')
    raise Outside('value:locale-dependent-text')


# ---------------------------------------------------------------------------
# dispatch
# ---------------------------------------------------------------------------
FAMILY = {}
for _n in MATH:
    FAMILY[_n] = 'math'
FAMILY['PI'] = 'math'
for _n in ('IF', 'IFS', 'SWITCH', 'AND', 'OR', 'XOR', 'NOT', 'IFERROR', 'IFNA'):
    FAMILY[_n] = 'logic'
for _n in list(IS) + ['ISEVEN', 'ISODD']:
    FAMILY[_n] = 'info'
for _n in list(AGG) + ['COUNT', 'COUNTA', 'COUNTBLANK', 'LARGE', 'SMALL', 'SUMPRODUCT']:
    FAMILY[_n] = 'agg'
for _n in ('LEN', 'LEFT', 'RIGHT', 'MID', 'UPPER', 'LOWER', 'TRIM', 'CONCAT', 'CONCATENATE', 'FIND', 'SEARCH',
           'REPLACE', 'SUBSTITUTE', 'TEXTJOIN', 'VALUE'):
    FAMILY[_n] = 'text'

# functions whose result does not depend on the order of their arguments
SYMMETRIC = set(AGG) | {'COUNT', 'COUNTA', 'AND', 'OR', 'XOR', 'SUMPRODUCT'}
# functions a scalar rule of which is lifted element-wise over an array argument
ELEMENTWISE = set(MATH) | set(IS) | {'NOT', 'LEN', 'LEFT', 'RIGHT', 'MID', 'UPPER', 'LOWER', 'TRIM', 'FIND', 'SEARCH',
                                     'REPLACE', 'SUBSTITUTE', 'VALUE', 'IFERROR', 'IFNA'}


def reference(name, args):
    """-> (value, tag); raises Outside."""
    if name in MATH:
        return math_ref(name, args)
    if name == 'PI':
        return pi_ref(args)
    if name == 'IF':
        return if_ref(args)
    if name == 'IFS':
        return ifs_ref(args)
    if name == 'SWITCH':
        return switch_ref(args)
    if name in ('AND', 'OR', 'XOR'):
        return andor_ref(name, args)
    if name == 'NOT':
        return not_ref(args)
    if name in ('IFERROR', 'IFNA'):
        return iferror_ref(name, args)
    if name in IS:
        return is_ref(name, args)
    if name in ('ISEVEN', 'ISODD'):
        return iseven_ref(name, args)
    if name in AGG:
        return agg_ref(name, args)
    if name in ('COUNT', 'COUNTA'):
        return count_ref(name, args)
    if name == 'COUNTBLANK':
        return countblank_ref(args)
    if name in ('LARGE', 'SMALL'):
        return large_small_ref(name, args)
    if name == 'SUMPRODUCT':
        return sumproduct_ref(args)
    if name in ('LEFT', 'RIGHT'):
        return left_right_ref(name, args)
    if name == 'MID':
        return mid_ref(args)
    if name == 'REPLACE':
        return replace_ref(args)
    if name in ('LEN', 'UPPER', 'LOWER', 'TRIM'):
        return text1_ref(name, args)
    if name == 'FIND':
        return find_ref(args)
    if name == 'SEARCH':
        return search_ref(args)
    if name == 'SUBSTITUTE':
        return substitute_ref(args)
    if name in ('CONCAT', 'CONCATENATE'):
        return concat_ref(name, args)
    if name == 'TEXTJOIN':
        return textjoin_ref(args)
    if name == 'VALUE':
        return value_ref(args)
    raise KeyError(name)
