"""Reference pieces for C13 (volatile functions): Excel serial numbers of a
harness instant, and *contexts* -- formulas with one hole, built from steps that
are either affine in the hole (x+c, c-x, x*c, x/c, -x, x%, SUM/AVERAGE/PRODUCT
with constants) or selections (IF / IFERROR pass the hole through or discard
it).  A context therefore denotes  result = a*x + b  with a, b known from the
constants alone; a == 0 means the hole is not selected (or only inspected) and
the result is the constant b.  Nothing here comes from the code under test."""
import datetime as _dt

_EPOCH = _dt.date(1899, 12, 30)
DAY_S = 86400.0


def serial_day(d):
    """Excel 1900-system serial of a date >= 1900-03-01 (the asserted domain of
    C13 clocks is 1901..9998, clear of the 1900-02-29 quirk)."""
    if (d.year, d.month, d.day) < (1900, 3, 1):
        raise ValueError('clock outside the asserted domain')
    return float((_dt.date(d.year, d.month, d.day) - _EPOCH).days)


def now_bounds(t):
    """NOW() at instant t: any value from the instant truncated to the second
    up to one second later is accepted (Excel itself resolves 0.01 s; rounding
    to the nearest second would also be a faithful clock reading)."""
    lo = serial_day(t) + (t.hour * 3600 + t.minute * 60 + t.second) / DAY_S
    return lo, lo + 1.0 / DAY_S


def today_serial(t):
    return serial_day(t)


# ----------------------------------------------------------------------------
# operands:  ['n', number] literal | ['r', 'B1'] reference to a constant cell |
#            ['t'] TODAY()  (exact, known from the harness clock at call time)
# ----------------------------------------------------------------------------
def opnd_value(o, env):
    k = o[0]
    if k == 'n':
        return float(o[1])
    if k == 'r':
        return float(env['cells'][o[1]])
    if k == 't':
        return float(env['today'])
    raise ValueError(o)


def num_text(x):
    x = float(x)
    neg = x < 0
    ax = abs(x)
    if ax == int(ax) and ax < 1e15:
        s = str(int(ax))
    else:
        s = repr(ax)
        if 'e' in s or 'E' in s:
            raise ValueError('literal outside the generator domain: %r' % x)
    return ('-' if neg else '') + s


def opnd_text(o, ref, as_arg=False):
    """Formula text of an operand.  Negative literals are parenthesised when
    used as an operand of an operator (never produces a sign run)."""
    k = o[0]
    if k == 'n':
        s = num_text(o[1])
        if s.startswith('-') and not as_arg:
            return '(%s)' % s
        return s
    if k == 'r':
        return ref(o[1])
    if k == 't':
        return 'TODAY()'
    raise ValueError(o)


COND_TRUE = ['TRUE', '1<2', '{r}={r}', '{r}<{r}+1', '2>=2']
COND_FALSE = ['FALSE', '1>2', '{r}<>{r}', '{r}>{r}+1', '2<>2']


def cond_text(truth, idx, ref):
    pool = COND_TRUE if truth else COND_FALSE
    return pool[idx % len(pool)].replace('{r}', ref('B1'))


class Aff:
    """a*x + b with a running bound of the magnitudes met on the way (used for
    the comparison tolerance); X bounds |x|."""

    def __init__(self, X):
        self.a, self.b, self.X = 1.0, 0.0, float(X)
        self.scale = float(X)

    def _upd(self):
        self.scale = max(self.scale, abs(self.a) * self.X + abs(self.b))

    def const(self, c):
        self.a, self.b = 0.0, float(c)
        self._upd()


def apply_step(A, step, env):
    k = step[0]
    if k in ('par', 'pos'):
        pass
    elif k == 'neg':
        A.a, A.b = -A.a, -A.b
    elif k == 'pct':
        A.a, A.b = A.a / 100.0, A.b / 100.0
    elif k == 'add':
        A.b = A.b + opnd_value(step[1], env)
    elif k == 'sub':
        c = opnd_value(step[1], env)
        if step[2] == 'R':   # x - c
            A.b = A.b - c
        else:                # c - x
            A.a, A.b = -A.a, c - A.b
    elif k == 'mul':
        c = opnd_value(step[1], env)
        A.a, A.b = A.a * c, A.b * c
    elif k == 'div':
        c = opnd_value(step[1], env)
        A.a, A.b = A.a / c, A.b / c
    elif k == 'sum':
        c = sum(opnd_value(o, env) for o in step[1]) + sum(opnd_value(o, env) for o in step[2])
        A.b = A.b + c
    elif k == 'avg':
        others = [opnd_value(o, env) for o in step[1]] + [opnd_value(o, env) for o in step[2]]
        n = len(others) + 1
        A.a, A.b = A.a / n, (A.b + sum(others)) / n
    elif k == 'prod':
        c = 1.0
        for o in step[1] + step[2]:
            c *= opnd_value(o, env)
        A.a, A.b = A.a * c, A.b * c
    elif k == 'if':
        truth, pos, other = step[1], step[2], step[3]
        selected = (truth and pos == 'then') or (not truth and pos == 'else')
        if not selected:
            A.const(opnd_value(other, env))
    elif k == 'iferror':
        pass  # IFERROR(x, c) and IFERROR(1/0, x) both deliver x
    elif k == 'isnum':
        A.const(opnd_value(step[1], env))  # IF(ISNUMBER(x), c1, c2) -> c1
    else:
        raise ValueError(step)
    A._upd()


def affine(steps, env, X):
    A = Aff(X)
    for s in steps:
        apply_step(A, s, env)
    return A


_ATOMIC = ('call', 'par')


def render(inner_text, steps, ref):
    """Text of the context applied to `inner_text` (a function call or a
    reference).  An operator expression used as operand of another operator is
    parenthesised; sign steps are only ever applied to calls/parenthesised
    text, so no sign run (`--x`, `+-x`, `c--x`) is produced."""
    text, kind = inner_text, 'call'

    def operand():
        return text if kind in _ATOMIC else '(%s)' % text

    for s in steps:
        k = s[0]
        if k == 'par':
            text, kind = '(%s)' % text, 'par'
        elif k == 'neg':
            text, kind = '-%s' % operand(), 'sign'
        elif k == 'pos':
            text, kind = '+%s' % operand(), 'sign'
        elif k == 'pct':
            text, kind = '%s%%' % operand(), 'op'
        elif k in ('add', 'sub', 'mul'):
            sym = {'add': '+', 'sub': '-', 'mul': '*'}[k]
            o = opnd_text(s[1], ref)
            if s[2] == 'R':
                text = '%s%s%s' % (operand(), sym, o)
            else:
                text = '%s%s%s' % (o, sym, operand())
            kind = 'op'
        elif k == 'div':
            text, kind = '%s/%s' % (operand(), opnd_text(s[1], ref)), 'op'
        elif k in ('sum', 'avg', 'prod'):
            fn = {'sum': 'SUM', 'avg': 'AVERAGE', 'prod': 'PRODUCT'}[k]
            args = [opnd_text(o, ref, True) for o in s[1]] + [text] + [opnd_text(o, ref, True) for o in s[2]]
            text, kind = '%s(%s)' % (fn, ','.join(args)), 'call'
        elif k == 'if':
            c = cond_text(s[1], s[4], ref)
            o = opnd_text(s[3], ref, True)
            if s[2] == 'then':
                text = 'IF(%s,%s,%s)' % (c, text, o)
            else:
                text = 'IF(%s,%s,%s)' % (c, o, text)
            kind = 'call'
        elif k == 'iferror':
            if s[1] == 'val':
                text = 'IFERROR(%s,%s)' % (text, opnd_text(s[2], ref, True))
            else:
                text = 'IFERROR(1/0,%s)' % text
            kind = 'call'
        elif k == 'isnum':
            text = 'IF(ISNUMBER(%s),%s,%s)' % (text, opnd_text(s[1], ref, True), opnd_text(s[2], ref, True))
            kind = 'call'
        else:
            raise ValueError(s)
    return text


def depth(steps):
    """Number of operators/functions enclosing the hole (ISNUMBER inside IF counts twice)."""
    n = 0
    for s in steps:
        if s[0] == 'par':
            continue
        n += 2 if s[0] == 'isnum' else 1
    return n


def position(step):
    """Coarse label for the argument position the hole takes in a step."""
    k = step[0]
    if k in ('add', 'sub', 'mul', 'div'):
        return 'operator:%s' % ('left' if k == 'div' or step[2] == 'R' else 'right')
    if k in ('sum', 'avg', 'prod'):
        n = len(step[1]) + 1
        return 'function:arg%s' % (n if n < 3 else '3+')
    if k == 'if':
        sel = (step[1] and step[2] == 'then') or (not step[1] and step[2] == 'else')
        return 'if:%s-branch' % ('selected' if sel else 'non-selected')
    if k == 'iferror':
        return 'iferror:%s' % ('arg1' if step[1] == 'val' else 'arg2')
    if k == 'isnum':
        return 'if:condition'
    return 'unary'


def refs_of(steps):
    out = []
    for s in steps:
        for part in s[1:]:
            for o in (part if (isinstance(part, list) and part and isinstance(part[0], list)) else [part]):
                if isinstance(o, list) and len(o) == 2 and o[0] == 'r' and o[1] not in out:
                    out.append(o[1])
        if s[0] == 'if' and '{r}' in (COND_TRUE if s[1] else COND_FALSE)[s[4] % len(COND_TRUE)]:
            if 'B1' not in out:
                out.append('B1')
    return out
