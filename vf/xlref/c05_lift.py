"""C05 reference rules: Excel broadcasting ("lift") of a scalar rule over
scalar / 1xn / mx1 / mxn arguments and the fit of a result into a destination
rectangle, plus scalar reference rules of a few element-wise functions.

Values are the harness values of vf.sut (float | bool | str | Err | BLANK);
a *matrix* is a non-empty rectangular list of rows; anything else is a scalar.
Written from Excel's documented array-formula behaviour, never from the code
under test.  Every scalar rule returns (value, tag); value None = outside the
asserted domain of that rule (callers then only use the metamorphic oracle)."""
from ..sut import Err, Blank
from . import core as X

NA = X.NA


# --------------------------------------------------------------------------
# shapes
# --------------------------------------------------------------------------
def is_matrix(v):
    return isinstance(v, list)


def shape(v):
    if is_matrix(v):
        return len(v), len(v[0])
    return 1, 1


def orient(shp, scalar=False):
    r, c = shp
    if scalar:
        return 'scalar'
    if r == 1 and c == 1:
        return '1x1'
    if r == 1:
        return 'row'
    if c == 1:
        return 'col'
    return '2d'


def bshape(shapes):
    """Shape of the broadcast of Excel-compatible shapes (all non-1 row counts
    equal, all non-1 column counts equal); None when they are incompatible
    (outside the asserted domain)."""
    rs = {r for r, _ in shapes if r != 1}
    cs = {c for _, c in shapes if c != 1}
    if len(rs) > 1 or len(cs) > 1:
        return None
    return (rs.pop() if rs else 1), (cs.pop() if cs else 1)


def at(v, i, j):
    """Element of an argument at position (i, j) of the broadcast result: a
    scalar, a single row or a single column stretches."""
    if not is_matrix(v):
        return v
    r, c = len(v), len(v[0])
    return v[0 if r == 1 else i][0 if c == 1 else j]


def lift(rule, args):
    """-> (matrix of (value, tag), (rows, cols)) of rule applied element-wise."""
    shp = bshape([shape(a) for a in args])
    if shp is None:
        raise ValueError('incompatible shapes')
    R, C = shp
    return [[rule(*[at(a, i, j) for a in args]) for j in range(C)] for i in range(R)], shp


def shape_class(args):
    """Class of a combination of argument shapes (evidence labels and the rule
    part of `vs-scalar` signatures)."""
    os_ = sorted({orient(shape(a), not is_matrix(a)) for a in args})
    nons = [o for o in os_ if o not in ('scalar', '1x1')]
    if not nons:
        return 'all-scalar' if os_ == ['scalar'] else 'with-1x1'
    return '+'.join(nons) + ('+scalar' if len(nons) < len(os_) else '')


# --------------------------------------------------------------------------
# fit of a value into a destination rectangle
# --------------------------------------------------------------------------
def fit(value, R, C):
    """Scalar fills; a single row repeats down, a single column repeats across;
    otherwise element (i, j) is value[i][j] where it exists, else #N/A; surplus
    elements are dropped."""
    if not is_matrix(value):
        return [[value] * C for _ in range(R)]
    r, c = shape(value)
    out = []
    for i in range(R):
        ii = 0 if r == 1 else i
        row = []
        for j in range(C):
            jj = 0 if c == 1 else j
            row.append(value[ii][jj] if ii < r and jj < c else NA)
        out.append(row)
    return out


def fit_tag(vshape, dshape, scalar=False):
    """Rule class of a (value shape, destination shape) pair."""
    (r, c), (R, C) = vshape, dshape
    if scalar or (r, c) == (1, 1):
        return 'scalar-fill'
    if (r, c) == (R, C):
        return 'identity'
    if r * c == R * C:
        return 'equal-count'
    if r > R or c > C:
        return 'truncate'
    stretch = (r == 1 and R > 1) or (c == 1 and C > 1)
    pad = (1 < r < R) or (1 < c < C)
    return 'repeat+pad' if stretch and pad else 'repeat' if stretch else 'pad'


def reflow(value, R, C):
    """What a row-major re-flow (cyclic refill) of the elements would give: not
    an Excel rule, only used to *classify* a wrong answer."""
    flat = [e for row in value for e in row] if is_matrix(value) else [value]
    return [[flat[(i * C + j) % len(flat)] for j in range(C)] for i in range(R)]


# --------------------------------------------------------------------------
# comparison of matrices
# --------------------------------------------------------------------------
def same_matrix(got, exp):
    """-> None if equal, else (i, j) of the first difference, or 'shape'."""
    if len(got) != len(exp) or any(len(g) != len(e) for g, e in zip(got, exp)):
        return 'shape'
    for i, (g, e) in enumerate(zip(got, exp)):
        for j, (x, y) in enumerate(zip(g, e)):
            if y is None:
                continue
            if not X.same(x, y):
                return i, j
    return None


# --------------------------------------------------------------------------
# scalar reference rules (value, tag); value None = not asserted
# --------------------------------------------------------------------------
def _blank0(v):
    """A formula result that is a blank reference shows as 0."""
    return 0.0 if isinstance(v, Blank) else v


def _cond(v):
    """Logical test of IF/IFS: -> (True|False|Err|None, tag)"""
    if isinstance(v, Err):
        return v, 'cond:error'
    if isinstance(v, bool):
        return v, 'cond:logical'
    if isinstance(v, Blank):
        return False, 'cond:blank'
    if isinstance(v, float):
        return v != 0, 'cond:number'
    return None, 'cond:text'  # "TRUE"/"FALSE" text converts, other text is #VALUE!: not asserted here


def r_if(c, x=True, y=False):
    b, t = _cond(c)
    if b is None or isinstance(b, Err):
        return b, t
    return _blank0(x if b else y), 'if:' + t


def r_ifs(*a):
    if len(a) % 2:
        return None, 'ifs:odd'
    for c, v in zip(a[::2], a[1::2]):
        b, t = _cond(c)
        if b is None or isinstance(b, Err):
            return b, 'ifs:' + t
        if b:
            return _blank0(v), 'ifs:first-true'
    return NA, 'ifs:none-true'


def r_iferror(v, alt):
    if isinstance(v, Blank) or isinstance(alt, Blank):
        return None, 'iferror:blank'
    return (alt, 'iferror:error') if isinstance(v, Err) else (v, 'iferror:value')


def r_ifna(v, alt):
    if isinstance(v, Blank) or isinstance(alt, Blank):
        return None, 'ifna:blank'
    return (alt, 'ifna:na') if v == NA else (v, 'ifna:value')


def r_concatenate(*a):
    out = ''
    tags = set()
    for v in a:
        if isinstance(v, Err):
            return v, 'concat:first-error'
        d, t = X.display(v)
        if d is None:
            return None, t
        tags.add(t)
        out += d
    order = ['display:decimal-small', 'display:decimal', 'display:integer', 'display:zero',
             'display:logical', 'display:blank', 'display:text']
    return out, 'concat:' + min(tags, key=order.index)


def r_switch(v, *a):
    """Asserted only for a number / text expression compared with keys of the
    same kind (exact text), no error keys."""
    if isinstance(v, Err):
        return v, 'switch:error-expr'
    keys, vals = a[:len(a) // 2 * 2:2], a[1::2]
    default = a[-1] if len(a) % 2 else NA
    if isinstance(v, (bool, Blank)) or any(type(k) is not type(v) for k in keys):
        return None, 'switch:mixed-kinds'
    if isinstance(v, str) and any(k != v and k.lower() == v.lower() for k in keys):
        return None, 'switch:text-case'
    for k, r in zip(keys, vals):
        if k == v:
            return _blank0(r), 'switch:match'
    return _blank0(default), ('switch:default' if len(a) % 2 else 'switch:no-match')


def _num1(f, name):
    def rule(v):
        x, t = X.to_number(v)
        if isinstance(x, Err):
            return x, name + ':' + t
        if abs(x) >= 1e15:
            return None, name + ':huge'  # scalar rule of the repo differs there (INT(1E+200)); not a lifting matter
        try:
            return X.finite(f(x), name + ':' + t)
        except (ValueError, OverflowError):
            return X.NUM, name + ':domain'
    return rule


def _text1(f, name):
    def rule(v):
        d, t = X.display(v)
        if d is None or isinstance(d, Err):
            return d, name + ':' + t
        r = f(d)
        return (float(r) if isinstance(r, int) else r), name + ':' + t
    return rule


def r_not(v):
    b, t = _cond(v)
    if b is None or isinstance(b, Err):
        return b, 'not:' + t
    return (not b), 'not:' + t


import math as _m  # noqa: E402

RULES = {
    'IF': r_if, 'IFS': r_ifs, 'IFERROR': r_iferror, 'IFNA': r_ifna, 'CONCATENATE': r_concatenate,
    'SWITCH': r_switch, 'NOT': r_not,
    'ABS': _num1(abs, 'abs'),
    'SIGN': _num1(lambda x: (x > 0) - (x < 0), 'sign'),
    'INT': _num1(_m.floor, 'int'),
    'SQRT': _num1(_m.sqrt, 'sqrt'),
    'LEN': _text1(len, 'len'), 'UPPER': _text1(str.upper, 'upper'), 'LOWER': _text1(str.lower, 'lower'),
}
for _op in ('+', '-', '*', '/', '^', '&', '=', '<>', '<', '>', '<=', '>='):
    RULES[_op] = (lambda op: lambda a, b: X.binary(op, a, b))(_op)
for _op in ('u-', 'u+', '%'):
    RULES[_op] = (lambda op: lambda a: X.unary(op, a))(_op)
