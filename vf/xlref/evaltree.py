"""Reference evaluation of a formula tree (vf.gen.trees) over an environment of
cell values, with vf.xlref.core deciding every scalar rule.

PUBLIC API
----------
evaluate(tree, env) -> (value, tags)
    env   : dict canonical cell name ('A1', 'SHEET1!A1', "'S 1'!A1") -> harness value
            (float | bool | str | Err | BLANK); a missing cell is BLANK.
    value : harness scalar | tuple of admissible scalars (only at the root) |
            Matrix (list of rows, for array literals / multi-cell references at the root) |
            None = OUTSIDE THE ASSERTED DOMAIN: the caller must not compare values
            (only totality / invariance between spellings may be asserted).
    tags  : set of rule tags (from xlref.core plus 'fn:<NAME>:<rule>', 'outside:<why>').
    A BLANK root value is returned as 0.0 (a formula that yields a blank cell shows 0).
Functions with reference semantics here (anything else -> None):
    SUM, MIN, MAX   directly typed scalars are coerced (logical 1/0, numeric text; other text
                    #VALUE!; an empty argument counts as 0); references contribute their numbers
                    only; first error in argument order wins.  None when a reference holds numeric
                    text, an array literal holds text/logicals, or a coercion failure and an
                    error value compete.
    IF              2-3 arguments, condition logical | number | blank; text condition -> None
                    unless it is not TRUE/FALSE-like (#VALUE!); missing branch FALSE, empty branch 0.
    ABS             one scalar argument, arithmetic coercion.
    VFSPY           harness-registered spy (install_spy()): returns spy_encode(args), a text
                    that lists for every argument position its kind and value.
install_spy()       registers VFSPY through the documented get_functions()['NAME'] = callable
spy_encode(args)    the encoding (args: harness scalars, Matrix, Ref(matrix), EMPTYARG)
cells_of(name) -> rows of canonical cell names of 'A1:B2' / "'S 1'!A1"; raises ValueError
build_input(name, env) -> sut.Ranges for an input name of a compiled formula
                    ('A1', 'SHEET1!A1:B2', '(A1, (B1:B2, C1))', alias 'c0>(A1, B1)'); None when the
                    name is not one of these
"""
import re

from .. import sut
from ..sut import Err, BLANK, Blank, Foreign
from . import core as X

SPY = 'VFSPY'


class Ref(list):
    """Matrix of values that arrives through a reference (aggregation rule differs)."""
    multi = False  # True for a union (value order inside a union is not asserted)


class _Empty:
    def __repr__(self):
        return 'EMPTYARG'


EMPTYARG = _Empty()


# --------------------------------------------------------------------------
# references
# --------------------------------------------------------------------------
_NAME = re.compile(r"^(?P<pre>(?:'[^']*'|[A-Za-z_][A-Za-z0-9_.]*)!)?(?P<c1>[A-Z]{1,3})(?P<r1>[1-9]\d*)(?::(?P<c2>[A-Z]{1,3})(?P<r2>[1-9]\d*))?$")


def _col(s):
    v = 0
    for ch in s:
        v = v * 26 + ord(ch) - 64
    return v


def _colname(c):
    s = ''
    while c:
        c, r = divmod(c - 1, 26)
        s = chr(65 + r) + s
    return s


def cells_of(name):
    m = _NAME.match(name)
    if not m:
        raise ValueError('not an area name: %r' % (name,))
    d = m.groupdict()
    c1, r1 = _col(d['c1']), int(d['r1'])
    c2, r2 = (_col(d['c2']), int(d['r2'])) if d['c2'] else (c1, r1)
    if c2 < c1 or r2 < r1 or (c2 - c1 + 1) * (r2 - r1 + 1) > 400:
        raise ValueError('unsupported area %r' % (name,))
    pre = d['pre'] or ''
    return [['%s%s%d' % (pre, _colname(c), r) for c in range(c1, c2 + 1)] for r in range(r1, r2 + 1)]


def _split_union(name):
    """'(A1, (B1:B2, C1))' -> ['A1', 'B1:B2', 'C1'] (nested pairs flattened; commas inside quotes are not separators)."""
    out, cur, q = [], '', False
    for ch in name:
        if ch == "'":
            q = not q
        if not q and ch in '(),':
            if cur.strip():
                out.append(cur.strip())
            cur = ''
        else:
            cur += ch
    if cur.strip():
        out.append(cur.strip())
    return out


_ALIAS = re.compile(r'^c\d+>')


def build_input(name, env):
    # a reference expression that occurs twice among the arguments of one call gets a second
    # input named 'c0>(A1, B1)': same cells
    name = _ALIAS.sub('', name)
    try:
        if name.startswith('(') and name.endswith(')'):
            r = None
            for part in _split_union(name):
                x = sut.rng(part, [[env.get(c, BLANK) for c in row] for row in cells_of(part)])
                r = x if r is None else (r | x)
            return r
        return sut.rng(name, [[env.get(c, BLANK) for c in row] for row in cells_of(name)])
    except ValueError:
        return None


# --------------------------------------------------------------------------
# spy
# --------------------------------------------------------------------------
def _enc_scalar(v):
    if isinstance(v, Err):
        return 'e' + v.t
    if isinstance(v, Blank):
        return '_'
    if isinstance(v, bool):
        return 'bT' if v else 'bF'
    if isinstance(v, float):
        return 'n%r' % (v + 0.0 if v else 0.0)
    if isinstance(v, str):
        return 's<%s>' % v
    return '?%r' % (v,)


def spy_encode(args):
    """One entry per argument position: scalars by kind+value; an empty argument
    is what the callee receives for it, the number 0; arrays 'A[r;r]';
    references 'R[...]' (a union as the sorted multiset of its values)."""
    out = []
    for a in args:
        if a is EMPTYARG:
            out.append('n0.0')
        elif isinstance(a, Ref):
            if a.multi:
                out.append('U[%s]' % ','.join(sorted(_enc_scalar(v) for row in a for v in row)))
            else:
                out.append('R[%s]' % ';'.join(','.join(_enc_scalar(v) for v in row) for row in a))
        elif isinstance(a, list):
            if len(a) == 1 and len(a[0]) == 1:
                out.append(_enc_scalar(a[0][0]))
            else:
                out.append('A[%s]' % ';'.join(','.join(_enc_scalar(v) for v in row) for row in a))
        else:
            out.append(_enc_scalar(a))
    return '%d:%s' % (len(out), '|'.join(out))


def _spy(*args):
    enc = []
    for a in args:
        if isinstance(a, sut.Ranges):
            r = Ref(sut.matrix(a))
            r.multi = len(a.ranges) > 1
            enc.append(r)
        else:
            enc.append(sut.matrix(a))
    return spy_encode(enc)


def install_spy():
    f = sut.get_functions()
    if f.get(SPY) is not _spy:
        f[SPY] = _spy
    return SPY


# --------------------------------------------------------------------------
# evaluation
# --------------------------------------------------------------------------
class _Outside(Exception):
    def __init__(self, why):
        self.why = why


def evaluate(tree, env):
    tags = set()
    try:
        v = _ev(tree, env, tags, root=True)
    except _Outside as o:
        tags.add('outside:' + o.why)
        return None, tags
    if isinstance(v, Ref):
        v = list(v)
    if isinstance(v, list) and len(v) == 1 and len(v[0]) == 1:
        v = v[0][0]
    if isinstance(v, Blank):
        v = 0.0
    return v, tags


def _scalar(v, why='array-operand'):
    """Operand of a scalar operator: a 1x1 reference is its cell."""
    if isinstance(v, list):
        if len(v) == 1 and len(v[0]) == 1 and not getattr(v, 'multi', False):
            return v[0][0]
        raise _Outside(why)
    if isinstance(v, tuple):
        raise _Outside('ambiguous-intermediate')
    return v


def _literal_value(t):
    k = t[0]
    if k == 'num':
        return float(t[1])
    if k == 'str':
        return t[1]
    if k == 'bool':
        return bool(t[1])
    if k == 'err':
        return Err(t[1])
    if k == 'neg' and t[1][0] == 'num':
        return -float(t[1][1])
    raise _Outside('array-element')


def _refval(t, env):
    from ..gen.trees import ref_name
    r = Ref([[env.get(c, BLANK) for c in row] for row in cells_of(ref_name(t))])
    return r


def _ev(t, env, tags, root=False):
    k = t[0]
    if k in ('num', 'str', 'bool', 'err'):
        return _literal_value(t)
    if k in ('ref', 'rng'):
        return _refval(t, env)
    if k == 'union':
        r = Ref([[v for a in t[1] for row in _refval(a, env) for v in row]])
        r.multi = True
        return r
    if k == 'arr':
        return [[_literal_value(e) for e in row] for row in t[1]]
    if k == 'empty':
        return EMPTYARG
    if k == 'bin':
        a = _scalar(_ev(t[2], env, tags))
        b = _scalar(_ev(t[3], env, tags))
        return _binary(t[1], a, b, tags, root)
    if k in ('neg', 'pos', 'pct'):
        a = _scalar(_ev(t[1], env, tags))
        v, tag = X.unary({'neg': 'u-', 'pos': 'u+', 'pct': '%'}[k], a)
        tags.add(tag)
        return v
    if k == 'func':
        return _func(t[1].upper(), t[2], env, tags, root)
    raise ValueError('unknown node %r' % (t,))


def _binary(op, a, b, tags, root):
    if op in ('=', '<>', '<', '>', '<=', '>=') and isinstance(a, float) and isinstance(b, float) and a != b:
        if abs(a - b) <= 1e-9 * max(abs(a), abs(b)):
            raise _Outside('fragile-comparison')
    v, tag = X.binary(op, a, b)
    tags.add(tag)
    if v is None:
        raise _Outside(tag)
    if op == '&' and 'decimal-small' in tag:
        # number -> text below 1e-4: finding F7 is owned by C02 and excluded here by construction
        raise _Outside('display-small')
    if isinstance(v, float) and abs(v) > 1e300:
        raise _Outside('near-overflow')
    if isinstance(v, tuple) and not root:
        raise _Outside('ambiguous-intermediate')
    return v


def _func(name, args, env, tags, root):
    if len(args) == 1 and args[0][0] == 'empty':
        args = []  # F(<empty>) is spelled F()
    if name == SPY:
        vals = []
        for a in args:
            v = _ev(a, env, tags)
            if isinstance(v, tuple):
                raise _Outside('ambiguous-intermediate')
            if a[0] == 'func' and isinstance(v, list):
                raise _Outside('function-returns-reference')
            vals.append(v)
        tags.add('fn:VFSPY')
        return spy_encode(vals)
    if name in ('SUM', 'MIN', 'MAX'):
        if not args:
            raise _Outside('agg-arity')
        return _aggregate(name, args, env, tags)
    if name == 'IF':
        return _if(args, env, tags, root)
    if name == 'ABS':
        if len(args) != 1 or args[0][0] == 'empty':
            raise _Outside('abs-arity')
        a = _scalar(_ev(args[0], env, tags))
        x, tag = X.to_number(a)
        tags.add('fn:ABS:' + tag)
        return x if isinstance(x, Err) else abs(x)
    raise _Outside('function:' + name)


def _aggregate(name, args, env, tags):
    nums, first_err, coercion_failed, errs = [], None, False, set()
    for a in args:
        v = _ev(a, env, tags)
        if v is EMPTYARG:
            nums.append(0.0)
            tags.add('fn:agg:empty-arg')
            continue
        if isinstance(v, tuple):
            raise _Outside('ambiguous-intermediate')
        if a[0] == 'func' and isinstance(v, list):
            raise _Outside('function-returns-reference')
        if isinstance(v, Ref):
            for row in v:
                for x in row:
                    if isinstance(x, Err):
                        first_err = first_err or x
                        errs.add(x)
                    elif isinstance(x, bool):
                        pass
                    elif isinstance(x, float):
                        nums.append(x)
                    elif isinstance(x, str) and (X.is_numtext(x) or X._pytrap(x)):
                        raise _Outside('numeric-text-in-reference')
            tags.add('fn:agg:reference')
            continue
        if isinstance(v, list):
            for row in v:
                for x in row:
                    if isinstance(x, Err):
                        first_err = first_err or x
                        errs.add(x)
                    elif isinstance(x, float) and not isinstance(x, bool):
                        nums.append(x)
                    else:
                        raise _Outside('text-or-logical-in-array')
            tags.add('fn:agg:array')
            continue
        if isinstance(v, Err):
            first_err = first_err or v
            errs.add(v)
            continue
        if isinstance(v, Blank):
            raise _Outside('blank-scalar-argument')
        if isinstance(v, (bool, str)) and a[0] not in ('bool', 'str'):
            # whether a computed logical/text counts like a typed one is function semantics (C12), not grammar
            raise _Outside('computed-logical-or-text-argument')
        x, tag = X.to_number(v)
        tags.add('fn:agg:' + tag)
        if isinstance(x, Err):
            coercion_failed = True
        else:
            nums.append(x)
    if coercion_failed and first_err is not None:
        raise _Outside('error-vs-coercion-order')
    if len(errs) > 1:
        raise _Outside('several-distinct-errors')
    if coercion_failed:
        return X.VALUE
    if first_err is not None:
        return first_err
    if name == 'SUM':
        s = 0.0
        for x in nums:
            s += x
        if abs(s) > 1e300:
            raise _Outside('near-overflow')
        return s
    if not nums:
        return 0.0
    return min(nums) if name == 'MIN' else max(nums)


def _if(args, env, tags, root):
    if not 2 <= len(args) <= 3 or args[0][0] == 'empty':
        raise _Outside('if-arity')
    for a in args[1:]:  # every branch is looked at: an array / multi-cell branch (even unselected) makes the result an array
        if a[0] != 'empty':
            v = _ev(a, env, set())
            if isinstance(v, list) and not (len(v) == 1 and len(v[0]) == 1 and not getattr(v, 'multi', False)):
                raise _Outside('if-array-branch')
    c = _scalar(_ev(args[0], env, tags))
    if isinstance(c, Err):
        tags.add('fn:IF:error-condition')
        return c
    if isinstance(c, str):
        if c.strip().upper() in ('TRUE', 'FALSE') or c == '':
            raise _Outside('if-text-condition')
        if X.is_numtext(c) or X._pytrap(c):
            raise _Outside('if-text-condition')
        tags.add('fn:IF:text-condition')
        return X.VALUE
    if isinstance(c, Blank):
        cond = False
    elif isinstance(c, bool):
        cond = c
    else:
        cond = c != 0
    tags.add('fn:IF:%s' % ('then' if cond else 'else'))
    idx = 1 if cond else 2
    if idx >= len(args):
        return False  # IF(FALSE, x) -> FALSE
    br = args[idx]
    if br[0] == 'empty':
        tags.add('fn:IF:empty-branch')
        return 0.0
    v = _ev(br, env, tags, root)
    if isinstance(v, list):
        if len(v) == 1 and len(v[0]) == 1 and not getattr(v, 'multi', False):
            if isinstance(v[0][0], Blank) and not root:
                # a selected reference to a blank cell is 0 in arithmetic and "" in text context
                raise _Outside('if-returns-blank-reference')
            return v  # still a reference (Ref) or a 1x1 array: _scalar() dereferences it where a scalar is needed
        raise _Outside('if-array-branch')
    return v
