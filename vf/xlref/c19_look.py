"""Reference definitions of Excel's search functions for C19 (linear scans).

Written from Excel's documented behaviour; nothing here comes from the code
under test.  Values are float | bool | str | Err | BLANK (see vf.sut).  Every
function returns (value, tag); value None = outside the asserted domain (the
caller then asserts only the weak form).  A tuple value = several admissible
answers."""
from ..sut import Err, Blank, BLANK
from . import core as X

NA, REF, VALUE, DIV0 = X.NA, X.REF, X.VALUE, X.DIV0


def kind(v):
    """num | text | bool | blank | err   (numeric-looking text is still text)"""
    k = X.kind(v)
    return 'text' if k == 'numtext' else k


# --------------------------------------------------------------------- wildcards
def tokenize(pat):
    """Excel wildcard pattern -> list of ('lit', ch) | ('one',) | ('any',).
    None when the pattern contains a tilde that is not followed by ? or *
    (`~~`, `~x`, trailing `~`): outside the asserted domain."""
    out, i = [], 0
    while i < len(pat):
        ch = pat[i]
        if ch == '~':
            if i + 1 < len(pat) and pat[i + 1] in '?*':
                out.append(('lit', pat[i + 1]))
                i += 2
                continue
            return None
        out.append(('one',) if ch == '?' else ('any',) if ch == '*' else ('lit', ch))
        i += 1
    return out


def is_pattern(tokens):
    return any(t[0] != 'lit' for t in tokens)


def literal_of(tokens):
    return ''.join(t[1] for t in tokens if t[0] == 'lit')


def wmatch(tokens, s, fold=True, whole=True, one_optional=False):
    """Whole-string wildcard match (case-insensitive).  The keyword switches
    describe *wrong* variants and are used only to name the rule a disagreement
    belongs to (prefix match; `?` allowed to match nothing; case-sensitive)."""
    if fold:
        s = s.lower()
    # positions of s reachable after consuming the tokens so far
    cur = {0}
    for t in tokens:
        nxt = set()
        for p in cur:
            if t[0] == 'lit':
                c = t[1].lower() if fold else t[1]
                if p < len(s) and s[p] == c:
                    nxt.add(p + 1)
            elif t[0] == 'one':
                if p < len(s):
                    nxt.add(p + 1)
                if one_optional:
                    nxt.add(p)
            else:
                nxt.update(range(p, len(s) + 1))
        cur = nxt
        if not cur:
            return False
    return (len(s) in cur) if whole else bool(cur)


def text_eq(a, b):
    return a.lower() == b.lower()


# --------------------------------------------------------------------- MATCH
def match_exact(key, vec):
    """MATCH(key, vec, 0): 1-based position of the first element equal to key.
    Elements of another kind, blanks and errors never match.  Text is compared
    case-insensitively and the key is a wildcard pattern.
    -> (float | NA | None, tag, position-class)"""
    k = kind(key)
    if k in ('blank', 'err'):
        return None, 'exact:key-' + k, 'n/a'
    tokens = None
    if k == 'text':
        tokens = tokenize(key)
        if tokens is None:
            return None, 'exact:tilde', 'n/a'
    hits, case_only = [], False
    for i, e in enumerate(vec):
        if kind(e) != k:
            continue
        if k == 'text':
            if is_pattern(tokens) and e == '':
                return None, 'exact:wild-vs-empty-text', 'n/a'
            ok = wmatch(tokens, e)
            if ok and not hits:
                case_only = not wmatch(tokens, e, fold=False)
        elif k == 'num':
            ok = e == key
        else:
            ok = e is key or e == key
        if ok:
            hits.append(i)
    same_kind = any(kind(e) == k for e in vec)
    if not hits:
        return NA, ('exact:absent' if same_kind else 'exact:other-type'), ('absent' if same_kind else 'other-type')
    if k == 'text':
        tag = 'exact:wild' if is_pattern(tokens) else 'exact:escape' if literal_of(tokens) != key else 'exact:text'
        if case_only:
            tag += '-case'
    else:
        tag = 'exact:' + k
    pos = 'dup' if len(hits) > 1 else ('first' if hits[0] == 0 else 'inner')
    return float(hits[0] + 1), tag, pos


def strictly_sorted(vec, direction):
    """All elements of one kind (num, plain text or bool) and strictly
    ascending (direction 1) / descending (-1) in Excel's order."""
    if not vec:
        return False
    k = kind(vec[0])
    if k not in ('num', 'text', 'bool'):
        return False
    for e in vec:
        if kind(e) != k:
            return False
    for a, b in zip(vec, vec[1:]):
        c, tag = X.compare(a, b)
        if abs(c) == 2 or c != -direction:
            return False
    if k == 'text' and any(not X._PLAIN.match(e) for e in vec):
        return False
    return True


def match_approx(key, vec, direction):
    """MATCH(key, vec, 1) on strictly ascending data: position of the last
    element <= key; MATCH(key, vec, -1) on strictly descending data: position
    of the last element >= key; #N/A when there is none or when key is of
    another kind than the data.  -> (float | NA | None, tag, position-class)"""
    if not strictly_sorted(vec, direction):
        return None, 'approx:unsorted', 'n/a'
    k = kind(key)
    if k in ('blank', 'err'):
        return None, 'approx:key-' + k, 'n/a'
    if k == 'text' and not X._PLAIN.match(key):
        return None, 'approx:key-collation', 'n/a'
    name = 'asc' if direction > 0 else 'desc'
    if k != kind(vec[0]):
        return NA, 'approx-%s:other-type' % name, 'other-type'
    best, at = None, False
    for i, e in enumerate(vec):
        c, _ = X.compare(e, key)
        if c == 0:
            best, at = i, True
        elif (c < 0) == (direction > 0):
            best = i
    if best is None:
        return NA, 'approx-%s:none' % name, 'none'
    if at:
        pos = 'at-key-case' if (k == 'text' and vec[best] != key) else 'at-key'
    elif best == len(vec) - 1:
        pos = 'beyond-last'
    else:
        pos = 'between'
    return float(best + 1), 'approx-%s:%s' % (name, pos), pos


# --------------------------------------------------------------------- INDEX
def cellval(e):
    """What a formula sees when its result is a blank cell: 0."""
    return 0.0 if isinstance(e, Blank) else e


def index2(tbl, r, c):
    """INDEX(tbl, r, c) with numeric r, c (truncated).  0 is asserted only on
    a dimension of size 1 (the whole row/column is then one element)."""
    nr, nc = len(tbl), len(tbl[0])
    ri, ci = int(r), int(c)
    frac = ri != r or ci != c
    neg = ri < 0 or ci < 0
    beyond = ri > nr or ci > nc
    if neg and beyond:
        return (VALUE, REF), 'index:negative+beyond'
    if neg:
        return VALUE, 'index:negative'
    if beyond:
        return REF, 'index:beyond-row' if ri > nr else 'index:beyond-col'
    zero = False
    if ri == 0:
        if nr != 1:
            return None, 'index:zero-row'
        ri, zero = 1, True
    if ci == 0:
        if nc != 1:
            return None, 'index:zero-col'
        ci, zero = 1, True
    e = tbl[ri - 1][ci - 1]
    tag = 'index:zero-dim1' if zero else 'index:frac' if frac else 'index:blank' if isinstance(e, Blank) else 'index:in'
    return cellval(e), tag


def index1(vec, k):
    """INDEX(vector, k): k-th element of a row or column vector."""
    ki = int(k)
    if ki < 0:
        return VALUE, 'index1:negative'
    if ki == 0:
        return None, 'index1:zero'
    if ki > len(vec):
        return REF, 'index1:beyond'
    e = vec[ki - 1]
    return cellval(e), ('index1:frac' if ki != k else 'index1:blank' if isinstance(e, Blank) else 'index1:in')


# --------------------------------------------------------------------- LOOKUP family
def lookup_vec(key, kv, rv):
    p, tag, pos = match_approx(key, kv, 1)
    if p is None or isinstance(p, Err):
        return p, tag, pos
    return cellval(rv[int(p) - 1]), tag, pos


def lookup_array(key, tbl):
    """Array form: wider than tall -> search the first row, answer from the
    last row; otherwise search the first column, answer from the last column."""
    nr, nc = len(tbl), len(tbl[0])
    if nc > nr:
        return lookup_vec(key, list(tbl[0]), list(tbl[-1]))
    return lookup_vec(key, [row[0] for row in tbl], [row[-1] for row in tbl])


def xlookup_table(key, keys, results_of, n_results, idx, exact):
    """Common part of VLOOKUP/HLOOKUP.  keys = first column (row); results_of(i)
    = i-th column (row), 1-based; idx numeric (truncated)."""
    ii = int(idx)
    if exact:
        p, tag, pos = match_exact(key, keys)
    else:
        p, tag, pos = match_approx(key, keys, 1)
    if p is None:
        return None, tag, pos
    if ii < 1:
        # documented: index < 1 -> #VALUE! (with an absent key #N/A is accepted too: the order of the two tests is not documented)
        return ((VALUE, p) if isinstance(p, Err) else VALUE), 'table:index<1', pos
    if ii > n_results:
        if isinstance(p, Err):
            return (REF, p), 'table:index-beyond+absent', pos
        return REF, 'table:index-beyond', pos
    if isinstance(p, Err):
        return p, tag, pos
    e = results_of(ii)[int(p) - 1]
    if isinstance(e, Blank):
        tag += '+blank-result'
    return cellval(e), tag, pos


def vlookup(key, tbl, idx, exact):
    return xlookup_table(key, [row[0] for row in tbl], lambda i: [row[i - 1] for row in tbl], len(tbl[0]), idx, exact)


def hlookup(key, tbl, idx, exact):
    return xlookup_table(key, list(tbl[0]), lambda i: list(tbl[i - 1]), len(tbl), idx, exact)


# --------------------------------------------------------------------- criteria
OPS = ('>=', '<=', '<>', '>', '<', '=')


def parse_criterion(c):
    """-> dict(op, kind, operand[, tokens]) or None (outside the asserted domain:
    blank / error criteria, a bare operator, lone tildes, operands that look
    like errors, dates, percentages ...)."""
    if isinstance(c, bool):
        return {'op': '=', 'kind': 'bool', 'operand': c, 'explicit': False}
    if isinstance(c, float):
        return {'op': '=', 'kind': 'num', 'operand': c, 'explicit': False}
    if not isinstance(c, str):
        return None
    if c == '':
        return {'op': '=', 'kind': 'empty', 'operand': '', 'explicit': False}
    op, rest, explicit = '=', c, False
    for o in OPS:
        if c.startswith(o):
            op, rest, explicit = o, c[len(o):], True
            break
    if rest == '':
        return None
    if X.is_numtext(rest):
        if rest != rest.strip(' '):
            return None
        return {'op': op, 'kind': 'num', 'operand': float(rest), 'explicit': explicit}
    if rest.upper() in ('TRUE', 'FALSE'):
        return {'op': op, 'kind': 'bool', 'operand': rest.upper() == 'TRUE', 'explicit': explicit}
    if rest[0] == '#' or any(ch in rest for ch in '/%$:,') or rest[0] in '+-.' or rest[0].isdigit():
        return None
    tokens = tokenize(rest)
    if tokens is None:
        return None
    return {'op': op, 'kind': 'text', 'operand': rest, 'tokens': tokens, 'explicit': explicit}


def elem_match(cr, e):
    """Does element e satisfy criterion cr?  -> (True | False | None, tag).
    None = Excel's answer is not certain to me (or contradicts the 'within
    their own type' wording of the property): the case is then not asserted."""
    ek = kind(e)
    op, ck = cr['op'], cr['kind']
    if ek == 'text' and X.is_numtext(e) and e != '':
        return None, 'numeric-text-cell'
    if ck == 'empty':
        if ek == 'blank':
            return True, 'empty:blank'
        if e == '':
            return True, 'empty:emptystr'
        return False, 'empty:other'
    if op == '<>':
        if ek != ck:
            return None, 'ne:other-kind'
        if ck == 'text':
            if is_pattern(cr['tokens']):
                m = wmatch(cr['tokens'], e)
                return (not m), 'ne-wild:' + ('match' if m else 'nomatch')
            m = wmatch(cr['tokens'], e)
            pre = 'ne-escape' if literal_of(cr['tokens']) != cr['operand'] else 'ne-text'
            if not m:
                return True, pre + ':diff'
            return False, (pre + ':same' if wmatch(cr['tokens'], e, fold=False) else pre + ':case')
        return e != cr['operand'], 'ne-%s:%s' % (ck, ek)
    if op == '=':
        if ck == 'text':
            toks = cr['tokens']
            if not is_pattern(toks):
                if ek != 'text':
                    return False, 'eq-text:other-kind'
                if not wmatch(toks, e):
                    return False, 'eq-text:diff'
                return True, ('eq-text:same' if wmatch(toks, e, fold=False) else 'eq-text:case')
            if ek == 'blank':
                return False, 'wild:blank'
            if ek == 'err':
                return False, 'wild:err'
            if ek != 'text':
                return False, 'wild:other-kind'
            if wmatch(toks, e):
                return True, ('wild:match' if wmatch(toks, e, fold=False) else 'wild:match-case')
            if wmatch(toks, e, whole=False):
                return False, 'wild:nomatch-longer'
            if wmatch(toks, e, one_optional=True):
                return False, 'wild:nomatch-qmark-needs-char'
            if wmatch(toks, e, whole=False, one_optional=True):
                return False, 'wild:nomatch-longer+qmark'
            return False, 'wild:nomatch'
        if ek != ck:
            return False, 'eq-%s:%s' % (ck, ek)
        return e == cr['operand'], 'eq-%s:%s' % (ck, ek)
    # ordering operators
    if ck == 'num':
        if ek != 'num':
            return False, 'ord-num:' + ek
        c = (e > cr['operand']) - (e < cr['operand'])
        tag = 'ord-num:num'
    elif ck == 'bool':
        if ek != 'bool':
            return False, 'ord-bool:' + ek
        c = (e > cr['operand']) - (e < cr['operand'])
        tag = 'ord-bool:bool'
    else:
        if is_pattern(cr['tokens']) or literal_of(cr['tokens']) != cr['operand']:
            return None, 'ord-text:wildcard'
        if ek in ('blank',) or e == '':
            return None, 'ord-text:empty'
        if ek != 'text':
            return False, 'ord-text:' + ek
        c, t = X.compare(e, cr['operand'])
        if abs(c) == 2:
            return None, 'ord-text:collation'
        raw = (e > cr['operand']) - (e < cr['operand'])
        tag = 'ord-text:plain' if raw == c else 'ord-text:case'
    return {'>': c > 0, '<': c < 0, '>=': c >= 0, '<=': c <= 0}[op], tag


def criteria(fn, rng, crit, acc=None):
    """COUNTIF / SUMIF / AVERAGEIF over flat lists.  -> (value | None, tags, matched)"""
    cr = parse_criterion(crit)
    if cr is None:
        return None, ['criterion-outside-domain'], None
    ms, tags = [], []
    for e in rng:
        m, t = elem_match(cr, e)
        ms.append(m)
        tags.append(t)
    if any(m is None for m in ms):
        return None, tags, ms
    if fn == 'COUNTIF':
        return float(sum(ms)), tags, ms
    acc = rng if acc is None else acc
    sel = [a for a, m in zip(acc, ms) if m]
    if any(kind(a) == 'text' and X.is_numtext(a) and a != '' for a in sel):
        return None, tags + ['numeric-text-in-sum-range'], ms
    errs = [a for a in sel if isinstance(a, Err)]
    if errs:
        return tuple(dict.fromkeys(errs)) if len(set(errs)) > 1 else errs[0], tags + ['acc:error'], ms
    nums = [a for a in sel if kind(a) == 'num']
    if fn == 'SUMIF':
        return float(sum(nums)), tags, ms
    if not nums:
        return DIV0, tags + ['acc:none'], ms
    return float(sum(nums)) / len(nums), tags, ms
