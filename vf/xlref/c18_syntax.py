"""C18: an independent, deliberately *partial* reading of Excel's formula
grammar.  Nothing here is derived from the code under test.

`classify(text)` returns (verdict, cls, detail):

  ('invalid', cls, detail)  the text is certainly not a formula; cls is one of
        the classes the property names: unbalanced-paren, unbalanced-brace,
        unterminated-string, stray-char, missing-operand, adjacent-operands,
        ragged-array; detail names the local pattern (signature component)
  ('valid', 'valid', feats)  the text is a formula of the sub-language this
        module is certain about
  ('unknown', why, '')       no claim (anything quoted sheet names, structured
        references, non-space white space, non-ASCII names, R1C1 look-alikes,
        '%%', '1.', '1E5', ... could be involved in)

Two levels:
  A  character level (string literals removed): bracket balance, unterminated
     string, characters that occur nowhere in the grammar ('~', '|', '`', and
     ';' outside an array constant).  Not applied when the text contains ' [ ]
     (a quoted sheet name or a structured reference may contain anything).
  B  token level: the whole body must lex into tokens of the certain classes,
     then a small state machine looks for a missing operand, two adjacent
     operands and ragged array constants.
"""
import re

ERRORS = ('#NULL!', '#DIV/0!', '#VALUE!', '#REF!', '#NAME?', '#NUM!', '#N/A')
STRAY = '~|`'
MAXCOL, MAXROW = 16384, 1048576

# numeric literal forms the property names: d+, d+.d+, .d+, each with E[+-]d+
NUM = r'(?:[0-9]+(?:\.[0-9]+)?|\.[0-9]+)(?:[eE][+-][0-9]+)?'
_re_num = re.compile(NUM, re.A)
_re_numeric_formula = re.compile(r'^ *= *(?P<sign>-?) *(?P<num>%s) *$' % NUM, re.A)
_re_word = re.compile(r'[A-Za-z_][A-Za-z0-9_.]*', re.A)
_re_cell = re.compile(r'\$?([A-Za-z]{1,3})\$?([1-9][0-9]{0,6})', re.A)
_re_cell_like = re.compile(r'^[A-Za-z]{1,4}[0-9]+$', re.A)
_re_r1c1_like = re.compile(r'^(?:[Rr][0-9]*[Cc]?[0-9]*|[Cc][0-9]*)$', re.A)
_re_prefix_value = re.compile(r'^( *)=')
_re_prefix_array = re.compile(r'^( *)\{( *)=(?P<body>.*)\}( *)$', re.S)


def split_formula(text):
    """-> (form, body) with form in 'value' | 'array' | None.  Only the plain
    spellings are recognised (leading blanks, '=' or '{=...}')."""
    m = _re_prefix_array.match(text)
    if m:
        return 'array', m.group('body')
    m = _re_prefix_value.match(text)
    if m:
        return 'value', text[m.end():]
    return None, None


def strip_strings(body):
    """Remove "..." literals ('""' is an escaped quote).  -> (stripped, terminated)
    Every literal is replaced by a single '\\x00' placeholder."""
    out, i, n = [], 0, len(body)
    while i < n:
        ch = body[i]
        if ch == '"':
            j = i + 1
            while True:
                k = body.find('"', j)
                if k < 0:
                    return ''.join(out), False
                if k + 1 < n and body[k + 1] == '"':
                    j = k + 2
                    continue
                break
            out.append('\x00')
            i = k + 1
        else:
            out.append(ch)
            i += 1
    return ''.join(out), True


def col_index(letters):
    v = 0
    for ch in letters.upper():
        v = v * 26 + ord(ch) - 64
    return v


# ---------------------------------------------------------------- level A
def level_a(body):
    """-> None | (cls, detail)"""
    if "'" in body or '[' in body or ']' in body:
        return None
    stripped, ok = strip_strings(body)
    if not ok:
        return 'unterminated-string', 'quote'
    stack = []
    for ch in stripped:
        if ch in '({':
            stack.append(ch)
        elif ch == ')':
            if '(' not in stack:
                return 'unbalanced-paren', 'close-without-open'
            if stack[-1] != '(':
                return 'unbalanced-paren', 'crossed-with-brace'
            stack.pop()
        elif ch == '}':
            if '{' not in stack:
                return 'unbalanced-brace', 'close-without-open'
            if stack[-1] != '{':
                return 'unbalanced-brace', 'crossed-with-paren'
            stack.pop()
        elif ch == ';':
            if '{' not in stack:
                return 'stray-char', 'semicolon-outside-array'
        elif ch in STRAY:
            return 'stray-char', {'~': 'tilde', '|': 'bar', '`': 'backtick'}[ch]
    if stack:
        return ('unbalanced-paren', 'open-without-close') if stack[-1] == '(' else \
            ('unbalanced-brace', 'open-without-close')
    return None


# ---------------------------------------------------------------- level B: lexer
class Unknown(Exception):
    pass


def lex(body):
    """-> list of (kind, text).  kinds: ws num str bool err ref name func op
    pct colon comma lpar rpar lbrace rbrace semi.  Raises Unknown when any part
    of the body is outside the certain token classes."""
    toks, i, n = [], 0, len(body)
    while i < n:
        ch = body[i]
        if ch == ' ':
            j = i
            while j < n and body[j] == ' ':
                j += 1
            toks.append(('ws', body[i:j]))
            i = j
            continue
        if ch == '"':
            j = i + 1
            while True:
                k = body.find('"', j)
                if k < 0:
                    raise Unknown('unterminated-string')
                if k + 1 < n and body[k + 1] == '"':
                    j = k + 2
                    continue
                break
            toks.append(('str', body[i:k + 1]))
            i = k + 1
            continue
        if ch.isdigit() and ch.isascii() or (ch == '.' and i + 1 < n and body[i + 1] in '0123456789'):
            m = _re_num.match(body, i)
            j = m.end()
            if j < n and (body[j].isalnum() or body[j] in '._$#!\\?'):
                raise Unknown('number-followed-by-word-char')
            toks.append(('num', m.group()))
            i = j
            continue
        if ch == '#':
            for e in ERRORS:
                if body.startswith(e, i):
                    j = i + len(e)
                    if j < n and (body[j].isalnum() or body[j] in '._$#!\\?"'):
                        raise Unknown('error-followed-by-word-char')
                    toks.append(('err', e))
                    i = j
                    break
            else:
                raise Unknown('hash')
            continue
        if ch == '$' or (ch.isascii() and (ch.isalpha() or ch == '_')):
            m = _re_cell.match(body, i)
            if m and not (m.end() < n and (body[m.end()].isalnum() or body[m.end()] in '._$#!\\?(')):
                if col_index(m.group(1)) <= MAXCOL and int(m.group(2)) <= MAXROW:
                    if col_index(m.group(1)) == MAXCOL or int(m.group(2)) == MAXROW:
                        raise Unknown('grid-edge')   # last row / column: names collapse (C04's finding)
                    toks.append(('ref', m.group()))
                    i = m.end()
                    continue
                raise Unknown('cell-out-of-grid')
            if ch == '$':
                raise Unknown('dollar')
            m = _re_word.match(body, i)
            w, j = m.group(), m.end()
            if j < n and (not body[j].isascii() or body[j] in '$#\\?'):
                raise Unknown('word-followed-by-odd-char')
            if _re_cell_like.match(w) or _re_r1c1_like.match(w):
                raise Unknown('reference-look-alike')
            up = w.upper()
            if up == 'XFD':
                raise Unknown('grid-edge')      # "A1:XFD": last column, names collapse (C04's finding)
            if j < n and body[j] == '(':
                if up in ('TRUE', 'FALSE'):
                    raise Unknown('logical-as-function')
                toks.append(('func', w + '('))
                i = j + 1
                continue
            if j < n and body[j] == '!':
                # plain sheet prefix: must be followed by a cell, a name or an error
                k = j + 1
                m2 = _re_cell.match(body, k)
                if m2 and not (m2.end() < n and (body[m2.end()].isalnum() or body[m2.end()] in '._$#!\\?(')):
                    if col_index(m2.group(1)) < MAXCOL and int(m2.group(2)) < MAXROW:
                        toks.append(('ref', body[i:m2.end()]))
                        i = m2.end()
                        continue
                raise Unknown('sheet-prefix')
            if up in ('TRUE', 'FALSE'):
                toks.append(('bool', w))
            else:
                toks.append(('name', w))
            i = j
            continue
        two = body[i:i + 2]
        if two in ('<=', '>=', '<>'):
            toks.append(('op', two))
            i += 2
            continue
        if ch in '+-*/^&=<>':
            toks.append(('op', ch))
        elif ch == '%':
            toks.append(('pct', ch))
        elif ch == ':':
            toks.append(('colon', ch))
        elif ch == ',':
            toks.append(('comma', ch))
        elif ch == '(':
            toks.append(('lpar', ch))
        elif ch == ')':
            toks.append(('rpar', ch))
        elif ch == '{':
            toks.append(('lbrace', ch))
        elif ch == '}':
            toks.append(('rbrace', ch))
        elif ch == ';':
            toks.append(('semi', ch))
        else:
            raise Unknown('char:%s' % ('non-ascii' if not ch.isascii() else
                                       'space-like' if ch.isspace() else repr(ch)))
        i += 1
    # a number next to ':' is a row reference ("1:2", "A1 1:2"), never a literal operand
    sig = [j for j, (k, _) in enumerate(toks) if k != 'ws']
    for a, j in enumerate(sig):
        if toks[j][0] in ('num', 'bool', 'str'):
            near = [toks[sig[b]][0] for b in (a - 1, a + 1) if 0 <= b < len(sig)]
            if 'colon' in near:
                # "TRUE:B2" is read as a name by some parsers, "1.5:2" / '"a":2' are nothing I am certain about
                if toks[j][0] != 'num' or not toks[j][1].isdigit():
                    raise Unknown('literal-in-range')
                if int(toks[j][1]) >= MAXROW:
                    raise Unknown('grid-edge')
                toks[j] = ('ref', toks[j][1])
    return toks


# ---------------------------------------------------------------- level B: grammar
LIT = ('num', 'str', 'bool')


def _array(toks, i):
    """toks[i] is the token after '{'.  -> (next index, None | (cls, detail)).
    Only constants (optionally signed numbers) are understood."""
    rows, row, expect = [], 0, True
    n = len(toks)
    while i < n:
        k, t = toks[i]
        if k == 'ws':
            i += 1
            continue
        if expect:
            if k == 'op' and t in '+-' and i + 1 < n and toks[i + 1][0] == 'num':
                i += 2
            elif k in LIT or k == 'err':
                i += 1
            else:
                raise Unknown('array-element')
            row += 1
            expect = False
            continue
        if k == 'comma':
            expect = True
        elif k == 'semi':
            rows.append(row)
            row, expect = 0, True
        elif k == 'rbrace':
            rows.append(row)
            if len(set(rows)) > 1:
                return i + 1, ('ragged-array', 'rows-%s' % '-'.join(str(min(r, 3)) for r in rows[:3]))
            return i + 1, None
        else:
            raise Unknown('array-content')
        i += 1
    raise Unknown('array-open')


def _opclass(k, t):
    return {'op': 'binop', 'pct': 'pct', 'colon': 'colon', 'comma': 'comma'}[k]


def grammar(toks):
    """-> ('valid', feats) | ('invalid', cls, detail); raises Unknown.
    detail of missing-operand: '<what precedes>~<offending token>' with
    start lpar func argsep union binop unary colon isect ~ binop pct colon comma rpar end;
    detail of adjacent-operands: '<previous operand token>~<next token>~ws|nows'."""
    stack = []          # 'P' | ['F', nargs_seen]
    state = 'E'         # E = expecting an operand, A = after an operand
    pending = None      # operator waiting for its right operand (None right after '(' ',' or at start)
    before = 'start'    # what precedes the expected operand
    prev = None         # kind of the operand just completed: lit | ref | grp
    prev_tok = None
    ws = False
    feats = set()
    i, n = 0, len(toks)
    while i < n:
        k, t = toks[i]
        if k == 'ws':
            ws = True
            i += 1
            continue
        if state == 'E':
            if k == 'op' and t in '+-':
                pending = before = 'unary'
                feats.add('unary')
            elif k in LIT or k in ('err', 'ref', 'name'):
                state, prev = 'A', ('lit' if k in LIT else 'ref')
                prev_tok = k
                pending = None
                feats.add(k)
            elif k == 'lpar':
                stack.append('P')
                pending, before = None, 'lpar'
                feats.add('paren')
            elif k == 'func':
                stack.append(['F', 0])
                pending, before = None, 'func'
                feats.add('func')
            elif k == 'lbrace':
                i, bad = _array(toks, i + 1)
                if bad:
                    return ('invalid',) + bad
                state, prev, prev_tok = 'A', 'lit', 'array'
                pending = None
                feats.add('array')
                ws = False
                continue
            elif k == 'rpar':
                if not stack:
                    return 'invalid', 'unbalanced-paren', 'close-without-open'
                top = stack[-1]
                if pending or top == 'P':
                    return 'invalid', 'missing-operand', '%s~rpar' % before
                stack.pop()     # F: zero-argument call or trailing empty argument
                feats.add('empty-arg' if top[1] else 'zero-arg')
                state, prev, prev_tok = 'A', 'grp', 'call'
                pending = None
            elif k == 'comma':
                if not pending and stack and stack[-1] != 'P':
                    stack[-1][1] += 1
                    feats.add('empty-arg')
                    before = 'argsep'
                else:
                    return 'invalid', 'missing-operand', '%s~comma' % before
            elif k in ('op', 'pct', 'colon'):
                return 'invalid', 'missing-operand', '%s~%s' % (before, _opclass(k, t))
            elif k in ('rbrace', 'semi'):
                return 'invalid', ('unbalanced-brace' if k == 'rbrace' else 'stray-char'), \
                    ('close-without-open' if k == 'rbrace' else 'semicolon-outside-array')
            else:
                raise Unknown('token:%s' % k)
        else:  # state A
            if k == 'pct':
                if ws:
                    raise Unknown('space-before-percent')
                if prev_tok == 'pct':
                    raise Unknown('double-percent')
                prev, prev_tok = 'grp', 'pct'
                feats.add('percent')
            elif k in ('op', 'colon'):
                if k == 'colon' and prev_tok in ('pct', 'str', 'bool', 'array'):
                    raise Unknown('range-of-a-value')     # "x%:y": certainly odd, but which class?  no claim
                state = 'E'
                pending = before = _opclass(k, t)
                feats.add('binary' if k == 'op' else 'range-op')
            elif k == 'comma':
                state = 'E'
                if stack and stack[-1] != 'P':
                    stack[-1][1] += 1
                    pending, before = None, 'argsep'
                else:
                    pending = before = 'union'
                    feats.add('union')
            elif k == 'rpar':
                if not stack:
                    return 'invalid', 'unbalanced-paren', 'close-without-open'
                stack.pop()
                prev, prev_tok = 'grp', 'rpar'
            elif k in LIT or k in ('err', 'ref', 'name', 'lpar', 'func', 'lbrace'):
                nxt = 'lit' if (k in LIT or k == 'lbrace') else ('grp' if k in ('lpar', 'func') else 'ref')
                if prev_tok == 'err' and not ws:
                    raise Unknown('error-then-operand')
                if not ws:
                    return 'invalid', 'adjacent-operands', '%s~%s~nows' % (prev_tok, k)
                if prev == 'lit' or nxt == 'lit' or prev_tok == 'pct':   # x% is a value, never a reference
                    return 'invalid', 'adjacent-operands', '%s~%s~ws' % (prev_tok, k)
                # blank between two reference-like operands: intersection operator
                state = 'E'
                pending = before = 'isect'
                feats.add('intersect')
                ws = False
                continue    # re-read this token as the operand
            elif k in ('rbrace', 'semi'):
                return 'invalid', ('unbalanced-brace' if k == 'rbrace' else 'stray-char'), \
                    ('close-without-open' if k == 'rbrace' else 'semicolon-outside-array')
            else:
                raise Unknown('token:%s' % k)
        ws = False
        i += 1
    if state == 'E':
        if stack and not pending and before in ('lpar', 'func', 'argsep'):
            return 'invalid', 'unbalanced-paren', 'open-without-close'
        return 'invalid', 'missing-operand', '%s~end' % before
    if stack:
        return 'invalid', 'unbalanced-paren', 'open-without-close'
    return 'valid', sorted(feats)


def classify(text):
    if '\n' in text or '\r' in text:
        # a line break is white space in Excel and legal inside a string
        # literal: the character-level claims stay certain, nothing else is claimed
        form, body = split_formula(text.replace('\n', ' ').replace('\r', ' '))
        if form is None:
            return 'unknown', 'prefix', ''
        a = level_a(body)
        if a:
            return 'invalid', a[0], a[1]
        return 'unknown', 'line-break', ''
    form, body = split_formula(text)
    if form is None:
        return 'unknown', 'prefix', ''
    a = level_a(body)
    if a:
        return 'invalid', a[0], a[1]
    if "'" in body or '[' in body or ']' in body:
        return 'unknown', 'quoted-or-bracketed', ''
    try:
        toks = lex(body)
        r = grammar(toks)
    except Unknown as ex:
        return 'unknown', str(ex), ''
    if r[0] == 'valid':
        return 'valid', 'valid', r[1]
    return r


def numeric_formula(text):
    """'= 007.50E+1 ' -> (sign, literal) when the text is exactly one numeric
    literal of the forms the property names, else None."""
    m = _re_numeric_formula.match(text)
    if not m:
        return None
    return m.group('sign'), m.group('num')


# ---------------------------------------------------------------- token classes for the NT rule
_re_loose = re.compile(r'''
    (?P<string>"(?:[^"]|"")*")
  | (?P<error>\#(?:NULL!|DIV/0!|VALUE!|REF!|NUM!|NAME\?|N/A))
  | (?P<number>(?:[0-9]+(?:\.[0-9]*)?|\.[0-9]+)(?:[eE][+-]?[0-9]+)?)
  | (?P<word>[^\W\d][\w.]*)
  | (?P<operator>[-+*/^&=<>%:])
  | (?P<separator>[,;])
  | (?P<bracket>[(){}])
  | (?P<space>\s+)
  | (?P<other>.)
''', re.X | re.S)


def token_classes(text):
    return sorted({m.lastgroup for m in _re_loose.finditer(text)})
