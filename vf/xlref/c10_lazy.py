"""C10 reference: brute-force elementary cycles, a lazy workbook evaluator and
the three-valued expectation per cell (DESIGN.md, C10).

Nothing here comes from the code under test.  A workbook is plain JSON:

  cells : list of [book, sheet, col, row, expr]        (col, row 1-based ints)
  names : list of [book, name, target]                 target = ['R',...] | ['RG',...]

  expr  : number | true/false
        | ['E', '#N/A']                      error literal (rendered =NA() / =1/0 ...)
        | ['R', book, sheet, col, row]       cell reference
        | ['RG', book, sheet, c1, r1, c2, r2]  rectangle (only as a SUM argument)
        | ['N', book, name]                  defined name
        | ['+', e, e, ...] | ['>', e, e]
        | ['IF', c, a, b] | ['IFS', c1, v1, c2, v2, ...]
        | ['IFERROR', x, y] | ['IFNA', x, y] | ['SUM', arg, ...] | ['ISERROR', x]

Asserted domain (checked here, a workbook outside it gets no per-cell
expectation): operands of + and > are numbers, blanks or errors; conditions are
logicals, numbers, blanks or errors; conditions of IFS and first arguments of
IFNA never are circular; SUM arguments are rectangles / names / numbers.
"""
from ..sut import Err, CIRC, BLANK, Blank

NA = Err('#N/A')


class _Tok:
    def __init__(self, n):
        self.n = n

    def __repr__(self):
        return self.n


UNK = _Tok('UNK')        # outside the asserted domain


class AnyErr:
    """An error value that is one of `cands` (error texts; 'TAINT' marks the
    phase-1 result of an evaluation that re-entered itself)."""

    def __init__(self, cands):
        self.cands = frozenset(cands)

    def __repr__(self):
        return 'AnyErr(%s)' % '|'.join(sorted(self.cands))

    def __eq__(self, o):
        return isinstance(o, AnyErr) and o.cands == self.cands

    def __hash__(self):
        return hash(self.cands)


TAINT = AnyErr(['TAINT'])  # phase 1 only: evaluation re-entered itself


def cands(v):
    return v.cands if isinstance(v, AnyErr) else frozenset([v.t])


def tainted(v):
    return isinstance(v, AnyErr) and 'TAINT' in v.cands


class OutOfDomain(Exception):
    pass


def is_err(v):
    return isinstance(v, (Err, AnyErr))


# --------------------------------------------------------------------------
# brute-force elementary cycles (oracle for simple_cycles and for the
# classification of workbook cycles)
# --------------------------------------------------------------------------
def brute_cycles(graph, limit=None):
    """graph: {node: iterable of successors}; nodes must be sortable.
    Every elementary cycle exactly once, as a tuple that starts at its least
    node (DFS from the least node of each cycle, visiting only larger nodes)."""
    order = {v: i for i, v in enumerate(sorted(graph))}
    succ = {v: sorted((w for w in set(graph[v]) if w in order), key=order.get) for v in graph}
    out = []
    for s in sorted(graph, key=order.get):
        so = order[s]
        path, on = [s], {s}
        stack = [iter(succ[s])]
        while stack:
            for w in stack[-1]:
                if w == s:
                    out.append(tuple(path))
                    if limit and len(out) > limit:
                        raise OutOfDomain('too many cycles')
                elif order[w] > so and w not in on:
                    path.append(w)
                    on.add(w)
                    stack.append(iter(succ[w]))
                    break
            else:
                stack.pop()
                on.discard(path.pop())
    return out


def rot(cycle, key=None):
    """Rotation-normalised form of a cycle given as a node list."""
    c = list(cycle)
    i = c.index(min(c, key=key) if key else min(c))
    return tuple(c[i:] + c[:i])


# --------------------------------------------------------------------------
# workbook model
# --------------------------------------------------------------------------
class WB:
    def __init__(self, cells, names=()):
        self.cells = {}
        for b, s, c, r, e in cells:
            k = (b, s, c, r)
            if k in self.cells:
                raise OutOfDomain('duplicate cell')
            self.cells[k] = e
        self.names = {(b, n): t for b, n, t in names}
        self.keys = sorted(self.cells)

    def rect(self, rg):
        _, b, s, c1, r1, c2, r2 = rg
        return [(b, s, c, r) for r in range(min(r1, r2), max(r1, r2) + 1)
                for c in range(min(c1, c2), max(c1, c2) + 1)]


class Lazy:
    """Lazy evaluation: IF / IFS / IFERROR / IFNA evaluate only the selected
    branch.  `preset` gives values that replace evaluation (phase 2: cells on an
    active cycle are the circular error).  Records, per cell, every reference
    occurrence as (target, guarded, live, via) where guarded = inside a value
    branch of a lazy function, live = actually evaluated, via = 'cell' | 'range'
    | 'name' | 'name-range'."""

    def __init__(self, wb, preset=None, strict_ifs=False):
        self.wb = wb
        self.strict_ifs = strict_ifs  # an error in ANY condition of IFS is the result (used for `own` only)
        self.ifs_pos = 0              # > 0 while walking the k-th condition of an IFS
        self.preset = preset or {}
        self.memo = {}
        self.stack = []
        self.on = set()
        self.occ = {}
        self.cur = None
        self.unk_guard = False
        self.own = {}    # preset cell -> value of its own formula (all presets in place)
        self.inguard = 0  # > 0 while walking a guard whose branches contain references
        self.absorb = 0  # > 0 while walking the first argument of IFERROR / IFNA / ISERROR

    # -- cells
    def cell(self, k):
        if k in self.preset:
            return self.preset[k]
        if k not in self.wb.cells:
            return BLANK
        if k in self.memo:
            return self.memo[k]
        if k in self.on:
            return TAINT
        self.on.add(k)
        saved = self.cur, self.absorb, self.inguard, self.ifs_pos
        self.cur, self.absorb, self.inguard, self.ifs_pos = k, 0, 0, 0
        self.occ.setdefault(k, [])
        try:
            v = self.ev(self.wb.cells[k], True, False, None)
        finally:
            self.cur, self.absorb, self.inguard, self.ifs_pos = saved
            self.on.discard(k)
        if isinstance(v, Blank):
            v = 0.0  # a formula that returns a blank reference shows 0
        self.memo[k] = v
        return v

    def run(self):
        for k in self.wb.keys:
            if k in self.preset:
                # still walk the formula to record occurrences
                self.cur, self.absorb, self.inguard, self.ifs_pos = k, 0, 0, 0
                self.occ.setdefault(k, [])
                self.on.add(k)
                try:
                    self.own[k] = self.ev(self.wb.cells[k], True, False, None)
                finally:
                    self.on.discard(k)
                    self.cur = None
            else:
                self.cell(k)
        return self

    def note(self, target, guarded, live, via, gk, rect=None):
        if target in self.wb.cells:
            self.occ[self.cur].append((target, guarded, live, via, gk, self.absorb > 0, rect, self.inguard > 0))

    # -- references
    def ref(self, e, live, guarded, gk, via='cell'):
        k = (e[1], e[2], e[3], e[4])
        if via == 'cell' and self.ifs_pos:
            via = 'ifs-cond1' if self.ifs_pos == 1 else 'ifs-late-cond'
        self.note(k, guarded, live, via, gk)
        return self.cell(k) if live else None

    def area(self, e, live, guarded, gk, via='range'):
        vals = []
        rid = tuple(e[1:])
        for k in self.wb.rect(e):
            self.note(k, guarded, live, via, gk, rid)
            if live:
                vals.append(self.cell(k))
        return vals

    def name(self, e, live, guarded, gk, want_area):
        t = self.wb.names.get((e[1], e[2]))
        if t is None:
            raise OutOfDomain('unknown name')
        if t[0] == 'R':
            v = self.ref(t, live, guarded, gk, 'name')
            return [v] if want_area else v
        if not want_area:
            raise OutOfDomain('range name used as a scalar')
        return self.area(t, live, guarded, gk, 'name-range')

    # -- expressions
    def ev(self, e, live, guarded, gk):
        """live=False: dead walk (records occurrences, returns None)."""
        if isinstance(e, bool):
            return e
        if isinstance(e, (int, float)):
            return float(e)
        op = e[0]
        if op == 'E':
            return Err(e[1])
        if op == 'R':
            return self.ref(e, live, guarded, gk)
        if op == 'N':
            return self.name(e, live, guarded, gk, False)
        if op == 'RG':
            raise OutOfDomain('bare rectangle')
        if op == '+':
            vals = [self.ev(x, live, guarded, gk) for x in e[1:]]
            return self.add(vals) if live else None
        if op == '>':
            a, b = self.ev(e[1], live, guarded, gk), self.ev(e[2], live, guarded, gk)
            if not live:
                return None
            for v in (a, b):
                if v is UNK:
                    return UNK
            for v in (a, b):
                if is_err(v):
                    return self.err1([v])
            a, b = self.num(a), self.num(b)
            if a is UNK or b is UNK:
                return UNK
            return a > b
        if op == 'IF':
            c = self.guard_ev(e[1], e[2:], live, guarded, gk)
            sel = None
            res = None
            if live:
                t = self.truth(c)
                if t is UNK:
                    self.unk_guard = True
                    res = UNK
                elif is_err(t):
                    res = self.err1([t])
                else:
                    sel = 2 if t else 3
            for i in (2, 3):
                v = self.ev(e[i], live and sel == i, True, 'IF')
                if sel == i:
                    res = v
            return res if live else None
        if op == 'IFS':
            res, done = None, False
            pairs = list(zip(e[1::2], e[2::2]))
            cond_errs = []
            for pos_, (c, v) in enumerate(pairs):
                # every condition is walked as a strict, live reference position: only value branches are
                # avoidable, a condition never is (also a later one, also after a TRUE one)
                saved_pos, self.ifs_pos = self.ifs_pos, pos_ + 1
                try:
                    cv = self.guard_ev(c, e[2::2], live, guarded, gk)
                finally:
                    self.ifs_pos = saved_pos
                take = False
                if live and is_err(cv):
                    cond_errs.append(cv)
                if live and not done:
                    t = self.truth(cv)
                    if t is UNK:
                        self.unk_guard = True
                        res, done = UNK, True
                    elif is_err(t):
                        res, done = self.err1([t]), True
                    elif t:
                        take, done = True, True
                x = self.ev(v, take, True, 'IFS')
                if take:
                    res = x
            if live and not done:
                res = NA
            if live and self.strict_ifs and cond_errs and res is not UNK:
                res = self.err1(cond_errs)
            return res if live else None
        if op in ('IFERROR', 'IFNA'):
            self.absorb += 1
            try:
                x = self.guard_ev(e[1], e[2:], live, guarded, gk)
            finally:
                self.absorb -= 1
            take = False
            res = x
            if live:
                if x is UNK:
                    self.unk_guard = True
                    res = UNK
                elif op == 'IFERROR':
                    take = is_err(x)
                else:
                    if isinstance(x, AnyErr) and '#N/A' in x.cands or tainted(x):
                        self.unk_guard = True
                        res = UNK
                    else:
                        take = (x == NA)
            y = self.ev(e[2], take, True, op)
            if take:
                res = y
            if live and isinstance(res, Blank):
                res = 0.0
            return res if live else None
        if op == 'ISERROR':
            self.absorb += 1
            try:
                x = self.ev(e[1], live, guarded, gk)
            finally:
                self.absorb -= 1
            if not live:
                return None
            return UNK if x is UNK else is_err(x)
        if op == 'SUM':
            vals = []
            for a in e[1:]:
                if isinstance(a, list) and a[0] == 'RG':
                    vs = self.area(a, live, guarded, gk)
                    if live:
                        vals.extend(v for v in vs if not isinstance(v, (Blank, bool, str)) or is_err(v))
                elif isinstance(a, list) and a[0] == 'N':
                    vs = self.name(a, live, guarded, gk, True)
                    if live:
                        vals.extend(v for v in vs if not isinstance(v, (Blank, bool, str)) or is_err(v))
                else:
                    v = self.ev(a, live, guarded, gk)
                    if live:
                        if isinstance(v, (bool, str)) and not is_err(v):
                            return UNK
                        vals.append(v)
            return self.add(vals) if live else None
        raise OutOfDomain('unknown op %r' % (op,))

    def guard_ev(self, g, branches, live, guarded, gk):
        refs = any(has_refs(b) for b in branches)
        self.inguard += refs
        try:
            return self.ev(g, live, guarded, gk)
        finally:
            self.inguard -= refs

    @staticmethod
    def num(v):
        if isinstance(v, Blank):
            return 0.0
        if isinstance(v, bool) or isinstance(v, str):
            return UNK  # arithmetic on logicals / text is kept out of this oracle
        return v

    @staticmethod
    def truth(v):
        if v is UNK or is_err(v):
            return v
        if isinstance(v, Blank):
            return False
        if isinstance(v, bool):
            return v
        if isinstance(v, float):
            return v != 0
        return UNK  # text condition

    @staticmethod
    def err1(errs):
        """One error out of several candidates (which one is not asserted)."""
        cs = set()
        for x in errs:
            cs |= cands(x)
        if len(cs) == 1:
            return Err(next(iter(cs))) if 'TAINT' not in cs else TAINT
        return AnyErr(cs)

    def add(self, vals):
        if any(v is UNK for v in vals):
            return UNK
        errs = [v for v in vals if is_err(v)]
        if errs:
            return self.err1(errs)
        tot = 0.0
        for v in vals:
            v = self.num(v)
            if v is UNK:
                return UNK
            tot += v
        return tot


def has_refs(e):
    if not isinstance(e, list):
        return False
    if e[0] in ('R', 'RG', 'N'):
        return True
    return any(has_refs(x) for x in e[1:])


# --------------------------------------------------------------------------
# classification
# --------------------------------------------------------------------------
STRICT, SEL, UNSEL = 'strict', 'selected', 'unselected'


def edge_classes(occ):
    """occurrences per cell -> {(i, j): class}"""
    out = {}
    for i, lst in occ.items():
        for j, guarded, live, via, gk, ab, rect, ig in lst:
            c = STRICT if not guarded else (SEL if live else UNSEL)
            p = out.get((i, j))
            if p is None or (c == STRICT) or (c == SEL and p == UNSEL):
                out[(i, j)] = c
    return out


def closure(succ, start):
    seen, st = {start}, [start]
    while st:
        x = st.pop()
        for y in succ.get(x, ()):
            if y not in seen:
                seen.add(y)
                st.append(y)
    return seen




def analyse(cells, names=(), max_cycles=20000):
    """-> dict with the per-cell expectation.  Raises OutOfDomain.

    info[cell] = {'cls', 'sub', 'v', ...} with cls one of
      'circ'   exactly the circular error         (on a cycle of strict / selected references)
      'err'    an error value                     (lazy evaluation reaches such a cycle)
      'value'  exactly v                          (every cycle it lies on or can reach is harmless, or none)
      'either' an error value, or exactly v
      'unk'    nothing asserted
    """
    wb = WB(cells, names)
    p1 = Lazy(wb).run()
    if p1.unk_guard:
        raise OutOfDomain('guard outside the asserted domain')
    edges = edge_classes(p1.occ)
    succ_all, succ_dyn = {k: set() for k in wb.keys}, {k: set() for k in wb.keys}
    for (i, j), c in edges.items():
        succ_all[i].add(j)
        if c != UNSEL:
            succ_dyn[i].add(j)
    cycles = brute_cycles(succ_all, limit=max_cycles)
    ckind = []
    on_active = set()
    for cyc in cycles:
        cl = [edges[(cyc[i], cyc[(i + 1) % len(cyc)])] for i in range(len(cyc))]
        if UNSEL not in cl:
            kind = 'active'
            on_active.update(cyc)
        elif SEL in cl:
            kind = 'mixed'
        else:
            kind = 'harmless'
        ckind.append(kind)
    # phase 2: canonical values, cells on an active cycle are the circular error
    p2 = Lazy(wb, preset={k: CIRC for k in on_active}).run()
    if p2.unk_guard:
        raise OutOfDomain('guard outside the asserted domain')
    if edge_classes(p2.occ) != edges:
        raise OutOfDomain('selection depends on evaluation order')
    occ = p2.occ
    node_cycles = {k: set() for k in wb.keys}
    for n, cyc in enumerate(cycles):
        for k in cyc:
            node_cycles[k].add(n)
    reach_all = {k: closure(succ_all, k) for k in wb.keys}
    reach_dyn = {k: closure(succ_dyn, k) for k in wb.keys}
    guarded_src = {i for (i, j), c in edges.items() if c != STRICT}
    # cells on an active cycle whose own formula does not simply hand the circular error on
    # (it absorbs errors, or has another error operand)
    # (own formula evaluated with "an error in any IFS condition is the result": a cycle through a condition is strict)
    p3 = Lazy(wb, preset={k: CIRC for k in on_active}, strict_ifs=True).run()
    hard = {k for k in on_active if p3.own.get(k) != CIRC}

    def on_strict_cycle(k):
        return any(ckind[n] == 'active' and all(
            edges[(cycles[n][i], cycles[n][(i + 1) % len(cycles[n])])] == STRICT for i in range(len(cycles[n])))
            for n in node_cycles[k])
    # "soft": the cell's own formula yields an ordinary value only because an earlier IFS condition is TRUE and the
    # circular reference sits in a later condition.  On a cycle that is strict all the way round this cannot matter
    # (every cell of the cycle is marked); on a cycle that needs a selected branch it is finding F-C10-2 again.
    soft = {k for k in on_active if k not in hard and p2.own.get(k) != CIRC and not on_strict_cycle(k)}
    impure = hard | soft
    # the same kind of cell on an all-strict cycle: asserted exactly, unless one of the circular cells its formula
    # reads lies on a different set of cycles (of any kind: a vetoed harmless cycle is marked too) than the cell itself (then the repo may compute the cell from
    # an already marked shorter cycle before its own mark arrives: tag 'late-cond-race', reported separately)
    act = {k: frozenset(n for n in node_cycles[k] if ckind[n] == 'active') for k in on_active}
    race = set()
    rf = None
    for k in on_active:
        if k not in hard and p2.own.get(k) != CIRC and k not in soft:
            ck = set()
            for n in act[k]:
                ck.update(cycles[n])
            if any(node_cycles[m] != node_cycles[k] for m in ck):
                race.add(k)
                continue
            # ... or a cell of those cycles lies inside a rectangle that is a node of another active cycle
            if rf is None:
                rf = refined({'occ': occ})
            mem = {}
            for lst in occ.values():
                for o in lst:
                    if o[6] is not None:
                        mem.setdefault(o[6], set()).add(o[0])
            for rid, ms in mem.items():
                if ms & ck and any(('c', k) not in rf['cycles'][n]
                                   for n in rf['node_cycles'].get(('r', rid), ())):
                    race.add(k)
                    break
    info = {}
    for k in wb.keys:
        kinds = set()
        for x in reach_all[k]:
            for n in node_cycles[x]:
                kinds.add(ckind[n])
        v = p2.preset.get(k, p2.memo.get(k))
        own = {ckind[n] for n in node_cycles[k]}
        after_impure = bool(reach_dyn[k] & impure)
        if k in on_active:
            strict_cycle = on_strict_cycle(k)
            if strict_cycle and not (reach_dyn[k] & hard):
                after_impure = False
            cls_, sub = 'circ', ('impure' if after_impure else 'late-cond-race' if reach_dyn[k] & race else
                                 'strict' if strict_cycle else 'via-selected')
        elif v is UNK:
            cls_, sub = 'unk', 'unk'
        elif after_impure or reach_dyn[k] & race:
            cls_, sub = 'unk', 'after-impure'
        elif is_err(v) and (v == CIRC or (isinstance(v, AnyErr) and '#CIRC!' in v.cands)):
            cls_, sub = 'err', 'downstream-active'
        elif not kinds:
            cls_, sub = 'value', 'outside'
        elif kinds == {'harmless'}:
            cls_, sub = 'value', ('on-harmless' if own else 'downstream-harmless')
        else:
            cls_, sub = 'either', ('on-mixed' if 'mixed' in own else 'on-harmless+' if own else
                                   'absorbed' if reach_dyn[k] & on_active else 'downstream')
        info[k] = {'cls': cls_, 'sub': sub, 'v': v, 'own': own, 'kinds': kinds,
                   'after_guard': bool(reach_all[k] & guarded_src)}
    for k in wb.keys:
        for o in occ.get(k, ()):
            if o[7] and (info[o[0]]['cls'], info[o[0]]['sub']) != ('value', 'outside'):
                raise OutOfDomain('a guard depends on a cell that is on or downstream of a cycle')
    # an error-absorbing function applied to a cell whose error-ness is not determined -> nothing asserted,
    # and nothing asserted for the dependents of such a cell
    changed = True
    while changed:
        changed = False
        for k in wb.keys:
            i = info[k]
            if i['cls'] != 'either':
                continue
            live = [o for o in occ.get(k, ()) if o[2]]
            tcls = {info[o[0]]['cls'] for o in live}
            if any(o[5] and info[o[0]]['cls'] in ('either', 'unk') for o in live) or 'unk' in tcls:
                i['cls'], i['sub'] = 'unk', 'absorbs-undetermined'
                changed = True
    for k in wb.keys:
        if info[k]['cls'] == 'either' and any(info[x]['cls'] == 'unk' for x in reach_all[k]):
            info[k]['cls'], info[k]['sub'] = 'unk', 'after-undetermined'
    for k in wb.keys:
        if info[k]['cls'] == 'err' and any(info[x]['cls'] == 'unk' for x in reach_dyn[k]):
            info[k]['cls'], info[k]['sub'] = 'unk', 'after-undetermined'
    return {'wb': wb, 'edges': edges, 'cycles': cycles, 'ckind': ckind, 'info': info,
            'occ': occ, 'on_active': on_active, 'reach_all': reach_all, 'reach_dyn': reach_dyn,
            'node_cycles': node_cycles, 'impure': impure}


def refined(an, max_cycles=20000):
    """Cycles of the graph that has the referenced rectangles as nodes of their own (cell -> rectangle ->
    member cells), the way a dependency graph with range nodes sees them.  Used only to attribute a failure
    to a root cause (tag), never for an expectation."""
    if 'refined' in an:
        return an['refined']
    occ = an['occ']
    g, ecls = {}, {}
    order = [STRICT, SEL, UNSEL]

    def add(a, b, c):
        g.setdefault(a, set()).add(b)
        g.setdefault(b, set())
        p = ecls.get((a, b))
        if p is None or order.index(c) < order.index(p):
            ecls[(a, b)] = c
    members = {}
    for i, lst in occ.items():
        g.setdefault(('c', i), set())
        for (j, guarded, live, via, gk, ab, rect, ig) in lst:
            c = STRICT if not guarded else (SEL if live else UNSEL)
            if rect is None:
                add(('c', i), ('c', j), c)
            else:
                add(('c', i), ('r', rect), c)
                add(('r', rect), ('c', j), None)
                members.setdefault(rect, set()).add(j)
    for k in list(ecls):
        if ecls[k] is None:
            ecls[k] = 'member'
    try:
        cycles = brute_cycles(g, limit=max_cycles)
    except OutOfDomain:
        cycles = []
    kinds, node_cycles = [], {}
    for n, cyc in enumerate(cycles):
        cl = [ecls[(cyc[i], cyc[(i + 1) % len(cyc)])] for i in range(len(cyc))]
        kinds.append('active' if UNSEL not in cl else 'mixed' if SEL in cl else 'harmless')
        for x in cyc:
            node_cycles.setdefault(x, set()).add(n)
    veto, soft = [], []
    for n, cyc in enumerate(cycles):
        v, others = False, set()
        if kinds[n] != 'active':
            for x in cyc:
                if x[0] == 'c':
                    for rid, mem in members.items():
                        if x[1] in mem:
                            others |= node_cycles.get(('r', rid), set()) - {n}
                else:
                    for m in members[x[1]]:
                        others |= node_cycles.get(('c', m), set()) - {n}
            v = bool(others)
        veto.append(v)
        # every other cycle behind the veto is itself avoidable (no selected edge) and shares no cell with this one
        mine = {x for x in cyc if x[0] == 'c'}
        soft.append(v and all(kinds[o] == 'harmless' and not (mine & {x for x in cycles[o] if x[0] == 'c'}) for o in others))
    an['refined'] = {'cycles': cycles, 'kinds': kinds, 'veto': veto, 'soft': soft, 'node_cycles': node_cycles}
    return an['refined']


def rect_veto(an, k=None):
    """True when a not-active cycle (of the refined graph) that cell k lies on or can reach (k=None: any)
    touches a rectangle that also takes part in another cycle: a cell of the cycle lies inside a rectangle
    that is a node of another cycle, or the cycle runs through a rectangle one of whose cells lies on
    another cycle."""
    rf = refined(an)
    if k is None:
        return any(rf['veto'])
    for x in an['reach_all'][k]:
        for n in rf['node_cycles'].get(('c', x), ()):
            if rf['veto'][n]:
                return True
    return False


def rect_veto_soft(an, k):
    """rect_veto(an, k) holds and every vetoing cycle found is of the 'soft' kind: the other cycles behind it are all
    avoidable themselves and disjoint from it (once they are resolved nothing is left to veto)."""
    rf = refined(an)
    hit = [n for x in an['reach_all'][k] for n in rf['node_cycles'].get(('c', x), ()) if rf['veto'][n]]
    return bool(hit) and all(rf['soft'][n] for n in hit)
