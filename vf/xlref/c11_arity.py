"""C11: hand-written arity / argument-kind table of the worksheet functions,
taken from Excel's documented signatures (support.microsoft.com function
reference), NOT from the code under test.

Line format:  NAME  SIG  [| baseline arguments]
SIG: one letter per argument position; upper case = required, lower case =
optional; a bracketed tail `[..]` is a group that may repeat up to the
documented maximum number of arguments (255 unless `max=N` is given).
  S  scalar parameter: Excel lifts the function element-wise when an array or
     a multi-cell range is supplied (arrays given to several S positions of
     one call are generated shape-compatible)
  A  whole-argument parameter: scalar, array literal or reference of any shape
  R  reference only (Excel refuses anything else when the formula is entered)
Baseline arguments (optional) are plausible values used as the fixed part of
the one-position sweeps so that a deviation in one position reaches the
function body; `$` = a 2x2 numeric range, `@` = a 3x1 numeric range,
`%` = a 1x3 numeric range.

`?` after the name marks an arity I could not find documented (evidence:
'arity-unverified'): only the arity that is plausible and observed to be
accepted is generated.
"""

TABLE = r'''
# ---------------------------------------------------------------- math
:math
ABS S
ACOS S | 0.5
ACOSH S
ACOT S
ACOTH S
ARABIC S | "XIV"
ASIN S | 0.5
ASINH S
ATAN S
ATAN2 SS
ATANH S | 0.5
CEILING SS | 2.5 1
CEILING.MATH Sss | 2.5 1 0
CEILING.PRECISE Ss | 2.5 1
ISO.CEILING Ss | 2.5 1
COS S
COSH S
COT S
COTH S
CSC S
CSCH S
DECIMAL SS | "FF" 16
DEGREES S
EVEN S
EXP S
FACT S | 5
FACTDOUBLE S | 5
FLOOR SS | 2.5 1
FLOOR.MATH Sss | 2.5 1 0
FLOOR.PRECISE Ss | 2.5 1
GCD A[a]
INT S | 2.5
LCM A[a]
LN S
LOG Ss | 8 2
LOG10 S
MDETERM A | $
MINVERSE A | $
MMULT AA | $ $
MOD SS | 7 3
MROUND SS | 7 3
MUNIT S | 3
ODD S
PI
POWER SS
PRODUCT A[a]
RADIANS S
RAND
RANDBETWEEN SS | 1 6
ROMAN Ss | 14 0
ROUND SS | 2.567 1
ROUNDDOWN SS | 2.567 1
ROUNDUP SS | 2.567 1
SEC S
SECH S
SIGN S
SIN S
SINH S
SQRT S
SQRTPI S
SUM A[a]
SUMIF RSr | @ ">1" @
SUMPRODUCT A[a] | $ $ $
SUMSQ A[a]
TAN S
TANH S
TRUNC Ss | 2.567 1
# ---------------------------------------------------------------- info
:info
ISBLANK S
ISERR S
ISERROR S
ISEVEN S
ISLOGICAL S
ISNA S
ISNONTEXT S
ISNUMBER S
ISODD S
ISTEXT S
NA
# ---------------------------------------------------------------- logic
:logic
AND A[a] | TRUE TRUE TRUE
OR A[a] | FALSE TRUE FALSE
XOR A[a] max=254 | TRUE FALSE TRUE
NOT S | TRUE
TRUE
FALSE
IF SSs | TRUE 1 2
IFS SS[SS] max=254 | FALSE 1 TRUE 2
IFERROR SS | 1 2
IFNA SS | 1 2
SWITCH SSS[S] max=254 | 2 1 "a" 2 "b" 3 "c"
# ---------------------------------------------------------------- stat
:stat
AVERAGE A[a]
AVERAGEA A[a]
AVERAGEIF RSr | @ ">1" @
CORREL AA | @ @
COUNT A[a]
COUNTA A[a]
COUNTBLANK R | @
COUNTIF RS | @ ">1"
FORECAST SAA | 2 @ @
FORECAST.LINEAR SAA | 2 @ @
LARGE AS | @ 1
SMALL AS | @ 1
MAX A[a]
MAXA A[a]
MEDIAN A[a]
MIN A[a]
MINA A[a]
NORM.DIST SSSS | 1 0 1 TRUE
NORMDIST SSSS | 1 0 1 TRUE
NORM.INV SSS | 0.5 0 1
NORMINV SSS | 0.5 0 1
NORM.S.DIST SS | 1 TRUE
NORMSDIST S | 1
NORM.S.INV S | 0.5
NORMSINV S | 0.5
PERCENTILE AS | @ 0.5
PERCENTILE.INC AS | @ 0.5
PERCENTILE.EXC AS | @ 0.5
QUARTILE AS | @ 1
QUARTILE.INC AS | @ 1
QUARTILE.EXC AS | @ 1
SLOPE AA | @ @
STDEV A[a]
STDEV.S A[a] max=254
STDEV.P A[a] max=254
STDEVP A[a]
STDEVA A[a]
STDEVPA A[a]
VAR A[a]
VAR.S A[a] max=254
VAR.P A[a] max=254
VARP A[a]
VARA A[a]
VARPA A[a]
# ---------------------------------------------------------------- financial
:fin
CUMIPMT SSSSSS | 0.1 10 1000 1 2 0
FV SSSss | 0.1 10 -100 0 0
IPMT SSSSss | 0.1 1 10 1000 0 0
IRR As | @ 0.1
NPER SSSss | 0.1 -100 1000 0 0
NPV SA[a] | 0.1
PMT SSSss | 0.1 10 1000 0 0
PPMT SSSSss | 0.1 1 10 1000 0 0
PV SSSss | 0.1 10 -100 0 0
RATE SSSsss | 10 -100 800 0 0 0.1
XIRR AAs | @ @ 0.1
XNPV SAA | 0.1 @ @
# ---------------------------------------------------------------- text
:text
CHAR S | 65
CODE S | "a"
CONCAT A[a] max=254 | "a" "b" "c"
CONCATENATE S[s] | "a" "b" "c"
FIND SSs | "b" "abc" 1
LEFT Ss | "abc" 2
LEN S | "abc"
LOWER S | "aBc"
MID SSS | "abcd" 2 2
REPLACE SSSS | "abcd" 2 1 "x"
RIGHT Ss | "abc" 2
SEARCH SSs | "b" "abc" 1
SUBSTITUTE SSSs | "abcabc" "b" "x" 1
T A | "abc"
TEXT SS | 1234.5 "0.00"
TEXTJOIN SSA[a] max=254 | "," TRUE "a" "b"
TRIM S | " a b "
UPPER S | "aBc"
VALUE S | "3"
# ---------------------------------------------------------------- lookup
:look
ADDRESS SSsss | 1 1 1 TRUE "S"
COLUMN r | $
ROW r | $
SINGLE? R | @
FILTER AAa | @ @ "none"
HLOOKUP SASs | 2 $ 2 FALSE
VLOOKUP SASs | 2 $ 2 FALSE
INDEX ASss | $ 1 1 1
LOOKUP SAa | 2 @ @
MATCH SAs | 2 @ 0
TRANSPOSE A | $
# ---------------------------------------------------------------- engineering
:eng
BIN2DEC S | "1010"
BIN2HEX Ss | "1010" 4
BIN2OCT Ss | "1010" 4
DEC2BIN Ss | 10 8
DEC2HEX Ss | 255 4
DEC2OCT Ss | 64 4
HEX2BIN Ss | "F" 8
HEX2DEC S | "FF"
HEX2OCT Ss | "F" 4
OCT2BIN Ss | "7" 4
OCT2DEC S | "17"
OCT2HEX Ss | "17" 4
# ---------------------------------------------------------------- date
:date
DATE SSS | 2020 2 15
DATEDIF SSS | 40000 40500 "D"
DATEVALUE S | "abc"
DAY S | 40000
MONTH S | 40000
YEAR S | 40000
EDATE SS | 40000 1
HOUR S | 0.75
MINUTE S | 0.75
SECOND S | 0.75
ISOWEEKNUM S | 40000
NOW
TODAY
TIME SSS | 12 30 15
TIMEVALUE S | "abc"
WEEKDAY Ss | 40000 1
WEEKNUM Ss | 40000 1
YEARFRAC SSs | 40000 40500 0
# ---------------------------------------------------------------- other
:other
DUMMYFUNCTION? S | "abc"
'''

PREFIXES = ('_XLFN._XLWS.', '_XLFN.', '__XLUDF.')


def base_name(name):
    for p in PREFIXES:
        if name.startswith(p):
            return name[len(p):]
    return name


def _parse():
    spec, fam = {}, 'misc'
    for line in TABLE.strip().splitlines():
        line = line.strip()
        if not line or line.startswith('#'):
            continue
        if line.startswith(':'):
            fam = line[1:]
            continue
        head, _, base = line.partition('|')
        toks = head.split()
        name, rest = toks[0], toks[1:]
        unverified = name.endswith('?')
        name = name.rstrip('?')
        sig, mx = '', 255
        for t in rest:
            if t.startswith('max='):
                mx = int(t[4:])
            else:
                sig = t
        fixed, cycle = sig, ''
        if '[' in sig:
            fixed, cycle = sig[:sig.index('[')], sig[sig.index('[') + 1:sig.index(']')]
        nmin = sum(1 for ch in fixed if ch.isupper())
        spec[name] = {'fixed': fixed.upper(), 'cycle': cycle.upper(), 'min': nmin,
                      'max': mx if cycle else len(fixed), 'family': fam, 'unverified': unverified,
                      'base': base.split() if base.strip() else []}
    return spec


SPEC = _parse()


def lookup(name):
    return SPEC.get(base_name(name))


def admissible(name, n):
    s = lookup(name)
    if s is None or n < s['min'] or n > s['max']:
        return False
    if n <= len(s['fixed']):
        return True
    return bool(s['cycle']) and (n - len(s['fixed'])) % len(s['cycle']) == 0


def kind_at(name, i):
    """'S' | 'A' | 'R' for argument position i."""
    s = lookup(name)
    if i < len(s['fixed']):
        return s['fixed'][i]
    return s['cycle'][(i - len(s['fixed'])) % len(s['cycle'])]


def arities(name, cap=40):
    """Admissible argument counts that are generated: all of them for fixed
    signatures; for variadic ones the first three, a few small ones and the
    neighbourhood of 32 (the repo switches implementation there), capped."""
    s = lookup(name)
    if not s['cycle']:
        return list(range(s['min'], s['max'] + 1))
    want = [s['min'], s['min'] + 1, s['min'] + 2, s['min'] + 3, 5, 8, 9, 30, 31, 32, 33, 34, cap - 1, cap]
    out = []
    for n in want:
        if n <= min(cap, s['max']) and admissible(name, n) and n not in out:
            out.append(n)
    return sorted(out)
