"""Reference side of C04: denotations of references, my own classification of
sheet names, and a renderer that spells one denotation in every form Excel
treats as the same rectangle.  Nothing here imports the code under test.

Denotation of an area: (book, sheet, c1, r1, c2, r2) with book = [directory,
filename] or None, sheet = text or None (None: no sheet known at all), and
1 <= c1 <= c2 <= 16384, 1 <= r1 <= r2 <= 1048576.
A spelling is (text, context): the context is what the interpreter is given
besides the text (host row/column `cr`/`cc`, the sheet/workbook the formula
lives in, the table of numbered external links).
"""
import re

MAXC, MAXR = 16384, 1048576
AZ = 'ABCDEFGHIJKLMNOPQRSTUVWXYZ'


def col(n):
    """Bijective base 26: 1 -> A, 26 -> Z, 27 -> AA, 16384 -> XFD."""
    s = ''
    while n > 0:
        n, r = divmod(n - 1, 26)
        s = AZ[r] + s
    return s


def idx(s):
    v = 0
    for ch in s.upper():
        v = v * 26 + AZ.index(ch) + 1
    return v


# ------------------------------------------------------------------ sheet names
ILLEGAL_SHEET = set(':\\/?*[]')
_PLAIN = re.compile(r'^[A-Za-z_][A-Za-z0-9_.]*$')
_BAREU = re.compile(r'^[^\W\d][\w.]*$')
_CELLLIKE = re.compile(r'^([A-Za-z]{1,3}[0-9]+|[Rr][0-9]*[Cc][0-9]*|[Rr]|[Cc]|TRUE|FALSE)$', re.I)
# letters whose upper/lower mapping is not one-to-one (or is locale dependent) are kept out of names
UNSAFE_CASE = set('ßıİſςŉǰΐΰẞ')


def legal_sheet(s):
    return (0 < len(s) <= 31 and not (set(s) & ILLEGAL_SHEET) and s[0] != "'" and s[-1] != "'"
            and "''" not in s and not (set(s) & UNSAFE_CASE)
            and all(len(ch.upper()) == 1 and len(ch.lower()) == 1 and ch.upper().lower() == ch.lower() for ch in s)
            and all(ch.isprintable() for ch in s))


def sheet_class(s):
    """My own classification (the rule tag of sheet-related signatures)."""
    if s is None:
        return 'none'
    if "'" in s:
        return 'apostrophe'
    if ' ' in s:
        return 'space'
    if _CELLLIKE.match(s):
        return 'celllike'
    if _PLAIN.match(s):
        return 'plain'
    if _BAREU.match(s):
        return 'nonascii'
    if s[0].isdigit() and re.match(r'^[\w.]+$', s):
        return 'digit-leading'
    return 'punct'


def bare_ok(s):
    """May the name be written without quotes?  (Excel: letters, digits, _ and .
    only, not starting with a digit, not looking like a reference.)"""
    return sheet_class(s) in ('plain', 'nonascii')


def quote(s):
    return "'%s'" % s.replace("'", "''")


def fold(s):
    return None if s is None else s.upper()


def with_case(s, mask):
    """Case of the i-th letter from bit i of mask (bit set -> lower)."""
    out, i = [], 0
    for ch in s:
        if ch.isalpha():
            out.append(ch.lower() if (mask >> (i % 30)) & 1 else ch.upper())
            i += 1
        else:
            out.append(ch)
    return ''.join(out)


# ------------------------------------------------------------------ defined names
_NAME_OK = re.compile(r'^[^\W\d][\w.]*$')


def legal_name(s):
    return bool(_NAME_OK.match(s)) and not re.match(r'^[A-Za-z]{1,3}[0-9]+$', s) and \
        not re.match(r'^[Rr][0-9]*([Cc][0-9]*)?$', s) and not re.match(r'^[Cc][0-9]*$', s) and \
        s.upper() not in ('TRUE', 'FALSE') and len(s) <= 64 and not (set(s) & UNSAFE_CASE) and \
        all(len(ch.upper()) == 1 and ch.upper().lower() == ch.lower() for ch in s)


# ------------------------------------------------------------------ rectangles
def touches(rect):
    c1, r1, c2, r2 = rect
    t = []
    if r1 == 1:
        t.append('row1')
    if c1 == 1:
        t.append('col1')
    if r2 == MAXR:
        t.append('last-row')
    if c2 == MAXC:
        t.append('last-col')
    return t


def shape(rect):
    c1, r1, c2, r2 = rect
    fh, fw = r1 == 1 and r2 == MAXR, c1 == 1 and c2 == MAXC
    if fh and fw:
        return 'whole-sheet'
    if fh:
        return 'full-height'
    if fw:
        return 'full-width'
    if (c1, r1) == (c2, r2):
        return 'single'
    return 'rect'


FORMS_ALL = ('a1', 'a1a1', 'rc', 'rcrc', 'rel', 'relrel', 'cols', 'rows', 'relcols', 'relrows')


def forms_for(rect, host):
    """Forms that are unambiguous alternative spellings of `rect` seen from `host`."""
    c1, r1, c2, r2 = rect
    hr, hc = host if host else (None, None)
    single = (c1, r1) == (c2, r2)
    fh, fw = r1 == 1 and r2 == MAXR, c1 == 1 and c2 == MAXC
    f = ['a1a1', 'rcrc']
    if single:
        f += ['a1', 'rc']
    rel_r = hr is not None and hr not in (r1, r2)
    rel_c = hc is not None and hc not in (c1, c2)
    if rel_r and rel_c:
        f.append('relrel')
        if single:
            f.append('rel')
    if fh:
        f.append('cols')
        if rel_c:
            f.append('relcols')
    if fw:
        f.append('rows')
        if rel_r:
            f.append('relrows')
    return f


def _off(d, plus):
    return ('+%d' % d) if (plus and d > 0) else '%d' % d


def render_ref(rect, host, sp):
    """Text of the reference part.  sp: dict with f (form), d (4 dollar bits:
    c1 r1 c2 r2), m1/m2 (letter-case masks of the two column texts), rcm (case
    bits of the letters R C R C), plus (bits: explicit + on positive offsets)."""
    c1, r1, c2, r2 = rect
    f = sp['f']
    d = sp.get('d', 0)
    D = lambda i: '$' if (d >> i) & 1 else ''
    L1, L2 = with_case(col(c1), sp.get('m1', 0)), with_case(col(c2), sp.get('m2', 0))
    rcm = sp.get('rcm', 0)
    RC = lambda i, ch: ch.lower() if (rcm >> i) & 1 else ch
    plus = sp.get('plus', 0)
    if f == 'a1':
        return '%s%s%s%d' % (D(0), L1, D(1), r1)
    if f == 'a1a1':
        return '%s%s%s%d:%s%s%s%d' % (D(0), L1, D(1), r1, D(2), L2, D(3), r2)
    if f == 'cols':
        return '%s%s:%s%s' % (D(0), L1, D(2), L2)
    if f == 'rows':
        return '%s%d:%s%d' % (D(1), r1, D(3), r2)
    if f == 'rc':
        return '%s%d%s%d' % (RC(0, 'R'), r1, RC(1, 'C'), c1)
    if f == 'rcrc':
        return '%s%d%s%d:%s%d%s%d' % (RC(0, 'R'), r1, RC(1, 'C'), c1, RC(2, 'R'), r2, RC(3, 'C'), c2)
    hr, hc = host
    if f == 'rel':
        return '%s[%s]%s[%s]' % (RC(0, 'R'), _off(r1 - hr, plus & 1), RC(1, 'C'), _off(c1 - hc, plus & 2))
    if f == 'relrel':
        return '%s[%s]%s[%s]:%s[%s]%s[%s]' % (
            RC(0, 'R'), _off(r1 - hr, plus & 1), RC(1, 'C'), _off(c1 - hc, plus & 2),
            RC(2, 'R'), _off(r2 - hr, plus & 4), RC(3, 'C'), _off(c2 - hc, plus & 8))
    if f == 'relcols':
        return '%s[%s]:%s[%s]' % (RC(1, 'C'), _off(c1 - hc, plus & 2), RC(3, 'C'), _off(c2 - hc, plus & 8))
    if f == 'relrows':
        return '%s[%s]:%s[%s]' % (RC(0, 'R'), _off(r1 - hr, plus & 1), RC(2, 'R'), _off(r2 - hr, plus & 4))
    raise ValueError(f)


QUALS_ALL = ('ctx', 'bare', 'quoted', 'book', 'dirbook', 'idx', 'idxq')


def quals_for(book, sheet, form):
    if sheet is None:
        return ['ctx']
    if form in ('rel', 'relrel', 'relcols', 'relrows'):
        return ['ctx']  # the grammar has no sheet prefix on R[..]C[..] forms
    q = ['ctx', 'quoted']
    if bare_ok(sheet):
        q.append('bare')
    if book is not None:
        q.append('book')
        if book[0]:
            q.append('dirbook')
        if bare_ok(sheet):
            q.append('idx')
        q.append('idxq')
    return q


def other_sheet(sheet):
    return 'OTHER' if fold(sheet) != 'OTHER' else 'ANOTHER'


def render_qual(book, sheet, sp, host, relative):
    """-> (prefix, context).  sp: q (kind), sm (sheet case mask), ds (directory
    given with a trailing slash in the context), nohost."""
    q = sp['q']
    ctx = {}
    if host is not None and (relative or not sp.get('nohost')):
        ctx['cr'], ctx['cc'] = str(host[0]), host[1]
    if sheet is None:
        return '', ctx
    S = with_case(sheet, sp.get('sm', 0))
    d, fn = (book if book is not None else (None, None))
    dctx = None if d is None else ((d + '/') if (d and sp.get('ds')) else d)
    prefix = ''
    if q == 'ctx':
        ctx['sheet'] = S
        if book is not None:
            ctx['directory'], ctx['filename'] = dctx, fn
    elif q in ('bare', 'quoted'):
        ctx['sheet'] = other_sheet(sheet)
        if book is not None:
            ctx['directory'], ctx['filename'] = dctx, fn
        prefix = (S if q == 'bare' else quote(S)) + '!'
    elif q == 'book':
        ctx['sheet'] = other_sheet(sheet)
        ctx['directory'], ctx['filename'] = dctx, 'zz-other.xlsx'
        prefix = "'[%s]%s'!" % (fn.replace("'", "''"), S.replace("'", "''"))
    elif q == 'dirbook':
        ctx['sheet'] = other_sheet(sheet)
        ctx['directory'], ctx['filename'] = 'elsewhere', 'zz-other.xlsx'
        prefix = "'%s/[%s]%s'!" % (d.replace("'", "''"), fn.replace("'", "''"), S.replace("'", "''"))
    elif q == 'idx':
        k = str(1 + sp.get('sm', 0) % 9)
        ctx['sheet'] = other_sheet(sheet)
        # the host workbook lies in the base directory or in a sub-directory: the link decides, not the host
        ctx['directory'], ctx['filename'] = ('hostdir' if (sp.get('sm', 0) // 2) % 2 else ''), 'zz-other.xlsx'
        ctx['external_links'] = {k: (d, fn), str(int(k) + 1): ('elsewhere', 'zz-third.xlsx')}
        prefix = '[%s]%s!' % (k, S)
    elif q == 'idxq':  # the form xlsx files use when the sheet name needs quotes: '[1]My Sheet'!A1
        k = str(1 + sp.get('sm', 0) % 9)
        ctx['sheet'] = other_sheet(sheet)
        ctx['directory'], ctx['filename'] = ('hostdir' if (sp.get('sm', 0) // 2) % 2 else ''), 'zz-other.xlsx'
        ctx['external_links'] = {k: (d, fn), str(int(k) + 1): ('elsewhere', 'zz-third.xlsx')}
        prefix = "'[%s]%s'!" % (k, S.replace("'", "''"))
    else:
        raise ValueError(q)
    return prefix, ctx


def normalise_spec(den, host, sp):
    """Map an arbitrary integer-valued spec onto an applicable (form, qualifier)."""
    forms = forms_for(den['rect'], host)
    f = sp.get('f', 0)
    f = forms[f % len(forms)] if isinstance(f, int) else (f if f in forms else forms[0])
    quals = quals_for(den.get('book'), den.get('sheet'), f)
    q = sp.get('q', 0)
    q = quals[q % len(quals)] if isinstance(q, int) else (q if q in quals else quals[0])
    out = dict(sp)
    out['f'], out['q'] = f, q
    return out


def render(den, host, sp):
    """-> (text, context, features).  `sp` must be normalised."""
    rect = den['rect']
    relative = sp['f'] in ('rel', 'relrel', 'relcols', 'relrows')
    ref = render_ref(rect, host, sp)
    prefix, ctx = render_qual(den.get('book'), den.get('sheet'), sp, host, relative)
    feats = []
    canon_ref = plain_ref(rect)
    if '$' in ref:
        feats.append('dollar')
    if sp['f'] in ('a1', 'a1a1', 'cols') and ref.replace('$', '') != ref.replace('$', '').upper():
        feats.append('lower')
    if sp['f'] in ('rc', 'rcrc', 'rel', 'relrel', 'relcols', 'relrows'):
        feats.append('r1c1')
    if relative:
        feats.append('relative')
    if sp['f'] in ('a1a1', 'rcrc', 'relrel') and shape(rect) == 'single':
        feats.append('redundant')
    if sp['f'] in ('a1a1', 'rcrc', 'relrel') and shape(rect) in ('full-height', 'full-width', 'whole-sheet'):
        feats.append('explicit-whole')
    if den.get('sheet') is not None:
        S = den['sheet']
        if sp['q'] != 'ctx':
            feats.append('qualified')
        if sp['q'] in ('book', 'dirbook', 'idx', 'idxq'):
            feats.append('book-qualified')
        if sp['q'] == 'quoted' and bare_ok(S):
            feats.append('optional-quotes')
        if with_case(S, sp.get('sm', 0)) != S.upper():
            feats.append('sheet-case')
    return prefix + ref, ctx, feats, canon_ref


def plain_ref(rect):
    """The usual way of writing the rectangle (only used to count features and
    in messages; no identifier format is asserted)."""
    c1, r1, c2, r2 = rect
    sh = shape(rect)
    if sh == 'single':
        return '%s%d' % (col(c1), r1)
    if sh == 'full-height':
        return '%s:%s' % (col(c1), col(c2))
    if sh in ('full-width', 'whole-sheet'):
        return '%d:%d' % (r1, r2)
    return '%s%d:%s%d' % (col(c1), r1, col(c2), r2)


def elided_forms(rect):
    """Reference parts that arise when coordinates equal to the last column /
    last row are dropped from the text (the shape of listed finding F9); used
    only to classify failures at the boundary, never to decide pass/fail."""
    import itertools
    c1, r1, c2, r2 = rect
    toks = [col(c1), str(r1), col(c2), str(r2)]
    ismax = [c1 == MAXC, r1 == MAXR, c2 == MAXC, r2 == MAXR]
    if not any(ismax):
        return set()
    # whole-row / whole-column spellings do not write the first column / row at all
    absent = [c1 == 1 and c2 == MAXC, r1 == 1 and r2 == MAXR, False, False]
    out = set()
    for drop in itertools.product((False, True), repeat=4):
        if not any(d and m for d, m in zip(drop, ismax)):
            continue
        if any(d and not (m or a) for d, m, a in zip(drop, ismax, absent)):
            continue
        t = ['' if d else x for d, x in zip(drop, toks)]
        out.add('%s%s:%s%s' % tuple(t))
        if (c1, r1) == (c2, r2) and t[0] == t[2] and t[1] == t[3]:
            out.add('%s%s' % (t[0], t[1]))
    return out - proper_forms(rect)


def proper_forms(rect):
    c1, r1, c2, r2 = rect
    if (c1, r1) == (c2, r2):
        out = {'%s%d' % (col(c1), r1)}
    else:
        out = {'%s%d:%s%d' % (col(c1), r1, col(c2), r2)}
    if r1 == 1 and r2 == MAXR:
        out.add('%s:%s' % (col(c1), col(c2)))
    if c1 == 1 and c2 == MAXC:
        out.add('%d:%d' % (r1, r2))
    return out


def ref_part(name):
    return name.rsplit('!', 1)[-1]
