"""Independent workbook evaluator over a plain WBSpec (DESIGN.md 1.4 `wb`).

WBSpec (plain JSON):
  {'books': [{'name': 'b0.xlsx', 'sheets': ['S1', 'My Sheet']}, ...],
   'cells': [{'at': [b, s, r, c], 'v': <const>}                      constant
             {'at': [b, s, r, c], 'f': <tree>}                       formula
             {'at': [b, s, r, c], 'f': <tree>, 'arr': [r2, c2]}      array formula over r..r2 x c..c2
            ...]   in creation (= topological) order,
   'names': [{'name': 'RN1', 'rect': [b, s, r1, c1, r2, c2]}, ...]}
constants: float | bool | str | None (never stored; used for overrides = blank) | ['E', '#N/A']
trees:
  ['num', x] ['str', s] ['bool', b] ['err', '#N/A']
  ['ref', [b, s, r, c]]               single cell (scalar)
  ['rng', [b, s, r1, c1, r2, c2]]     rectangle (aggregator argument / array operand)
  ['col', [b, s, c1, c2]]             whole columns (aggregator argument)
  ['name', i]                         defined name i (scalar if single cell, else like 'rng')
  ['bin', op, x, y]  ['neg', x]  ['fn', NAME, arg, ...]
  ['uni', a, b]                      bracketed union of two references as ONE aggregator argument
  ['isect', rngA, rngB]              intersection (blank operator) of two overlapping rectangles of one sheet, as ONE aggregator argument
  ['anchor', [b,s,r,c], rect]        spill reference C1# to the array formula anchored at that cell (aggregator argument; files only)
  ['undef', NAME]                    a name nobody defines (evaluates to UNSURE here)
  ['fname', i, tree]                 name i of spec['fnames'], defined by the formula `tree` (carried along at every use)
Functions: SUM MIN MAX COUNT AVERAGE LARGE SMALL IF IFERROR ISERROR ISNA AND OR LEN LEFT UPPER INDEX.

evaluate(spec, overrides) -> {(b, s, r, c): value} for every populated cell
(spill cells of array formulas included); values are harness values or UNSURE
(outside the asserted domain: collation-dependent ordering, number display
outside the certain class, near-equal float comparison)."""
from ..sut import Err, BLANK, Blank
from . import core as X


class Unsure:
    def __repr__(self):
        return 'UNSURE'


UNSURE = Unsure()


class BlankFromBranch(Unsure):
    """IF/IFERROR selected a branch that is a blank reference.  Excel passes the
    reference through (so & sees "" and a comparison sees blank) while a value
    semantics gives 0; only the uses where both agree are asserted: the cell's
    own value (0) and arithmetic (0)."""

    def __repr__(self):
        return 'BLANK-FROM-BRANCH'


BFB = BlankFromBranch()
MAXROW = 1048576


def const(v):
    if isinstance(v, list):
        return Err(v[1])
    if v is None:
        return BLANK
    if isinstance(v, int) and not isinstance(v, bool):
        return float(v)
    return v


def unconst(v):
    if isinstance(v, Err):
        return ['E', v.t]
    if isinstance(v, Blank):
        return None
    return v


def is_err(v):
    return isinstance(v, Err)


def _binary(op, a, b):
    if op in ('+', '-', '*', '/', '^'):
        a = BLANK if a is BFB else a
        b = BLANK if b is BFB else b
    if isinstance(a, Unsure) or isinstance(b, Unsure):
        # an error on the certain side still wins where it is the left-most one
        if is_err(a):
            return a
        return UNSURE
    if op in ('=', '<>', '<', '>', '<=', '>=') and isinstance(a, float) and isinstance(b, float) and a != b:
        if abs(a - b) <= 1e-9 * max(abs(a), abs(b)):
            return UNSURE
    v, tag = X.binary(op, a, b)
    if v is None or isinstance(v, tuple):
        return UNSURE
    if tag == 'concat:display:decimal-small':
        return UNSURE  # listed scalar finding F7 (C02 owns it): excluded from the workbook-level oracles
    return v


class Env:
    def __init__(self, spec, overrides=None, lazy=False, fname_over=None):
        self.spec = spec
        self.store = {}
        self.over = {tuple(k): const(v) for k, v in (overrides or [])}
        self.names = spec.get('names', [])
        self.fname_over = {int(i): const(v) for i, v in (fname_over or {}).items()}

    def get(self, key):
        key = tuple(key)
        if key in self.over:
            return self.over[key]
        return self.store.get(key, BLANK)

    def rect_values(self, rect):
        b, s, r1, c1, r2, c2 = rect
        return [[self.get((b, s, r, c)) for c in range(c1, c2 + 1)] for r in range(r1, r2 + 1)]

    def col_values(self, colref):
        b, s, c1, c2 = colref
        out = []
        keys = set(self.store) | set(self.over)
        for (kb, ks, r, c) in sorted(keys):
            if (kb, ks) == (b, s) and c1 <= c <= c2:
                out.append(self.get((kb, ks, r, c)))
        return [out]


def flat_args(env, args):
    """Aggregator arguments -> list of (value, referenced?)"""
    out = []
    for a in args:
        t = a[0]
        if t == 'rng':
            out += [(v, True) for row in env.rect_values(a[1]) for v in row]
        elif t == 'col':
            out += [(v, True) for row in env.col_values(a[1]) for v in row]
        elif t == 'name':
            rect = env.names[a[1]]['rect']
            out += [(v, True) for row in env.rect_values(rect) for v in row]
        elif t == 'ref':
            out.append((env.get(a[1]), True))
        elif t == 'isect':
            (b, s_, r1, c1, r2, c2), (_, _, R1, C1, R2, C2) = a[1][1], a[2][1]
            out += [(v, True) for row in env.rect_values((b, s_, max(r1, R1), max(c1, C1), min(r2, R2), min(c2, C2))) for v in row]
        elif t == 'anchor':
            out += [(v, True) for row in env.rect_values(a[2]) for v in row]  # the whole area of the array formula anchored there
        elif t == 'uni':
            out += flat_args(env, a[1:])  # a union of references: every area in turn (a cell in two areas counts twice)
        else:
            out.append((ev(env, a), False))
    return out


def aggregate(name, items):
    """Excel aggregation rule: referenced logicals/text/blanks are skipped, errors
    propagate, directly typed logicals and numeric text are coerced."""
    nums, errs = [], []
    for v, referenced in items:
        if isinstance(v, Unsure):
            return UNSURE
        if is_err(v):
            errs.append(v)
            continue
        if isinstance(v, Blank):
            continue
        if isinstance(v, bool):
            if not referenced:
                nums.append(1.0 if v else 0.0)
            continue
        if isinstance(v, str):
            if referenced:
                if X.is_numtext(v):
                    return UNSURE  # numeric text inside ranges: outside the asserted domain
                continue
            x, _ = X.to_number(v)
            if is_err(x):
                errs.append(x)
            else:
                nums.append(x)
            continue
        nums.append(v)
    if name == 'COUNT':
        return float(len(nums))
    if name in ('LARGE', 'SMALL'):
        return nums, errs
    if errs:
        if len({e.t for e in errs}) > 1:
            return UNSURE  # which of several errors wins is not asserted
        return errs[0]
    if name in ('SUM', 'AVERAGE') and nums:
        # beyond the double range the result is #NUM!; when only the order of summation decides, nothing is asserted
        import math
        naive = float(sum(nums))
        try:
            exact = math.fsum(nums)
        except OverflowError:
            return UNSURE
        if math.isinf(naive) != math.isinf(exact) or math.isnan(naive):
            return UNSURE
        if math.isinf(naive):
            return X.NUM
    if name == 'SUM':
        return float(sum(nums))
    if name == 'MIN':
        return float(min(nums)) if nums else 0.0
    if name == 'MAX':
        return float(max(nums)) if nums else 0.0
    if name == 'AVERAGE':
        return float(sum(nums)) / len(nums) if nums else X.DIV0
    raise ValueError(name)


def to_logical(v):
    if isinstance(v, Unsure):
        return UNSURE
    if is_err(v):
        return v
    if isinstance(v, bool):
        return v
    if isinstance(v, Blank):
        return False
    if isinstance(v, float):
        return v != 0
    return UNSURE  # text conditions are outside the asserted domain (C12 finding)


def ev(env, t):
    k = t[0]
    if k == 'num':
        return float(t[1])
    if k == 'str':
        return t[1]
    if k == 'bool':
        return bool(t[1])
    if k == 'err':
        return Err(t[1])
    if k == 'ref':
        return env.get(t[1])
    if k == 'name':
        b, s, r1, c1, r2, c2 = env.names[t[1]]['rect']
        assert (r1, c1) == (r2, c2), 'multi-cell name used as a scalar'
        return env.get((b, s, r1, c1))
    if k == 'undef':
        return UNSURE  # an undefined name: #NAME? or #REF! (C14 owns which); only differential oracles look at such cells
    if k == 'fname':
        # a name defined by a formula (['fname', i, <its tree>]); a value supplied for the name replaces the formula
        if t[1] in env.fname_over:
            return env.fname_over[t[1]]
        v = ev(env, t[2])
        return 0.0 if isinstance(v, (Blank, BlankFromBranch)) else v
    if k == 'neg':
        a = ev(env, t[1])
        if a is BFB:
            a = BLANK
        if isinstance(a, Unsure):
            return UNSURE
        return X.unary('u-', a)[0]
    if k == 'bin':
        return _binary(t[1], ev(env, t[2]), ev(env, t[3]))
    if k == 'fn':
        return fn(env, t[1], t[2:])
    raise ValueError(k)


def fn(env, name, args):
    if name in ('SUM', 'MIN', 'MAX', 'COUNT', 'AVERAGE'):
        return aggregate(name, flat_args(env, args))
    if name == 'IF':
        c = to_logical(ev(env, args[0]))
        if isinstance(c, Unsure):
            return UNSURE
        if is_err(c):
            return c
        r = ev(env, args[1]) if c else (ev(env, args[2]) if len(args) > 2 else False)
        return BFB if isinstance(r, Blank) else r
    if name == 'IFERROR':
        a = ev(env, args[0])
        if isinstance(a, Unsure):
            return UNSURE
        r = ev(env, args[1]) if is_err(a) else a
        return BFB if isinstance(r, Blank) else r
    if name in ('ISERROR', 'ISNA'):
        a = ev(env, args[0])
        if isinstance(a, Unsure):
            return UNSURE
        return is_err(a) if name == 'ISERROR' else (is_err(a) and a.t == '#N/A')
    if name in ('AND', 'OR'):
        vals = [ev(env, a) for a in args]
        if any(isinstance(v, Unsure) for v in vals):
            return UNSURE
        for v in vals:
            if is_err(v):
                return v
        if not all(isinstance(v, bool) for v in vals):
            return UNSURE
        return all(vals) if name == 'AND' else any(vals)
    if name in ('LARGE', 'SMALL'):
        # k-th largest / smallest number among the referenced cells (text, logicals, blanks skipped; errors propagate)
        r = aggregate(name, flat_args(env, args[:1]))
        if isinstance(r, Unsure):
            return UNSURE
        nums, errs = r
        k = int(args[1][1])
        bad_k = not (1 <= k <= len(nums))
        if errs:
            return UNSURE if (bad_k or len({e.t for e in errs}) > 1) else errs[0]
        if bad_k:
            return X.NUM
        return float(sorted(nums, reverse=(name == 'LARGE'))[k - 1])
    if name == 'INDEX':
        # INDEX(<rectangle or name>, row, col): the cell at that position (a reference: a blank stays a blank reference)
        a = args[0]
        rect = a[1] if a[0] == 'rng' else env.names[a[1]]['rect']
        b, s, r1, c1, r2, c2 = rect
        r, c = int(args[1][1]), int(args[2][1])
        if not (1 <= r <= r2 - r1 + 1 and 1 <= c <= c2 - c1 + 1):
            return X.REF
        v = env.get((b, s, r1 + r - 1, c1 + c - 1))
        return BFB if isinstance(v, Blank) else v
    if name in ('LEN', 'LEFT', 'UPPER'):
        a = ev(env, args[0])
        if isinstance(a, Unsure):
            return UNSURE
        if is_err(a):
            return a
        d, dtag = X.display(a)
        if d is None or dtag == 'display:decimal-small':
            return UNSURE
        if name == 'LEN':
            return float(len(d))
        if name == 'UPPER':
            return d.upper()
        n = 1
        if len(args) > 1:
            nv = ev(env, args[1])
            if isinstance(nv, Unsure):
                return UNSURE
            if is_err(nv):
                return nv
            if not isinstance(nv, float) or nv < 0 or nv != int(nv):
                return UNSURE
            n = int(nv)
        return d[:n]
    raise ValueError(name)


def ev_array(env, t, shape):
    """Array formula: the tree evaluated element-wise over rectangles of
    `shape` (rows, cols); 'rng' operands must have exactly that shape,
    everything else is a scalar that stretches."""
    rows, cols = shape
    out = []
    for i in range(rows):
        row = []
        for j in range(cols):
            row.append(ev(env, _at(env, t, i, j)))
        out.append(row)
    return out


def _at(env, t, i, j):
    k = t[0]
    if k == 'rng':
        b, s, r1, c1, r2, c2 = t[1]
        return ['ref', [b, s, r1 + i, c1 + j]]
    if k == 'bin':
        return ['bin', t[1], _at(env, t[2], i, j), _at(env, t[3], i, j)]
    if k == 'neg':
        return ['neg', _at(env, t[1], i, j)]
    if k == 'fn' and t[1] in ('IF', 'IFERROR', 'LEN', 'UPPER'):
        return ['fn', t[1]] + [_at(env, a, i, j) for a in t[2:]]
    return t


def evaluate(spec, overrides=None, fname_over=None):
    """-> dict (b, s, r, c) -> value.  An overridden cell is a constant holding
    the supplied value (an overridden formula cell is not re-evaluated; an
    overridden spill cell keeps the override)."""
    env = Env(spec, overrides, fname_over=fname_over)
    for cell in spec['cells']:
        at = tuple(cell['at'])
        if 'f' not in cell:
            env.store[at] = const(cell['v'])
            continue
        if 'arr' in cell:
            b, s, r, c = at
            r2, c2 = cell['arr']
            m = ev_array(env, cell['f'], (r2 - r + 1, c2 - c + 1))
            for i in range(r2 - r + 1):
                for j in range(c2 - c + 1):
                    v = m[i][j]
                    env.store[(b, s, r + i, c + j)] = 0.0 if isinstance(v, (Blank, BlankFromBranch)) else v
            continue
        v = ev(env, cell['f'])
        env.store[at] = 0.0 if isinstance(v, (Blank, BlankFromBranch)) else v
    out = dict(env.store)
    out.update(env.over)
    return out


def refs_of(t, names=None, acc=None):
    """All cells / rectangles a tree mentions: list of ('cell', key) / ('rect', rect) / ('col', colref)."""
    acc = [] if acc is None else acc
    k = t[0]
    if k == 'ref':
        acc.append(('cell', tuple(t[1])))
    elif k == 'rng':
        acc.append(('rect', tuple(t[1])))
    elif k == 'col':
        acc.append(('col', tuple(t[1])))
    elif k == 'name':
        acc.append(('rect', tuple(names[t[1]]['rect'])) if names else ('name', t[1]))
    elif k in ('bin',):
        refs_of(t[2], names, acc)
        refs_of(t[3], names, acc)
    elif k == 'neg':
        refs_of(t[1], names, acc)
    elif k == 'fname':
        refs_of(t[2], names, acc)
    elif k == 'anchor':
        acc.append(('rect', tuple(t[2])))
    elif k == 'isect':
        # the intersection of two literal rectangles is taken when the formula is compiled: the formula reads that rectangle only
        (b, s_, r1, c1, r2, c2), (_, _, R1, C1, R2, C2) = t[1][1], t[2][1]
        acc.append(('rect', (b, s_, max(r1, R1), max(c1, C1), min(r2, R2), min(c2, C2))))
    elif k == 'uni':
        for a in t[1:]:
            refs_of(a, names, acc)
    elif k == 'fn':
        for a in t[2:]:
            refs_of(a, names, acc)
    return acc


def depends_on(spec):
    """cell key -> set of cell keys it reads directly (rectangles/columns expanded to populated cells)."""
    pop = populated(spec)
    out = {}
    for cell in spec['cells']:
        if 'f' not in cell:
            continue
        deps = set()
        for kind, x in refs_of(cell['f'], spec.get('names', [])):
            if kind == 'cell':
                deps.add(x)
            elif kind == 'rect':
                b, s, r1, c1, r2, c2 = x
                deps |= {k for k in pop if k[0] == b and k[1] == s and r1 <= k[2] <= r2 and c1 <= k[3] <= c2}
            elif kind == 'col':
                b, s, c1, c2 = x
                deps |= {k for k in pop if k[0] == b and k[1] == s and c1 <= k[3] <= c2}
        for k in cell_keys(cell):
            out[k] = deps
    return out


def cell_keys(cell):
    b, s, r, c = cell['at']
    if 'arr' in cell:
        r2, c2 = cell['arr']
        return [(b, s, i, j) for i in range(r, r2 + 1) for j in range(c, c2 + 1)]
    return [(b, s, r, c)]


def populated(spec):
    out = set()
    for cell in spec['cells']:
        out.update(cell_keys(cell))
    return out


def downstream(spec, keys):
    """All cells whose value may depend on any of `keys` (transitively)."""
    deps = depends_on(spec)
    hit = set(keys)
    changed = True
    while changed:
        changed = False
        for k, d in deps.items():
            if k not in hit and d & hit:
                hit.add(k)
                changed = True
    return hit
