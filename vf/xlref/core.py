"""Independent reference semantics for Excel scalars ("mini-Excel").

Values: float | bool | str | Err | BLANK (see vf.sut).  Every rule function
returns (value, rule_tag); the tag names the rule that decided the value and is
what failure signatures are built from (DESIGN.md 1.7).
Written from Excel's documented behaviour, not from the code under test."""
import re
import math
from decimal import Decimal

from ..sut import Err, BLANK, Blank, Foreign

NULL, DIV0, VALUE, REF, NAME, NUM, NA = (Err(t) for t in (
    '#NULL!', '#DIV/0!', '#VALUE!', '#REF!', '#NAME?', '#NUM!', '#N/A'))

_NUMTEXT = re.compile(r'^[ ]*[+-]?(\d+(\.\d*)?|\.\d+)([eE][+-]?\d+)?[ ]*$', re.A)


_PLAIN = re.compile(r'^[A-Za-z0-9 ]*$')


def kind(v):
    if isinstance(v, Err):
        return 'err'
    if isinstance(v, Blank):
        return 'blank'
    if isinstance(v, bool):
        return 'bool'
    if isinstance(v, float):
        return 'num'
    if isinstance(v, str):
        return 'numtext' if _NUMTEXT.match(v) else 'text'
    if isinstance(v, Foreign):
        return 'foreign:' + v.what
    raise TypeError(repr(v))


def cls(v):
    """Coarse class of an observed value (third component of signatures)."""
    if isinstance(v, Err):
        return v.t
    if isinstance(v, Foreign):
        return 'foreign:' + v.what
    if isinstance(v, Blank):
        return 'blank'
    if isinstance(v, bool):
        return 'bool'
    if isinstance(v, float):
        return 'num'
    return 'text'


def is_numtext(s):
    return bool(_NUMTEXT.match(s))


def to_number(v):
    """Arithmetic coercion.  -> (float | Err, tag)"""
    if isinstance(v, Err):
        return v, 'error:propagate'
    if isinstance(v, bool):
        return (1.0 if v else 0.0), 'coerce:logical'
    if isinstance(v, Blank):
        return 0.0, 'coerce:blank'
    if isinstance(v, float):
        return v, 'number'
    if isinstance(v, str):
        if _NUMTEXT.match(v):
            try:
                x = float(v.strip(' '))
            except ValueError:  # pragma: no cover
                return VALUE, 'coerce:text-nonnumeric'
            if math.isinf(x):
                return VALUE, 'coerce:text-overflow'
            return x, ('coerce:text-padded' if v != v.strip(' ') else 'coerce:text-numeric')
        if _pytrap(v):
            return VALUE, 'coerce:text-python-float-trap'
        return VALUE, ('coerce:text-empty' if v == '' else 'coerce:text-nonnumeric')
    raise TypeError(repr(v))


def _pytrap(s):
    """Text that Python's float() accepts but Excel does not."""
    try:
        float(s)
        return True
    except ValueError:
        return False


def finite(x, tag):
    if isinstance(x, complex) or x != x or x in (float('inf'), float('-inf')):
        return NUM, 'num:non-finite'
    return float(x), tag


def display(v):
    """Display form used by & (and text functions).  -> (str | Err | None, tag);
    None = outside the asserted class: only 'text that converts back to the
    same number' is asserted there."""
    if isinstance(v, Err):
        return v, 'error:propagate'
    if isinstance(v, Blank):
        return '', 'display:blank'
    if isinstance(v, bool):
        return ('TRUE' if v else 'FALSE'), 'display:logical'
    if isinstance(v, str):
        return v, 'display:text'
    x = v
    if x == 0:
        return '0', 'display:zero'
    if x == int(x) and abs(x) < 1e15:
        return str(int(x)), 'display:integer'
    r = repr(x)
    d = Decimal(r)
    digits = len(d.as_tuple().digits)
    if digits <= 15 and 1e-9 <= abs(x) < 1e15:
        s = format(d, 'f')
        if '.' in s:
            s = s.rstrip('0').rstrip('.')
        return s, ('display:decimal-small' if abs(x) < 1e-4 else 'display:decimal')
    return None, 'display:general-other'


def binary(op, a, b):
    """-> (value, tag)"""
    if op in ('+', '-', '*', '/', '^'):
        # left-most error operand; a coercion failure of the left operand comes
        # before an error in the right one only when the left one is not itself
        # an error -- that mixed case is ambiguous in the statement and is
        # reported with the tag 'error:mixed' (both answers accepted by callers).
        if isinstance(a, Err):
            return a, 'error:left-most'
        x, ta = to_number(a)
        if isinstance(b, Err):
            # the statement: "the left-most error OPERAND is returned unchanged" - text that merely fails to
            # coerce is not an error operand, so the error operand on the right is the result
            return b, ('error:right-of-bad-text' if isinstance(x, Err) else 'error:right')
        y, tb = to_number(b)
        if isinstance(x, Err):
            return x, ta
        if isinstance(y, Err):
            return y, tb
        tag = ta if ta != 'number' else tb
        tag = 'arith:' + tag
        try:
            if op == '+':
                return finite(x + y, tag)
            if op == '-':
                return finite(x - y, tag)
            if op == '*':
                return finite(x * y, tag)
            if op == '/':
                if y == 0:
                    return DIV0, 'div:by-zero'
                return finite(x / y, tag)
            return power(x, y)
        except OverflowError:
            return NUM, 'num:overflow'
    if op == '&':
        if isinstance(a, Err):
            return a, 'error:left-most'
        if isinstance(b, Err):
            return b, 'error:right'
        da, ta = display(a)
        db, tb = display(b)
        if da is None or db is None:
            return None, 'display:general-other'
        order = ['display:decimal-small', 'display:decimal', 'display:integer', 'display:zero',
                 'display:logical', 'display:blank', 'display:text']
        return da + db, 'concat:' + min((ta, tb), key=order.index)
    if op in ('=', '<>', '<', '>', '<=', '>='):
        if isinstance(a, Err):
            return a, 'error:left-most'
        if isinstance(b, Err):
            return b, 'error:right'
        c, tag = compare(a, b)
        if abs(c) == 2 and op not in ('=', '<>'):
            return (True, False), tag
        res = {'=': c == 0, '<>': c != 0, '<': c < 0, '>': c > 0, '<=': c <= 0, '>=': c >= 0}[op]
        return res, tag
    raise ValueError(op)


def power(x, y):
    if x == 0 and y == 0:
        return NUM, 'pow:0^0'
    if x == 0 and y < 0:
        return DIV0, 'pow:0^neg'
    if x < 0 and y != int(y):
        return NUM, 'pow:neg-base-frac-exp'
    try:
        r = x ** y
    except OverflowError:
        return NUM, 'pow:overflow'
    except ZeroDivisionError:  # pragma: no cover
        return DIV0, 'pow:0^neg'
    v, t = finite(r, 'pow:plain')
    return v, ('pow:overflow' if t == 'num:non-finite' else t)


def _rank(v):
    if isinstance(v, bool):
        return 2
    if isinstance(v, str):
        return 1
    return 0


def compare(a, b):
    """Excel's total order: numbers < text < logicals; blank is the zero of the
    other operand's kind.  -> (-1|0|1, tag)"""
    tag = None
    if isinstance(a, Blank) and isinstance(b, Blank):
        return 0, 'cmp:blank-blank'
    if isinstance(a, Blank):
        a = '' if isinstance(b, str) else (False if isinstance(b, bool) else 0.0)
        tag = 'cmp:blank-vs-' + ('text' if isinstance(b, str) else 'logical' if isinstance(b, bool) else 'number')
    if isinstance(b, Blank):
        b = '' if isinstance(a, str) else (False if isinstance(a, bool) else 0.0)
        tag = 'cmp:blank-vs-' + ('text' if isinstance(a, str) else 'logical' if isinstance(a, bool) else 'number')
    ra, rb = _rank(a), _rank(b)
    if ra != rb:
        return (-1 if ra < rb else 1), tag or 'cmp:cross-kind'
    if ra == 1:
        x, y = a.lower(), b.lower()
        if x != y and not (_PLAIN.match(a) and _PLAIN.match(b)):
            # ordering of punctuation / non-ASCII text is collation dependent: only (in)equality is asserted
            return (-2 if x < y else 2), 'cmp:text-collation'
        if a != b and x == y:
            tag = tag or 'cmp:text-case-insensitive'
        elif (x < y) != (a < b) or (x > y) != (a > b):
            tag = tag or 'cmp:text-case-insensitive'
        else:
            tag = tag or 'cmp:text'
        return (-1 if x < y else 1 if x > y else 0), tag
    if ra == 2:
        return (-1 if a < b else 1 if a > b else 0), tag or 'cmp:logical'
    return (-1 if a < b else 1 if a > b else 0), tag or 'cmp:number'


def unary(op, a):
    if isinstance(a, Err):
        return a, 'error:propagate'
    if op == 'u+':
        # identity: no coercion; a blank reference shows as 0 like any formula result
        if isinstance(a, Blank):
            return 0.0, 'uplus:blank'
        return a, 'uplus:identity'
    x, t = to_number(a)
    if isinstance(x, Err):
        return x, t
    if op == 'u-':
        return finite(-x, 'neg:' + t)
    if op == '%':
        return finite(x / 100.0, 'pct:' + t)
    raise ValueError(op)


def num_eq(a, b, rel=1e-12):
    if a == b:
        return True
    return abs(a - b) <= rel * max(abs(a), abs(b)) or abs(a - b) < 1e-300


def same(got, exp, rel=1e-12):
    """Value equality of the harness domain with numeric tolerance; -0.0 == 0."""
    if isinstance(exp, tuple):  # several admissible answers
        return any(same(got, e, rel) for e in exp)
    if isinstance(got, bool) or isinstance(exp, bool):
        return isinstance(got, bool) and isinstance(exp, bool) and got == exp
    if isinstance(got, float) and isinstance(exp, float):
        return num_eq(got, exp, rel)
    return type(got) is type(exp) and got == exp


def literal(v, paren_negative=True):
    """Formula text of a scalar literal."""
    if isinstance(v, Err):
        return v.t
    if isinstance(v, bool):
        return 'TRUE' if v else 'FALSE'
    if isinstance(v, str):
        return '"%s"' % v.replace('"', '""')
    if isinstance(v, float):
        s = num_literal(abs(v))
        if v < 0 or (v == 0 and math.copysign(1, v) < 0):
            return ('(-%s)' if paren_negative else '-%s') % s
        return s
    raise TypeError(repr(v))


def num_literal(x):
    """Non-negative float -> text accepted by Excel's number grammar that
    round-trips exactly (digits[.digits][E+-digits])."""
    if x == int(x) and x < 1e15:
        return str(int(x))
    r = repr(x)
    if 'e' in r:
        m, e = r.split('e')
        return '%sE%s%d' % (m, '+' if int(e) >= 0 else '-', abs(int(e)))
    return r
