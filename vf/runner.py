"""Shared runner: tiers, seeds, sharding over cores, watchdog, evidence,
replay files, known findings.  See DESIGN.md section 1.2 / 1.6 / 1.7 / 1.8."""
import os
import sys
import json
import time
import signal
import fnmatch
import hashlib
import importlib
import traceback
import collections
import contextlib
import multiprocessing as mp

ROOT = os.path.dirname(os.path.dirname(os.path.abspath(__file__)))
OUT = os.environ.get('VF_OUTDIR') or ROOT  # evidence/ and replays/ go here (mutant runs use a scratch dir)
NCPU = int(os.environ.get('VF_WORKERS', '0')) or min(16, os.cpu_count() or 1)
HYP_JOB_CAP = 2500  # Hypothesis examples per job process
WATCHDOG_S = 30


# --------------------------------------------------------------------------
# results of one case
# --------------------------------------------------------------------------
def R(fails=(), nt=None, labels=(), n=1):
    """Result of check_case.
    fails : list of (signature, detail) -- disagreements with the oracle
    nt    : None/False = trivial case; True = non-trivial (distinct by the case's
            canonical JSON); a list = explicit distinct keys; an int = that many
            non-trivial sub-cases guaranteed distinct (block cases)
    n     : number of evaluations this case stands for (block cases)"""
    return {'fails': list(fails), 'nt': nt, 'labels': list(labels), 'n': n}


def canon(obj):
    return json.dumps(obj, sort_keys=True, default=repr, ensure_ascii=False)


def digest(obj):
    s = obj if isinstance(obj, str) else canon(obj)
    return hashlib.blake2b(s.encode('utf8', 'surrogatepass'), digest_size=8).hexdigest()


class Stats:
    def __init__(self):
        self.evaluations = 0
        self.cases = 0
        self.nt_keys = set()
        self.nt_block = 0
        self.labels = collections.Counter()
        self.samples = []
        self.fails = {}  # sig -> (case, detail, size)
        self.known_hits = collections.Counter()
        self.harness_errors = []
        self.notes = []
        self._k = 0

    def add(self, case, res, known, keep_sample=True):
        self.cases += 1
        self.evaluations += res.get('n', 1)
        nt = res.get('nt')
        if nt is True:
            self.nt_keys.add(digest(case))
        elif isinstance(nt, int) and not isinstance(nt, bool):
            self.nt_block += nt
        elif isinstance(nt, (list, tuple, set)):
            for k in nt:
                self.nt_keys.add(digest(k))
        for lb in res.get('labels', ()):
            self.labels[lb] += 1
        if keep_sample:
            self._k += 1
            k = self._k
            if k <= 2 or (k & (k - 1)) == 0:  # 1,2,4,8,16 ... spread over the run
                self.samples.append(_short(case))
        unknown = []
        for sig, detail in res['fails']:
            fid = known.match(sig)
            if fid:
                self.known_hits[fid] += 1
            else:
                unknown.append((sig, detail))
                size = len(canon(case))
                if sig not in self.fails or size < self.fails[sig][2]:
                    self.fails[sig] = (case, detail, size)
        return unknown

    def merge(self, o):
        self.evaluations += o.evaluations
        self.cases += o.cases
        self.nt_keys |= o.nt_keys
        self.nt_block += o.nt_block
        self.labels.update(o.labels)
        self.samples.extend(o.samples)
        for sig, v in o.fails.items():
            if sig not in self.fails or v[2] < self.fails[sig][2]:
                self.fails[sig] = v
        self.known_hits.update(o.known_hits)
        self.harness_errors.extend(o.harness_errors)
        self.notes.extend(o.notes)


def _short(case, lim=700):
    s = canon(case)
    if len(s) <= lim:
        return json.loads(s)
    return s[:lim] + '...'


# --------------------------------------------------------------------------
# known findings
# --------------------------------------------------------------------------
class Known:
    def __init__(self, prop):
        self.prop = prop
        self.open, self.fixed = [], []
        paths = [os.path.join(ROOT, 'known_findings.json')]
        kd = os.path.join(ROOT, 'known_findings.d')
        if os.path.isdir(kd):
            paths += [os.path.join(kd, fn) for fn in sorted(os.listdir(kd)) if fn.endswith('.json')]
        for path in paths:
            if not os.path.exists(path):
                continue
            data = None
            for attempt in range(5):  # another process may be rewriting the file
                try:
                    with open(path) as f:
                        data = json.load(f)
                    break
                except ValueError:
                    time.sleep(0.2)
            if data is None:
                raise ValueError('unreadable known-findings file %s' % path)
            for fd in data.get('findings', []):
                if prop not in fd.get('properties', [fd.get('property')]):
                    continue
                (self.open if fd.get('status') == 'open' else self.fixed).append(fd)
        self._exact, self._globs = {}, []
        for fd in self.open:
            for s in fd.get('signatures', {}).get(prop, []) if isinstance(
                    fd.get('signatures'), dict) else fd.get('signatures', []):
                if any(c in s for c in '*?['):
                    self._globs.append((s, fd['id']))
                else:
                    self._exact[s] = fd['id']

    def match(self, sig):
        fid = self._exact.get(sig)
        if fid:
            return fid
        for g, fid in self._globs:
            if fnmatch.fnmatchcase(sig, g):
                return fid
        return None

    def examples(self, fd):
        ex = fd.get('examples', {})
        if isinstance(ex, dict):
            return ex.get(self.prop, [])
        return ex


# --------------------------------------------------------------------------
# safe execution of one case
# --------------------------------------------------------------------------
@contextlib.contextmanager
def alarm(seconds):
    from . import sut

    def handler(signum, frame):
        raise sut.Watchdog()
    try:
        old = signal.signal(signal.SIGALRM, handler)
    except ValueError:  # not main thread
        yield
        return
    signal.setitimer(signal.ITIMER_REAL, seconds)
    try:
        yield
    finally:
        signal.setitimer(signal.ITIMER_REAL, 0)
        signal.signal(signal.SIGALRM, old)


def _innermost_repo_frame(tb):
    from . import sut
    best = None
    for fs in traceback.extract_tb(tb):
        fn = os.path.abspath(fs.filename)
        if fn.startswith(sut.REPO + os.sep):
            best = '%s:%s' % (os.path.relpath(fn, sut.REPO), fs.name)
    last = traceback.extract_tb(tb)[-1]
    in_vf = os.path.abspath(last.filename).startswith(os.path.join(ROOT, 'vf'))
    return best, in_vf


def safe_check(mod, case):
    """check_case with watchdog.  An exception that escapes check_case from
    inside the repository is a failure of the case (crash signature); an
    exception raised by the harness' own code is a harness error."""
    from . import sut
    try:
        with alarm(getattr(mod, 'WATCHDOG_S', WATCHDOG_S)):
            return mod.check_case(case)
    except sut.Watchdog:
        return R(labels=['inconclusive:watchdog'])
    except Exception as ex:  # noqa
        frame, in_vf = _innermost_repo_frame(ex.__traceback__)
        if frame and not in_vf:
            return R(fails=[('crash|%s|%s' % (type(ex).__name__, frame),
                             '%s: %s' % (type(ex).__name__, str(ex)[:300]))],
                     labels=['crash'])
        r = R(labels=['harness-error'])
        r['harness_error'] = traceback.format_exc()[-3000:]
        return r


def _account(st, case, res, known, keep_sample=True):
    if 'harness_error' in res:
        if len(st.harness_errors) < 5:
            st.harness_errors.append({'case': _short(case), 'tb': res['harness_error']})
    return st.add(case, res, known, keep_sample)


# --------------------------------------------------------------------------
# workers
# --------------------------------------------------------------------------
def _w_enum(args):
    modname, cases = args
    mod = importlib.import_module(modname)
    known = Known(mod.ID)
    st = Stats()
    for case in cases:
        _account(st, case, safe_check(mod, case), known)
    return st


class _Violation(Exception):
    pass


def _w_hyp(args):
    """One shard of a Hypothesis search.  Known findings return normally so the
    search continues behind them; an unknown failure is shrunk, recorded, its
    signature is remembered and the search restarts (<= max_rounds)."""
    modname, sname, n_examples, seed_value, tier = args
    import hypothesis
    from hypothesis import given, settings, HealthCheck, Phase
    mod = importlib.import_module(modname)
    known = Known(mod.ID)
    st = Stats()
    strategy = mod.STRATEGIES[sname](tier)
    seen = set()
    phases = [Phase.generate, Phase.shrink]
    if not getattr(mod, 'SHRINK', True) or os.environ.get('VF_NOSHRINK'):
        phases = [Phase.generate]  # development aid: collect signatures fast, unshrunk
    for rnd in range(4):
        box = {}

        @hypothesis.seed(seed_value * 7 + rnd)
        @settings(max_examples=n_examples, database=None, deadline=None,
                  derandomize=False, report_multiple_bugs=False,
                  suppress_health_check=list(HealthCheck), phases=phases,
                  verbosity=hypothesis.Verbosity.quiet)
        @given(strategy)
        def t(case):
            res = safe_check(mod, case)
            shrinking = 'sig' in box
            unknown = _account(st, case, res, known, keep_sample=not shrinking)
            unknown = [u for u in unknown if u[0] not in seen]
            if unknown:
                if not shrinking:
                    box['sig'] = unknown[0][0]
                if any(u[0] == box['sig'] for u in unknown):
                    raise _Violation(box['sig'])

        try:
            t()
        except _Violation:
            seen.add(box['sig'])
            continue
        except hypothesis.errors.HypothesisException as ex:
            st.harness_errors.append({'case': sname, 'tb': 'hypothesis: %r' % ex})
        break
    return st


def _w_custom(args):
    modname, fname, arg, tier, seed_value = args
    mod = importlib.import_module(modname)
    known = Known(mod.ID)
    st = Stats()
    try:
        getattr(mod, fname)(arg, tier, seed_value, st, known)
    except Exception:
        st.harness_errors.append({'case': '%s(%r)' % (fname, arg),
                                  'tb': traceback.format_exc()[-3000:]})
    return st


def _job_child(conn, func, job):
    import resource
    try:
        res = ('ok', func(job))
    except BaseException:  # noqa  (reported to the parent as a harness error, never as a verdict)
        res = ('err', traceback.format_exc()[-3000:])
    try:
        conn.send(res + (resource.getrusage(resource.RUSAGE_SELF).ru_maxrss // 1024,))
        conn.close()
    finally:
        os._exit(0)


class LostJob(Exception):
    pass


def run_jobs(func, jobs, nproc, info=None):
    """Every job runs in a forked process of its own (no state or memory carried from one job to the next);
    results are yielded as they arrive.  A process that disappears without a result (OOM killer, a stray signal)
    is started again once; a second loss raises LostJob - the run ends as a harness error instead of waiting forever."""
    from multiprocessing.connection import wait
    ctx = mp.get_context('fork')
    it = iter(jobs)
    running = {}
    info = info if info is not None else {}
    exhausted = False

    def start(job, attempt):
        r, w = ctx.Pipe(duplex=False)
        pr = ctx.Process(target=_job_child, args=(w, func, job))
        pr.start()
        w.close()
        running[r] = (pr, job, attempt)

    while True:
        while not exhausted and len(running) < nproc:
            try:
                start(next(it), 0)
            except StopIteration:
                exhausted = True
        if not running:
            return
        for r in wait(list(running)):
            pr, job, attempt = running.pop(r)
            try:
                msg = r.recv()
            except (EOFError, OSError):
                msg = None
            r.close()
            pr.join()
            if msg is None:
                info['lost_jobs'] = info.get('lost_jobs', 0) + 1
                if attempt >= 1:
                    for r2, (p2, _, _) in list(running.items()):
                        p2.kill()
                    raise LostJob('a worker process died twice (exit code %r) on job %s' % (pr.exitcode, _short(job)))
                start(job, attempt + 1)
                continue
            info['max_job_rss_mb'] = max(info.get('max_job_rss_mb', 0), msg[2])
            if msg[0] == 'err':
                raise LostJob('worker raised outside the harness\' own handling:\n' + msg[1])
            yield msg[1]


def _chunks(it, size):
    buf = []
    for x in it:
        buf.append(x)
        if len(buf) >= size:
            yield buf
            buf = []
    if buf:
        yield buf


# --------------------------------------------------------------------------
# main entry
# --------------------------------------------------------------------------
def run_property(modname, tier, seed_value):
    t0 = time.time()
    mod = importlib.import_module(modname)
    pid = mod.ID
    known = Known(pid)
    total = Stats()
    per_part = {}
    per_part_wall = {}
    exhaustive = {}
    budget = float(os.environ.get('VF_BUDGET_S', '0')) or None
    budget_exhausted = False
    lines = []

    # 1. replay tier: examples of listed findings + committed regression corpus
    still_open = []
    for fd in known.open + known.fixed:
        hit = False
        for case in known.examples(fd):
            res = safe_check(mod, case)
            _account(total, case, res, known, keep_sample=False)
            if fd in known.open and any(known.match(s) == fd['id'] for s, _ in res['fails']):
                hit = True
        if fd in known.open and (hit or not known.examples(fd)):
            still_open.append(fd)
    rdir = os.path.join(ROOT, 'replays', 'regress', pid)
    if os.path.isdir(rdir):
        for fn in sorted(os.listdir(rdir)):
            if fn.endswith('.json'):
                with open(os.path.join(rdir, fn)) as f:
                    case = json.load(f)['case']
                _account(total, case, safe_check(mod, case), known, keep_sample=False)
    per_part['replay'] = total.cases

    # 2. the parts
    parts = mod.parts(tier, seed_value)
    import hypothesis  # noqa  (imported before forking: every job process inherits it)
    jobinfo = {}
    if True:
        for part in parts:
            kind, name = part[0], part[1]
            opts = part[-1] if isinstance(part[-1], dict) else {}
            if opts:
                part = part[:-1]
            nproc = min(NCPU, opts.get('nproc', NCPU))  # memory-hungry parts (whole-column references) ask for fewer processes
            before = total.evaluations
            t_part = time.time()
            if budget and time.time() - t0 > budget:
                budget_exhausted = True
                break
            if kind == 'enum':
                cases, chunk = part[2], (part[3] if len(part) > 3 else 100)
                exh = part[4] if len(part) > 4 else False
                jobs = ((modname, c) for c in _chunks(cases, chunk))
                for st in run_jobs(_w_enum, jobs, nproc, jobinfo.setdefault(name, {})):
                    total.merge(st)
                exhaustive[name] = bool(exh)
            elif kind == 'hyp':
                n = part[2]
                min_per = part[3] if len(part) > 3 else 20
                shards = min(NCPU, max(1, n // min_per))
                if n // shards > HYP_JOB_CAP:  # long searches are cut into more jobs: a job's memory ends with its process
                    shards = -(-n // HYP_JOB_CAP)
                per = max(1, n // shards)
                jobs = [(modname, name, per, seed_value * 4096 + i, tier) for i in range(shards)]
                for st in run_jobs(_w_hyp, jobs, nproc, jobinfo.setdefault(name, {})):
                    total.merge(st)
                exhaustive[name] = False
            elif kind == 'custom':
                fname, arglist = part[2], part[3]
                jobs = [(modname, fname, a, tier, seed_value) for a in arglist]
                for st in run_jobs(_w_custom, jobs, nproc, jobinfo.setdefault(name, {})):
                    total.merge(st)
                exhaustive[name] = bool(part[4]) if len(part) > 4 else False
            else:
                raise ValueError(kind)
            per_part[name] = total.evaluations - before
            per_part_wall[name] = round(time.time() - t_part, 1)

    # 3. confirm + report unknown failures (re-executed here, in another process
    #    than the worker that found them, before being believed)
    violations = []
    for sig, (case, detail, _) in sorted(total.fails.items()):
        res = safe_check(mod, case)
        sigs = [s for s, _ in res['fails']]
        if sig not in sigs:
            if 'inconclusive:watchdog' in res['labels']:
                total.notes.append('unconfirmed (watchdog): %s' % sig)
                continue
            total.notes.append('not reproduced in a fresh evaluation: %s' % sig)
            # still a real observation of non-determinism: report it, flagged
            detail = '[FLAKY: not reproduced on re-execution] ' + str(detail)
        path = write_replay(pid, case, sig, detail, seed_value, tier)
        violations.append((sig, path))

    # 4. generator floors
    floor_errors = []
    for lb, (kind_, minimum) in getattr(mod, 'FLOORS', {}).items():
        have = total.labels.get(lb, 0)
        if kind_ == 'count' and have < minimum.get(tier, 0):
            floor_errors.append('label %r seen %d < %d' % (lb, have, minimum[tier]))
        if kind_ == 'frac' and total.cases and have / total.cases < minimum:
            floor_errors.append('label %r fraction %.3f < %.3f' % (lb, have / total.cases, minimum))

    distinct_nt = len(total.nt_keys) + total.nt_block
    # evidence
    samples = total.samples[:]
    if len(samples) > 12:
        step = len(samples) / 12.0
        samples = [samples[int(i * step)] for i in range(12)]
    ev = {
        'property_id': pid, 'tier': tier, 'seed': seed_value, 'level': 'exploration',
        'coverage': {
            'evaluations': total.evaluations,
            'cases': total.cases,
            'distinct_nontrivial': distinct_nt,
            'rule': mod.RULE,
            'samples': samples,
            'exhaustive': bool(exhaustive) and all(exhaustive.values()),
            'exhaustive_parts': exhaustive,
            'per_part_evaluations': per_part,
            'per_part_wall_s': per_part_wall,
            'labels': dict(total.labels.most_common(120)),
            'known_finding_hits': dict(total.known_hits),
            'known_findings_open': [fd['id'] for fd in still_open],
            'budget_exhausted': budget_exhausted,
            'workers': NCPU,
            'job_processes': jobinfo,
            'notes': total.notes[:20],
        },
        'assumptions': list(getattr(mod, 'ASSUMPTIONS', [])),
        'wall_s': round(time.time() - t0, 2),
        'violations': len(violations),
    }
    os.makedirs(os.path.join(OUT, 'evidence'), exist_ok=True)
    with open(os.path.join(OUT, 'evidence', '%s.json' % pid), 'w') as f:
        json.dump(ev, f, indent=1, default=repr, ensure_ascii=False)

    for fd in still_open:
        print('KNOWN-FINDING: property=%s %s: %s' % (pid, fd['id'], fd['what']))
    for sig, path in violations:
        print('VIOLATION property=%s replay=%s' % (pid, path))
        print('  signature: %s' % sig)
    print('%s %s seed=%d: %d evaluations (%d cases), %d distinct non-trivial, '
          '%d known-finding hits, %d violation(s), %.1fs' % (
              pid, tier, seed_value, total.evaluations, total.cases, distinct_nt,
              sum(total.known_hits.values()), len(violations), time.time() - t0))
    if violations:
        return 1
    if total.harness_errors or floor_errors:
        for he in total.harness_errors[:3]:
            print('HARNESS-ERROR %s\n%s' % (he['case'], he['tb']), file=sys.stderr)
        for fe in floor_errors:
            print('HARNESS-ERROR generator floor: %s' % fe, file=sys.stderr)
        return 2
    if distinct_nt < 2 or total.evaluations < 1:
        print('HARNESS-ERROR nothing non-trivial explored', file=sys.stderr)
        return 2
    return 0


def write_replay(pid, case, sig, detail, seed_value, tier):
    d = os.path.join(OUT, 'replays', pid)
    os.makedirs(d, exist_ok=True)
    body = {'property': pid, 'signature': sig, 'detail': detail, 'case': case,
            'seed': seed_value, 'tier': tier}
    path = os.path.join('replays', pid, '%s.json' % digest(canon(case) + sig))
    with open(os.path.join(OUT, path), 'w') as f:
        json.dump(body, f, indent=1, default=repr, ensure_ascii=False)
    return path


def replay(path):
    with open(path) as f:
        body = json.load(f)
    pid = body['property']
    mod = importlib.import_module('vf.props.%s' % pid.lower())
    known = Known(pid)
    res = safe_check(mod, body['case'])
    if 'harness_error' in res:
        print(res['harness_error'], file=sys.stderr)
        return 2
    bad = [(s, d) for s, d in res['fails'] if not known.match(s)]
    for s, d in res['fails']:
        print('%s %s :: %s' % ('known  ' if known.match(s) else 'FAILS  ', s, d))
    if bad:
        print('VIOLATION property=%s replay=%s' % (pid, path))
        return 1
    print('replay passes: %s' % path)
    return 0
