import os
import sys
import subprocess


def main(argv):
    if not argv:
        print(__doc__ or 'usage: check <Cnn> <quick|thorough> | replay <file> | setup')
        return 2
    if argv[0] == 'setup':
        return setup()
    from . import runner
    if argv[0] == 'replay':
        return runner.replay(argv[1])
    pid = argv[0].upper()
    tier = argv[1] if len(argv) > 1 else os.environ.get('VERIF_TIER', 'quick')
    if tier not in ('quick', 'thorough'):
        print('tier must be quick or thorough', file=sys.stderr)
        return 2
    try:
        seed = int(os.environ.get('VERIF_SEED', '1') or 1)
    except ValueError:
        seed = 1
    try:
        return runner.run_property('vf.props.%s' % pid.lower(), tier, seed)
    except Exception:
        import traceback
        traceback.print_exc()
        return 2


def setup():
    """Offline: make sure hypothesis is importable in /venv (it already is on
    this image); atheris goes into /verif/.deps for the C18 fuzz target."""
    rc = 0
    try:
        import hypothesis  # noqa
    except ImportError:
        rc |= subprocess.call(['/venv/bin/pip', 'install', '--no-index', '--find-links',
                               '/opt/veriftools/wheels', 'hypothesis'])
    root = os.path.dirname(os.path.dirname(os.path.abspath(__file__)))
    deps = os.path.join(root, '.deps')
    if not os.path.isdir(os.path.join(deps, 'atheris')):
        subprocess.call(['/venv/bin/pip', 'install', '--no-index', '--find-links',
                         '/opt/veriftools/wheels', '--target', deps, 'atheris'],
                        stdout=subprocess.DEVNULL, stderr=subprocess.DEVNULL)
    from . import sut  # noqa  (checks that formulas imports from /repo)
    print('setup ok: formulas from', sut.REPO)
    return rc


if __name__ == '__main__':
    sys.exit(main(sys.argv[1:]))
