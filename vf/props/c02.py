"""C02 - operators implement Excel's scalar semantics for every operand kind."""
import math
from hypothesis import strategies as st

from .. import sut
from ..sut import Err, BLANK, Blank, Foreign
from ..runner import R
from ..xlref import core as X

ID = 'C02'
RULE = ('Complete cross product of a value pool (numbers 0, +-1, 2, 3, fractions, 1.15, 2.675, 1e+-200; numeric, padded, '
        'non-numeric and empty text; TRUE/FALSE; blank reference; all 7 errors; thorough adds Python-float traps) x 12 binary '
        'and 3 unary operators, each operand pair given as cell values (=B1 op C1 evaluated through a Dispatcher, and the compiled function of that formula called directly with the two cell values) and as '
        'literals (="3"+TRUE compiled and called) and as computed sub-expressions (=(1=1)+("3"&""): numpy scalars); plus Hypothesis random finite floats (subnormals, +-1e308, >2^53) and '
        'an oracle-free trichotomy/transitivity check of the six comparisons over all pool triples. Oracle: vf/xlref/core '
        '(own coercion, error, power, display and ordering rules). Non-trivial = operands of different kinds, or an '
        'error/blank/text operand, or an error result; distinct by (operator, a, b, spelling).')
ASSUMPTIONS = ['xlref.core is my reading of Excel\'s documented operator rules; number->text display is asserted exactly only '
               'for integers < 1e15 and decimals with <= 15 significant digits in [1e-9, 1e15)',
               'when the left operand is non-numeric text and the right one an error value, the error operand is expected (literal reading of "the left-most error operand is returned unchanged")']

BIN = ['+', '-', '*', '/', '^', '&', '=', '<>', '<', '>', '<=', '>=']
UN = ['u-', 'u+', '%']
OPCLASS = {'+': 'arith', '-': 'arith', '*': 'arith', '/': 'arith', '^': 'pow', '&': 'concat',
           '=': 'cmp', '<>': 'cmp', '<': 'cmp', '>': 'cmp', '<=': 'cmp', '>=': 'cmp'}

NUMS = [0.0, -0.0, 1.0, -1.0, 2.0, 3.0, 0.5, -2.5, 1.15, 2.675, 1e200, -1e200, 1e-200, 1234567.0, 0.00001]
NUMTEXT = ['3', ' 3 ', '-1.5', '1e3', '0']
TEXT = ['abc', 'a', 'A', 'B', 'b', '', ' ']
TRAPS = ['inf', 'nan', '1_0', '３', 'Infinity', '0x10', '1,5']
EDGE_TEXT = ['-1e999', '5.', '1e999']  # numeric text beyond the double range on both sides; a trailing decimal point
ERRS = [Err(e) for e in sut.ERRORS]


def pool(tier):
    p = NUMS + NUMTEXT + TEXT + [True, False, BLANK] + ERRS
    p += TRAPS[:3] if tier == 'quick' else TRAPS
    p += EDGE_TEXT
    return p


def enc(v):
    if isinstance(v, Err):
        return ['E', v.t]
    if isinstance(v, Blank):
        return None
    return v


def dec(v):
    if v is None:
        return BLANK
    if isinstance(v, list):
        return Err(v[1])
    if isinstance(v, int) and not isinstance(v, bool):
        return float(v)
    return v


_DSP = {}


def cell_binary(op, a, b):
    key = ('b', op)
    if key not in _DSP:
        dsp = sut.sh.Dispatcher(raises=False)
        c = sut.Cell('A1', '=B1%sC1' % op).compile()
        c.add(dsp)
        _DSP[key] = (dsp, c.output)
    dsp, out = _DSP[key]
    sol = dsp({'B1': sut.rng('B1', [[a]]), 'C1': sut.rng('C1', [[b]])})
    if out not in sol:
        return Foreign('no-output')
    return sut.one(sol[out])


def cell_unary(op, a):
    key = ('u', op)
    if key not in _DSP:
        dsp = sut.sh.Dispatcher(raises=False)
        f = {'u-': '=-B1', 'u+': '=+B1', '%': '=B1%'}[op]
        c = sut.Cell('A1', f).compile()
        c.add(dsp)
        _DSP[key] = (dsp, c.output)
    dsp, out = _DSP[key]
    sol = dsp({'B1': sut.rng('B1', [[a]])})
    if out not in sol:
        return Foreign('no-output')
    return sut.one(sol[out])


def func_eval(text, vals):
    """The compiled formula called directly with its cell inputs (no Dispatcher, no output filter in between)."""
    key = ('f', text)
    if key not in _DSP:
        _DSP[key] = sut.compile_formula(text)
    f = _DSP[key]
    res = f(*[sut.rng(k, [[vals[k]]]) for k in f.inputs])
    return sut.one(res)


def lit_eval(f):
    try:
        func = sut.compile_formula(f)
        return sut.one(func())
    except sut.Watchdog:
        raise
    except Exception as ex:  # the statement: never an exception
        return Foreign('raised:%s' % type(ex).__name__)


def computed(v):
    """The same value as the result of a sub-expression: results of operators and functions come back as numpy
    scalars / 0-d arrays, which the scalar rules must treat exactly like literals (a numpy boolean is not a bool)."""
    if isinstance(v, bool):
        return 'AND(1=1,1=1)' if v else 'AND(1=1,1=2)'  # AND returns a numpy boolean
    if isinstance(v, float):
        return '(%s+0)' % X.literal(v)
    if isinstance(v, str):
        return '(%s&"")' % X.literal(v)
    return X.literal(v)


def judge(opc, op, a, b, got, exp, tag):
    """-> list of failures"""
    if got == Foreign('no-output'):
        return [('%s|%s|no-output' % (opc, tag), 'no value produced')]
    if exp is None:
        # display form outside the asserted class: text that converts back
        if tag == 'display:general-other' and op in ('&',):
            if not isinstance(got, str):
                return [('%s|%s|%s' % (opc, tag, X.cls(got)), 'expected text, got %r' % (got,))]
            return []
        return []
    # + - * / are single IEEE operations: the result is asserted bit for bit (a power may differ in the last place)
    if X.same(got, exp, 0.0 if op in ('+', '-', '*', '/') else 1e-12):
        return []
    if X.same(got, exp):
        return [('%s|%s|last-place' % (opc, tag), 'got %r, expected exactly %r' % (got, exp))]
    return [('%s|%s|%s' % (opc, tag, X.cls(got)), 'got %r, expected %r' % (got, exp))]


def check_pair(case):
    op, a, b, sp = case['op'], dec(case['a']), dec(case['b']), case['sp']
    exp, tag = X.binary(op, a, b)
    if sp in ('cell', 'func'):
        try:
            got = cell_binary(op, a, b) if sp == 'cell' else func_eval('=B1%sC1' % op, {'B1': a, 'C1': b})
        except sut.Watchdog:
            raise
        except Exception as ex:
            got = Foreign('raised:%s' % type(ex).__name__)
        text = '=B1%sC1 with B1=%r, C1=%r%s' % (op, a, b, ' (compiled function called directly)' if sp == 'func' else '')
    elif sp in ('cell-lit', 'lit-cell'):
        # one operand read from a cell, the other one written into the formula
        f = ('=B1%s%s' % (op, X.literal(b))) if sp == 'cell-lit' else ('=%s%sB1' % (X.literal(a), op))
        text = f + ' with B1=%r' % ((a if sp == 'cell-lit' else b),)
        try:
            v, _ = sut.cell_eval('A1', f, {'B1': [[a if sp == 'cell-lit' else b]]})
            got = sut.one(v) if not isinstance(v, str) or v != 'MISSING' else Foreign('no-output')
        except sut.Watchdog:
            raise
        except Exception as ex:
            got = Foreign('raised:%s' % type(ex).__name__)
    elif sp == 'comp':
        text = '=%s%s%s' % (computed(a), op, computed(b))
        got = lit_eval(text)
    elif sp == 'blank-comp':
        # a blank cell against a computed operand (only a cell can be blank)
        if isinstance(a, Blank):
            f = '=B1%s%s' % (op, computed(b))
        else:
            f = '=%s%sB1' % (computed(a), op)
        text = f + ' with B1 blank'
        try:
            v, _ = sut.cell_eval('A1', f, {'B1': [[BLANK]]})
            got = sut.one(v) if not isinstance(v, str) or v != 'MISSING' else Foreign('no-output')
        except sut.Watchdog:
            raise
        except Exception as ex:
            got = Foreign('raised:%s' % type(ex).__name__)
    else:
        text = '=%s%s%s' % (X.literal(a), op, X.literal(b))
        got = lit_eval(text)
    fails = [(s, '%s: %s' % (text, d)) for s, d in judge(OPCLASS[op], op, a, b, got, exp, tag)]
    # general-other display with an empty right operand: must convert back to the same number
    if op == '&' and exp is None and isinstance(a, float) and b == '' and isinstance(got, str):
        try:
            ok = float(got) == a
        except ValueError:
            ok = False
        if not ok:
            fails.append(('concat|display:roundtrip|text', '%s: %r does not read back as %r' % (text, got, a)))
    ka, kb = X.kind(a), X.kind(b)
    nt = ka != kb or ka in ('err', 'blank', 'text', 'numtext') or isinstance(exp, Err)
    return R(fails, nt=nt, labels=[sp, 'rule:' + tag])


def check_unary(case):
    op, a, sp = case['op'], dec(case['a']), case['sp']
    exp, tag = X.unary(op, a)
    if sp in ('cell', 'func'):
        try:
            got = cell_unary(op, a) if sp == 'cell' else func_eval({'u-': '=-B1', 'u+': '=+B1', '%': '=B1%'}[op], {'B1': a})
        except sut.Watchdog:
            raise
        except Exception as ex:
            got = Foreign('raised:%s' % type(ex).__name__)
        text = '%s on B1=%r%s' % (op, a, ' (compiled function called directly)' if sp == 'func' else '')
    else:
        la = X.literal(a)
        text = {'u-': '=-%s', 'u+': '=+%s', '%': '=%s%%'}[op] % la
        got = lit_eval(text)
    fails = []
    if not X.same(got, exp):
        fails.append(('%s|%s|%s' % (op, tag, X.cls(got)), '%s: got %r, expected %r' % (text, got, exp)))
    elif not X.same(got, exp, 0.0):  # x% is one IEEE division by 100, a sign change is exact
        fails.append(('%s|%s|last-place' % (op, tag), '%s: got %r, expected exactly %r' % (text, got, exp)))
    return R(fails, nt=X.kind(a) != 'num' or isinstance(exp, Err), labels=[sp, 'rule:' + tag])


def check_order(case):
    """Oracle-free: for every pair exactly one of < = > holds and <= >= <> are
    their disjunction/negation; the relation is transitive over all triples."""
    vals = [dec(v) for v in case['pool']]
    vals = [v for v in vals if not isinstance(v, Err)]
    n = len(vals)
    fails = []
    lt = [[None] * n for _ in range(n)]
    eq = [[None] * n for _ in range(n)]
    for i, a in enumerate(vals):
        for j, b in enumerate(vals):
            r = {op: cell_binary(op, a, b) for op in ('<', '=', '>', '<=', '>=', '<>')}
            if not all(isinstance(x, bool) for x in r.values()):
                fails.append(('order|non-logical', '%r ? %r -> %r' % (a, b, r)))
                continue
            if [r['<'], r['='], r['>']].count(True) != 1:
                fails.append(('order|trichotomy', '%r ? %r: < %r, = %r, > %r' % (a, b, r['<'], r['='], r['>'])))
            if r['<='] != (r['<'] or r['=']) or r['>='] != (r['>'] or r['=']) or r['<>'] == r['=']:
                fails.append(('order|derived', '%r ? %r -> %r' % (a, b, r)))
            lt[i][j], eq[i][j] = r['<'], r['=']
    for i in range(n):
        for j in range(n):
            if lt[i][j] is None:
                continue
            if lt[i][j] and lt[j][i]:
                fails.append(('order|antisymmetry', '%r < %r and %r < %r' % (vals[i], vals[j], vals[j], vals[i])))
            if eq[i][j] != eq[j][i]:
                fails.append(('order|eq-symmetry', '%r = %r is %r but reversed %r' % (vals[i], vals[j], eq[i][j], eq[j][i])))
            for k in range(n):
                if lt[i][j] and lt[j][k] and lt[i][k] is False:
                    # blank is the zero of the *other* operand's kind, so it is not one point of the order:
                    # triples through blank are not required to be transitive
                    if any(isinstance(vals[t], Blank) for t in (i, j, k)):
                        continue
                    fails.append(('order|transitivity', '%r < %r < %r but not %r < %r' % (vals[i], vals[j], vals[k], vals[i], vals[k])))
    seen, out = set(), []
    for s, d in fails:
        if s not in seen:
            seen.add(s)
            out.append((s, d))
    return R(out, nt=n * n, n=n * n * 6 + n ** 3, labels=['order'])


def check_rand(case):
    if case['op'] in UN:
        # unary operators over random floats (the percent sign is an exact IEEE division by 100)
        a = float(case['a'])
        fails = []
        for sp in ('cell', 'func', 'lit'):
            r = check_unary({'op': case['op'], 'a': enc(a), 'sp': sp})
            fails += r['fails']
        return R(fails, nt=abs(a) > 2 ** 53 or (a and abs(a) < 1e-300) or a != int(a), n=3, labels=['rand', 'rand-unary'])
    op, a, b = case['op'], float(case['a']), float(case['b'])
    exp, tag = X.binary(op, a, b)
    fails = []
    for sp in ('cell', 'lit'):
        if sp == 'cell':
            got = cell_binary(op, a, b)
            text = '=B1%sC1 with B1=%r, C1=%r' % (op, a, b)
        else:
            text = '=%s%s%s' % (X.literal(a), op, X.literal(b))
            got = lit_eval(text)
        for s, d in judge(OPCLASS[op], op, a, b, got, exp, tag):
            fails.append((s, '%s: %s' % (text, d)))
    big = abs(a) > 2 ** 53 or abs(b) > 2 ** 53 or (a and abs(a) < 1e-300) or (b and abs(b) < 1e-300)
    return R(fails, nt=bool(big) or isinstance(exp, Err), n=2, labels=['rand', 'rule:' + tag])


def check_case(case):
    k = case['k']
    if k == 'pair':
        return check_pair(case)
    if k == 'unary':
        return check_unary(case)
    if k == 'order':
        return check_order(case)
    if k == 'rand':
        return check_rand(case)
    raise ValueError(k)


def _enum(tier):
    P = pool(tier)
    for op in BIN:
        for a in P:
            for b in P:
                yield {'k': 'pair', 'op': op, 'a': enc(a), 'b': enc(b), 'sp': 'cell'}
                yield {'k': 'pair', 'op': op, 'a': enc(a), 'b': enc(b), 'sp': 'func'}
                if not isinstance(b, Blank):
                    yield {'k': 'pair', 'op': op, 'a': enc(a), 'b': enc(b), 'sp': 'cell-lit'}
                if not isinstance(a, Blank):
                    yield {'k': 'pair', 'op': op, 'a': enc(a), 'b': enc(b), 'sp': 'lit-cell'}
                if not isinstance(a, Blank) and not isinstance(b, Blank):
                    yield {'k': 'pair', 'op': op, 'a': enc(a), 'b': enc(b), 'sp': 'lit'}
                    if not (isinstance(a, float) and abs(a) in (1e200, 1e-200)) and not (isinstance(b, float) and abs(b) in (1e200, 1e-200)):
                        yield {'k': 'pair', 'op': op, 'a': enc(a), 'b': enc(b), 'sp': 'comp'}
    for op in BIN:
        for v in P:
            if isinstance(v, (Blank, Err)) or (isinstance(v, float) and abs(v) in (1e200, 1e-200)):
                continue
            yield {'k': 'pair', 'op': op, 'a': None, 'b': enc(v), 'sp': 'blank-comp'}
            yield {'k': 'pair', 'op': op, 'a': enc(v), 'b': None, 'sp': 'blank-comp'}
    for op in UN:
        for a in P:
            yield {'k': 'unary', 'op': op, 'a': enc(a), 'sp': 'cell'}
            yield {'k': 'unary', 'op': op, 'a': enc(a), 'sp': 'func'}
            if not isinstance(a, Blank):
                yield {'k': 'unary', 'op': op, 'a': enc(a), 'sp': 'lit'}
    yield {'k': 'order', 'pool': [enc(v) for v in P]}


def _rand(tier):
    fl = st.one_of(
        st.floats(allow_nan=False, allow_infinity=False),
        st.floats(allow_nan=False, allow_infinity=False, allow_subnormal=True, min_value=-1e-300, max_value=1e-300),
        st.integers(-2 ** 62, 2 ** 62).map(float),
        st.sampled_from([1e308, -1e308, 1.7976931348623157e308, 5e-324, 2.0 ** 53, 2.0 ** 53 + 2, 0.1, 0.2, 0.3]),
        st.floats(-1000, 1000).map(lambda x: round(x, 2)))
    ops = st.sampled_from(['+', '-', '*', '/', '^', '=', '<>', '<', '>', '<=', '>=', '%', '%', 'u-', 'u+'])
    return st.builds(lambda op, a, b: {'k': 'rand', 'op': op, 'a': a, 'b': b}, ops, fl, fl)


STRATEGIES = {'rand': _rand}


def parts(tier, seed):
    q = tier == 'quick'
    return [
        ('enum', 'cross-product', _enum(tier), 400, True),
        ('hyp', 'rand', 5000 if q else 200000),
    ]
