"""C13 - volatile functions are never frozen and are seen consistently."""
import os
import copy
import json
import shutil
import datetime as _dt

from hypothesis import strategies as st

from .. import sut
from ..sut import Err, Foreign
from ..runner import R
from ..xlref import core as X
from ..xlref import c13_ref as REF
from ..gen import c13_clock as CLOCK

ID = 'C13'
RULE = ('A case is one executable plus one call history. Formula cases: a volatile call (NOW, TODAY, RAND, RANDBETWEEN with literal / '
        'cell / TODAY() bounds; NOW/TODAY optionally under INT/YEAR/MONTH/DAY) placed in a context of 0-6 nested steps (x+c, c+x, x-c, '
        'c-x, x*c, c*x, x/c, -x, +x, x%, (x), SUM/AVERAGE/PRODUCT at every argument position, IF then/else selected and not selected, '
        'IF condition, IFERROR both positions) whose constants are literals, cells or TODAY(); the executable is obtained by each of 11 '
        'paths: Parser..compile(), its deepcopy, its dill copy, Cell+Dispatcher, ExcelModel.from_dict, to_dict->JSON->from_dict, '
        'deepcopy(model), dill(model) (copies taken before or after a first calculation), an xlsx file written with openpyxl and '
        'loaded with loads().finish(), the same file model after a JSON round trip, and ExcelModel.compile(inputs, outputs) with the volatile '
        'cell depending / not depending on the inputs (labelled compile:dep / compile:indep). Workbook cases: 1-3 volatile cells, each with >= 2 dependents (direct, affine, '
        'IF/SUM contexts, SUM/AVERAGE over a range holding the volatile cell, cross-sheet, second level) through the 7 model paths. '
        'History: the harness clock (formulas.functions.date.datetime replaced by vf.gen.c13_clock) is set to a start instant at build '
        'time and advanced before each of 3-6 calls (sub-second, seconds, minutes, days, months, years; starts just before midnight, '
        'month end, year end, 28/29 February); np.random is seeded from the case. Grid part: every volatile x every single step x '
        'every path (complete in the thorough tier; quick takes 6 of the 10 volatile terms and the dill paths for two steps). Random '
        'parts: Hypothesis draws one 64-bit number per case, the case is built from it with random.Random. Oracle: a context is a*x+b with a, b from the constants; NOW/TODAY must equal the Excel serial of the '
        'harness instant of *that call* (NOW: truncated second .. +1 s), RAND recovered through the context lies in [0,1) and no two '
        'consecutive calls agree, RANDBETWEEN(integers lo<=hi) is an integer in [lo,hi] and for hi-lo >= 1e9 three calls are not all '
        'equal, a non-selected volatile leaves the constant, every dependent equals its own formula applied to the value its '
        'precedent has in the same solution. Non-trivial = nesting depth >= 2, or a path other than plain Parser/from_dict, or a '
        'workbook case; distinct by (formula or workbook text, path).')
ASSUMPTIONS = ['Excel serial numbers of the harness clock are computed by the harness (days since 1899-12-30; clocks restricted to '
               '1901..9998); NOW() may resolve the instant anywhere between the truncated second and one second later',
               'RANDBETWEEN is asserted only for integer bounds lo <= hi; "not all equal" only for spans >= 1e9 (chance 1e-18) '
               'and RAND consecutive-equal has chance 2^-53 per pair',
               'two RAND() calls inside one formula are not required to differ (the statement does not say so)',
               'ExcelModel.compile is called with at least one input; results are read from the function\'s return value']
WATCHDOG_S = 60
SHRINK = False  # cases are one formula / one small workbook already; the runner keeps the smallest case per signature

BOOK = 'b.xlsx'
FUNCS = ('NOW', 'TODAY', 'RAND', 'RANDBETWEEN')
FPATHS = ['parser', 'parser-deepcopy', 'parser-dill', 'cell', 'dict', 'json', 'deepcopy', 'dill', 'file', 'file-json', 'compile']
MPATHS = ['dict', 'json', 'deepcopy', 'dill', 'file', 'file-json', 'compile']
TRIVIAL_PATHS = ('parser', 'dict')


# ----------------------------------------------------------------------------
# clock
# ----------------------------------------------------------------------------
def instants(case):
    """[build instant, call 1, call 2 ...] or None when outside the asserted domain."""
    y, mo, d, h, mi, s, us = case['clock']
    t = _dt.datetime(int(y), int(mo), int(d), int(h), int(mi), int(s), int(us))
    out = [t]
    for a in case['adv']:
        try:
            t = t + _dt.timedelta(seconds=float(a))
        except OverflowError:
            return None
        out.append(t)
    if out[0].year < 1901 or out[-1].year > 9998:
        return None
    return out


def clock_labels(ts):
    lb = set()
    for a, b in zip(ts, ts[1:]):
        dt = (b - a).total_seconds()
        if dt == 0:
            lb.add('adv:zero')
        elif dt < 1:
            lb.add('adv:sub-second')
        if a.date() != b.date():
            lb.add('cross:midnight')
        if (a.year, a.month) != (b.year, b.month):
            lb.add('cross:month-end')
        if a.year != b.year:
            lb.add('cross:year-end')
        if (a.month, a.day) in ((2, 28), (2, 29)) and a.date() != b.date():
            lb.add('cross:feb-28/29')
    return ['clock:' + x for x in sorted(lb)]


# ----------------------------------------------------------------------------
# volatile terms
# ----------------------------------------------------------------------------
def vol_text(vol, ref):
    f = vol['f']
    if f == 'RANDBETWEEN':
        t = 'RANDBETWEEN(%s,%s)' % (REF.opnd_text(vol['lo'], ref, True), REF.opnd_text(vol['hi'], ref, True))
    else:
        t = '%s()' % f
    if vol.get('inner'):
        t = '%s(%s)' % (vol['inner'], t)
    return t


def vol_tag(vol):
    f = vol['f']
    if f == 'RANDBETWEEN':
        kinds = {vol['lo'][0], vol['hi'][0]}
        return 'RANDBETWEEN:' + ('vol' if 't' in kinds else 'ref' if 'r' in kinds else 'lit')
    return f


def vol_refs(vol):
    out = []
    if vol['f'] == 'RANDBETWEEN':
        for o in (vol['lo'], vol['hi']):
            if o[0] == 'r' and o[1] not in out:
                out.append(o[1])
    return out


def vol_depth(vol):
    return 1 if vol.get('inner') else 0


def clock_value(vol, t):
    """-> (lo, hi) admissible values of a NOW/TODAY term at instant t."""
    f, inner = vol['f'], vol.get('inner')
    if inner == 'YEAR':
        return float(t.year), float(t.year)
    if inner == 'MONTH':
        return float(t.month), float(t.month)
    if inner == 'DAY':
        return float(t.day), float(t.day)
    if f == 'TODAY' or inner == 'INT':
        v = REF.today_serial(t)
        return v, v
    return REF.now_bounds(t)


def vary(v, i):
    """Value of an input cell at call i (i = 0 at build time): keeps sign, never 0."""
    return v + 10.0 * i * (1 if v > 0 else -1)


def env_at(case, t, i):
    cells = dict(case.get('cells', {}))
    if case.get('vary') and i:
        for k in ('B1', 'B2'):
            if k in cells:
                cells[k] = vary(cells[k], i)
        if 'B3' in cells:
            cells['B3'] = cells['B3'] - i
        if 'B4' in cells:
            cells['B4'] = cells['B4'] + i
    return {'cells': cells, 'today': REF.today_serial(t)}


# ----------------------------------------------------------------------------
# judging one volatile cell over the history
# ----------------------------------------------------------------------------
def _depth_class(d):
    return 'd%d' % d if d < 2 else 'd2+'


def judge_volatile(vol, ctx, got, ts, envs, path, text, where=''):
    """got[i] = harness value observed at call i (instant ts[i+1], env envs[i+1]);
    ts[0]/envs[0] = build time.  -> list of (signature, detail)"""
    f, tag = vol['f'], vol_tag(vol)
    d = vol_depth(vol) + REF.depth(ctx)
    dc = _depth_class(d)
    fails = []

    def fail(kind, msg, *extra):
        sig = '|'.join([kind, tag, path] + list(extra))
        if not any(s == sig for s, _ in fails):
            fails.append((sig, '%s%s via %s: %s' % (where, text, path, msg)))

    for i, g in enumerate(got):
        if not isinstance(g, float):
            fail('value', 'call %d returned %r, expected a number' % (i + 1, g), X.cls(g))
            return fails

    def env_today(i, j):
        """constants of call i, but TODAY() operands as of instant j"""
        return dict(envs[i], today=envs[j]['today'])

    if f in ('NOW', 'TODAY'):
        def expected(jhole, env):
            lo, hi = clock_value(vol, ts[jhole])
            A = REF.affine(ctx, env, abs(hi))
            e1, e2 = A.a * lo + A.b, A.a * hi + A.b
            return min(e1, e2), max(e1, e2), 1e-12 * A.scale + 1e-300, A

        for i, g in enumerate(got):
            lo, hi, tol, A = expected(i + 1, envs[i + 1])
            if lo - tol <= g <= hi + tol:
                continue
            # the value some volatile call of the formula (the hole or a TODAY() operand) had at an
            # earlier instant (0 = build time), everything else as of this call?
            frozen = None
            for j in range(0, i + 1):
                for jh, jt in ((j, i + 1), (i + 1, j), (j, j)):
                    l2, h2, t2, _ = expected(jh, env_today(i + 1, jt))
                    if l2 - t2 <= g <= h2 + t2:
                        frozen = j
                        break
                if frozen is not None:
                    break
            if frozen is None and A.a != 0 and any(abs(g - got[j]) <= tol for j in range(i)):
                frozen = -1
            if frozen is not None:
                when = 'build/compile time' if frozen == 0 else 'an earlier call'
                fail('frozen', 'call %d at %s returned %r = the value of %s (%s); expected %r..%r' % (
                    i + 1, ts[i + 1].isoformat(' '), g, when, ts[max(frozen, 0)].isoformat(' '), lo, hi), dc)
            elif A.a == 0:
                fail('branch', 'call %d: volatile not selected, result must be the constant %r, got %r' % (i + 1, lo, g), dc)
            else:
                fail('clock', 'call %d at %s returned %r, expected %r..%r' % (i + 1, ts[i + 1].isoformat(' '), g, lo, hi), dc)
        return fails

    # RAND / RANDBETWEEN: recover the draw through the context
    uses_today = any(o == ['t'] for st_ in ctx for part in st_[1:]
                     for o in (part if (isinstance(part, list) and part and isinstance(part[0], list)) else [part])) \
        or (f == 'RANDBETWEEN' and ['t'] in (vol['lo'], vol['hi']))

    def recover(g, env):
        if f == 'RAND':
            lo, hi = 0.0, 1.0
        else:
            lo, hi = REF.opnd_value(vol['lo'], env), REF.opnd_value(vol['hi'], env)
        A = REF.affine(ctx, env, max(abs(lo), abs(hi), 1.0))
        tol = 1e-12 * A.scale + 1e-300
        if A.a == 0:
            return None, abs(g - A.b) <= tol, A.b, lo, hi
        v = (g - A.b) / A.a
        tv = tol / abs(A.a)
        ok = lo - tv <= v <= hi + tv
        if f == 'RAND':
            ok = (-tv <= v < 1.0 + tv) and (not (A.a == 1.0 and A.b == 0.0) or 0.0 <= v < 1.0)
        return (v, tv), ok, A.b, lo, hi

    rec = []
    for i, g in enumerate(got):
        r, ok, b, lo, hi = recover(g, envs[i + 1])
        rec.append(r)
        if not ok:
            stale = None
            if uses_today:
                for j in range(0, i + 1):
                    if envs[j]['today'] != envs[i + 1]['today'] and recover(g, env_today(i + 1, j))[1]:
                        stale = j
                        break
            if stale is not None:
                fail('frozen', 'call %d at %s: result %r is consistent only with TODAY() as of %s (%s)' % (
                    i + 1, ts[i + 1].isoformat(' '), g, 'build/compile time' if stale == 0 else 'an earlier call',
                    ts[stale].isoformat(' ')), dc)
            elif r is None:
                fail('branch', 'call %d: volatile not selected, result must be the constant %r, got %r' % (i + 1, b, g), dc)
            elif f == 'RAND':
                fail('range', 'call %d: RAND() recovered as %r, not in [0,1)' % (i + 1, r[0]))
            else:
                fail('range', 'call %d: RANDBETWEEN(%r,%r) recovered as %r, outside its bounds' % (i + 1, lo, hi, r[0]))
        if r is not None and f == 'RANDBETWEEN' and abs(r[0] - round(r[0])) > r[1]:
            fail('integer', 'call %d: RANDBETWEEN(%r,%r) recovered as %r, not an integer' % (i + 1, lo, hi, r[0]))
    vs = [r for r in rec if r is not None]
    if len(vs) == len(rec) and len(vs) >= 2:
        if f == 'RAND':
            for i in range(1, len(vs)):
                if abs(vs[i][0] - vs[i - 1][0]) <= max(vs[i][1], vs[i - 1][1]) * 1e-3:
                    fail('frozen', 'calls %d and %d both delivered RAND() = %r' % (i, i + 1, vs[i][0]), dc)
                    break
        elif len(vs) >= 3:
            spans = [REF.opnd_value(vol['hi'], e) - REF.opnd_value(vol['lo'], e) for e in envs[1:]]
            if min(spans) >= 1e9 and all(abs(v[0] - vs[0][0]) <= max(v[1], vs[0][1]) for v in vs[1:]):
                fail('frozen', 'all %d calls delivered RANDBETWEEN = %r (span %g)' % (len(vs), vs[0][0], min(spans)), dc)
    return fails


# ----------------------------------------------------------------------------
# executables
# ----------------------------------------------------------------------------
def key(sheet, cell):
    return "'[%s]%s'!%s" % (BOOK, sheet, cell)


def ref_dict(sheet):
    return lambda c, s=None: key(s or sheet, c)


def ref_file(sheet):
    return lambda c, s=None: c if (s or sheet) == sheet else '%s!%s' % (s, c)


def ref_bare(c, s=None):
    return c


def workdir():
    root = os.path.dirname(os.path.dirname(os.path.dirname(os.path.abspath(__file__))))
    return os.path.join(root, '.work', 'c13-%d' % os.getpid())


def sweep_workdirs():
    """Remove xlsx scratch directories left behind by C13 processes that no longer exist (a killed run)."""
    base = os.path.dirname(workdir())
    if not os.path.isdir(base):
        return
    for fn in os.listdir(base):
        if fn.startswith('c13-') and fn[4:].isdigit():
            try:
                os.kill(int(fn[4:]), 0)
            except ProcessLookupError:
                shutil.rmtree(os.path.join(base, fn), ignore_errors=True)
            except OSError:
                pass


def write_xlsx(spec_file):
    """spec_file: {(sheet, cell): number | '=formula'} -> path of b.xlsx in a fresh directory"""
    import openpyxl
    d = workdir()
    os.makedirs(d, exist_ok=True)
    wb = openpyxl.Workbook()
    sheets = sorted({s for s, _ in spec_file})
    ws0 = wb.active
    ws0.title = sheets[0]
    wss = {sheets[0]: ws0}
    for s in sheets[1:]:
        wss[s] = wb.create_sheet(s)
    for (s, c), v in spec_file.items():
        wss[s][c] = v
    p = os.path.join(d, BOOK)
    wb.save(p)
    return p


def model_from(path, spec, pre, set_clock):
    """spec(refmaker) -> {(sheet, cell): number | '=formula'}.  Returns an ExcelModel."""
    import dill
    if path.startswith('file'):
        p = write_xlsx(spec(ref_file))
        try:
            m = sut.ExcelModel().loads(p).finish()
        finally:
            shutil.rmtree(os.path.dirname(p), ignore_errors=True)
    else:
        m = sut.ExcelModel().from_dict({key(s, c): v for (s, c), v in spec(ref_dict).items()})
    if path in ('json', 'file-json'):
        if pre:
            m.calculate()
        m = sut.ExcelModel().from_dict(json.loads(json.dumps(m.to_dict())))
    elif path == 'deepcopy':
        if pre:
            m.calculate()
        m = copy.deepcopy(m)
    elif path == 'dill':
        if pre:
            m.calculate()
        m = dill.loads(dill.dumps(m))
    return m


def read(sol, k):
    if k not in sol:
        return Foreign('no-output')
    return sut.one(sol[k])


class Patched:
    """Clock shim installed + numpy RNG seeded from the case; both restored."""

    def __init__(self, seed):
        self.seed = seed

    def __enter__(self):
        self.state = sut.np.random.get_state()
        self.inst = CLOCK.installed(sut.formulas.functions.date)
        self.inst.__enter__()
        sut.np.random.seed(int(self.seed) % (2 ** 32))
        return self

    def __exit__(self, *exc):
        self.inst.__exit__(*exc)
        sut.np.random.set_state(self.state)
        return False


# ----------------------------------------------------------------------------
# formula cases
# ----------------------------------------------------------------------------
def formula_text(case, ref):
    return '=' + REF.render(vol_text(case['vol'], ref), case['ctx'], ref)


def rb_in_domain(vol, envs):
    if vol['f'] != 'RANDBETWEEN':
        return True
    return all(REF.opnd_value(vol['lo'], e) <= REF.opnd_value(vol['hi'], e) for e in envs)


def check_formula(case):
    import dill
    ts = instants(case)
    if ts is None:
        return R(labels=['skip:clock-range'])
    vol, ctx, path, pre = case['vol'], case['ctx'], case['path'], bool(case.get('pre'))
    ncall = len(ts) - 1
    varying = bool(case.get('vary')) and path in ('parser', 'parser-deepcopy', 'parser-dill', 'cell', 'compile')
    case_env = dict(case, vary=varying)
    envs = [env_at(case_env, t, i) for i, t in enumerate(ts)]
    if not rb_in_domain(vol, envs):
        return R(labels=['skip:rb-bounds-not-ordered'])
    cells0 = envs[0]['cells']
    used = [r for r in REF.refs_of(ctx) + vol_refs(vol)]
    used = sorted(set(used))
    text = formula_text(case, ref_bare)
    got = []
    sigpath = path
    with Patched(case['seed']):
        CLOCK.set_now(ts[0])
        if path.startswith('parser'):
            fn = sut.compile_formula(text)
            if path == 'parser-deepcopy':
                if pre:
                    fn(*[sut.rng(k, [[cells0[k]]]) for k in fn.inputs])
                fn = copy.deepcopy(fn)
            elif path == 'parser-dill':
                if pre:
                    fn(*[sut.rng(k, [[cells0[k]]]) for k in fn.inputs])
                fn = dill.loads(dill.dumps(fn))
            for i in range(1, ncall + 1):
                CLOCK.set_now(ts[i])
                c = envs[i]['cells']
                got.append(sut.one(fn(*[sut.rng(k, [[c[k]]]) for k in fn.inputs])))
        elif path == 'cell':
            dsp = sut.sh.Dispatcher(raises=False)
            cell = sut.Cell('A1', text).compile()
            cell.add(dsp)
            for i in range(1, ncall + 1):
                CLOCK.set_now(ts[i])
                c = envs[i]['cells']
                sol = dsp({k: sut.rng(k, [[c[k]]]) for k in used})
                got.append(read(sol, cell.output))
        else:
            def spec(refmaker):
                ref = refmaker('S')
                d = {('S', 'A1'): formula_text(case, ref)}
                for k, v in cells0.items():
                    d[('S', k)] = v
                return d
            mpath = 'dict' if path == 'compile' else path
            m = model_from(mpath, spec, pre, None)
            if path == 'compile':
                ins = used or ['B1']
                dep = bool(used)
                sigpath = 'compile:dep' if dep else 'compile:indep'
                fn = m.compile([key('S', k) for k in ins], [key('S', 'A1')])
                for i in range(1, ncall + 1):
                    CLOCK.set_now(ts[i])
                    c = envs[i]['cells']
                    got.append(sut.one(fn(*[c[k] for k in ins])))
            else:
                for i in range(1, ncall + 1):
                    CLOCK.set_now(ts[i])
                    got.append(read(m.calculate(), key('S', 'A1')))
    fails = judge_volatile(vol, ctx, got, ts, envs, sigpath, text)
    d = vol_depth(vol) + REF.depth(ctx)
    labels = ['vol:' + vol_tag(vol), 'path:' + sigpath, 'depth:%s' % (d if d < 4 else '4+')]
    if vol.get('inner'):
        labels.append('inner:INT/YEAR/MONTH/DAY')
    labels += sorted({'pos:' + REF.position(s) for s in ctx if s[0] != 'par'})
    A = REF.affine(ctx, envs[1], 1.0)
    if A.a == 0:
        labels.append('branch:not-selected')
    labels += clock_labels(ts)
    if vol['f'] == 'TODAY' or vol.get('inner') in ('INT', 'YEAR', 'MONTH', 'DAY'):
        vals = {clock_value(vol, t) for t in ts}
        if len(vals) > 1:
            labels.append('today-term:changes')
    if vol['f'] == 'RANDBETWEEN':
        span = REF.opnd_value(vol['hi'], envs[1]) - REF.opnd_value(vol['lo'], envs[1])
        labels.append('rb-span:' + ('0' if span == 0 else '<1e9' if span < 1e9 else '>=1e9'))
    if varying:
        labels.append('inputs:vary')
    if pre and path in ('parser-deepcopy', 'parser-dill', 'deepcopy', 'dill', 'json', 'file-json'):
        labels.append('copy:after-first-calc')
    nt = d >= 2 or path not in TRIVIAL_PATHS
    return R(fails, nt=[[text, path]] if nt else None, labels=labels, n=ncall)


# ----------------------------------------------------------------------------
# workbook cases
# ----------------------------------------------------------------------------
def _ref_cell(refmaker, at_sheet):
    """reference speller for a formula living on `at_sheet`: ref(cell, sheet='S')"""
    r = refmaker(at_sheet)
    return lambda c, s='S': r(c, s)


def wb_spec(case):
    vols, deps, consts = case['vols'], case['deps'], case['consts']

    def spec(refmaker):
        d = {}
        for c, v in consts.items():
            d[('S', c)] = v
        for v in vols:
            ref = _ref_cell(refmaker, 'S')
            d[('S', v['cell'])] = '=' + REF.render(vol_text(v['vol'], ref), v['ctx'], ref)
        for dp in deps:
            ref = _ref_cell(refmaker, dp['sheet'])
            form = dp['form']
            if form[0] == 'ctx':
                osheet, ocell = dp['of']
                d[(dp['sheet'], dp['cell'])] = '=' + REF.render(ref(ocell, osheet), form[1], ref)
            else:  # ['range', FN, first, last]
                d[(dp['sheet'], dp['cell'])] = '=%s(%s:%s)' % (form[1], ref(form[2], 'S'), form[3])
        return d
    return spec


def _cells_between(a, b):
    col = a[0]
    return ['%s%d' % (col, r) for r in range(int(a[1:]), int(b[1:]) + 1)]


def check_wb(case):
    ts = instants(case)
    if ts is None:
        return R(labels=['skip:clock-range'])
    path, pre = case['path'], bool(case.get('pre'))
    vols, deps, consts = case['vols'], case['deps'], case['consts']
    ncall = len(ts) - 1
    spec = wb_spec(case)
    vcase = {'cells': consts, 'vary': bool(case.get('vary')) and path == 'compile'}
    envs = [env_at(vcase, t, i) for i, t in enumerate(ts)]
    if not all(rb_in_domain(v['vol'], envs) for v in vols):
        return R(labels=['skip:rb-bounds-not-ordered'])
    ins = sorted(k for k in consts if k in ('B1', 'B2', 'B3', 'B4'))
    outs = [('S', v['cell']) for v in vols] + [(d['sheet'], d['cell']) for d in deps]
    sols = []
    with Patched(case['seed']):
        CLOCK.set_now(ts[0])
        m = model_from('dict' if path == 'compile' else path, spec, pre, None)
        if path == 'compile':
            fn = m.compile([key('S', k) for k in ins], [key(s, c) for s, c in outs])
            for i in range(1, ncall + 1):
                CLOCK.set_now(ts[i])
                c = envs[i]['cells']
                res = fn(*[c[k] for k in ins])
                if len(outs) == 1:
                    res = [res]
                sol = {o: sut.one(r) for o, r in zip(outs, res)}
                for k in consts:
                    sol[('S', k)] = float(c[k])
                sols.append(sol)
        else:
            for i in range(1, ncall + 1):
                CLOCK.set_now(ts[i])
                raw = m.calculate()
                sol = {o: read(raw, key(*o)) for o in outs}
                for k in consts:
                    sol[('S', k)] = read(raw, key('S', k))
                sols.append(sol)
    text = json.dumps({'%s!%s' % k: v for k, v in sorted(spec(ref_file).items())}, sort_keys=True)
    fails, labels = [], ['part:workbook'] + (['path:' + path] if path != 'compile' else [])
    root = {}
    for v in vols:
        at = ('S', v['cell'])
        dep_on_inputs = bool(set(REF.refs_of(v['ctx']) + vol_refs(v['vol'])) & set(ins))
        sp = path if path != 'compile' else ('compile:dep' if dep_on_inputs else 'compile:indep')
        got = [s[at] for s in sols]
        ftxt = spec(ref_file)[at]
        fails += judge_volatile(v['vol'], v['ctx'], got, ts, envs, sp, ftxt, where='S!%s ' % v['cell'])
        root[at] = (vol_tag(v['vol']), sp)
        labels += ['vol:' + vol_tag(v['vol'])] + (['path:' + sp] if path == 'compile' else [])
    # constants must read back (harness sanity for the snapshot oracle)
    for i, sol in enumerate(sols):
        for k in consts:
            if sol[('S', k)] != float(envs[i + 1]['cells'][k]):
                fails.append(('const|%s' % path, 'constant S!%s reads %r, expected %r' % (k, sol[('S', k)], envs[i + 1]['cells'][k])))
    # snapshot consistency
    ndep = {}
    for dp in deps:
        at = (dp['sheet'], dp['cell'])
        form = dp['form']
        if form[0] == 'ctx':
            of = tuple(dp['of'])
            rt = root.get(of)
            kind = 'direct' if not form[1] else 'ctx'
            if of not in [('S', v['cell']) for v in vols]:
                kind = 'second-level'
            precs = [of]
        else:
            precs = [('S', c) for c in _cells_between(form[2], form[3])]
            rts = [root[p] for p in precs if p in root]
            rt = rts[0] if rts else None
            kind = 'range'
        if rt is None:
            continue
        root[at] = rt
        labels.append('dep:' + kind)
        if dp['sheet'] != 'S':
            labels.append('dep:cross-sheet')
        for p in precs:
            if p in [('S', v['cell']) for v in vols]:
                ndep[p] = ndep.get(p, 0) + 1
        for i, sol in enumerate(sols):
            g = sol[at]
            pv = [sol.get(p) for p in precs]
            if not all(isinstance(x, float) for x in pv):
                labels.append('dep:precedent-not-a-number')
                continue
            env = envs[i + 1]
            if form[0] == 'ctx':
                A = REF.affine(form[1], env, abs(pv[0]))
                exp, tol = A.a * pv[0] + A.b, 1e-12 * A.scale + 1e-300
            else:
                exp = sum(pv)
                tol = 1e-12 * sum(abs(x) for x in pv) + 1e-300
                if form[1] == 'AVERAGE':
                    exp, tol = exp / len(pv), tol / len(pv)
            if not (isinstance(g, float) and abs(g - exp) <= tol):
                sig = 'snapshot|%s|%s|%s' % (rt[0], rt[1], kind)
                if not any(s == sig for s, _ in fails):
                    fails.append((sig, '%s via %s, calculation %d: %s!%s = %r but its precedents %s hold %r in the same solution '
                                       '(expected %r)' % (text, path, i + 1, at[0], at[1], g, precs, pv, exp)))
    for p, n in ndep.items():
        labels.append('dependents-of-one-volatile:%s' % (n if n < 4 else '4+'))
    labels += clock_labels(ts)
    if pre and path in ('deepcopy', 'dill', 'json', 'file-json'):
        labels.append('copy:after-first-calc')
    return R(fails, nt=[[text, path]], labels=labels, n=ncall * len(outs))


def check_case(case):
    if case['k'] == 'formula':
        return check_formula(case)
    if case['k'] == 'wb':
        return check_wb(case)
    if case['k'] == 'rbfrac':
        return check_rbfrac(case)
    if case['k'] == 'diamond':
        return check_diamond(case)
    if case['k'] == 'running':
        return check_running(case)
    if case['k'] == 'extreme':
        return check_extreme(case)
    raise ValueError(case['k'])


# ----------------------------------------------------------------------------
# added after the seeded changes c13-a / c13-b were missed by the quick tier
# ----------------------------------------------------------------------------
def check_rbfrac(case):
    """RANDBETWEEN with fractional / negative bounds: every draw is an integer n with ceil(lo) <= n <= floor(hi),
    or #NUM! when no integer lies between the bounds.  Bounds as literals and as cell values."""
    import math
    lo, hi, n = case['lo'], case['hi'], case.get('n', 30)
    a, b = math.ceil(lo), math.floor(hi)
    fails = []
    lit = lambda x: ('(%r)' % x) if x < 0 else repr(x)
    models = {
        'lit': sut.ExcelModel().from_dict({"'[b.xlsx]S'!A1": '=RANDBETWEEN(%s,%s)' % (lit(lo), lit(hi))}),
        'ref': sut.ExcelModel().from_dict({"'[b.xlsx]S'!A1": "=RANDBETWEEN('[b.xlsx]S'!B1,'[b.xlsx]S'!B2)", "'[b.xlsx]S'!B1": lo, "'[b.xlsx]S'!B2": hi}),
    }
    seen = {}
    state = sut.np.random.get_state()
    sut.np.random.seed(int(case.get('rs', 7)) % (2 ** 32))
    for how, m in models.items():
        for i in range(n):
            sol = m.calculate()
            v = sut.one(sol["'[b.xlsx]S'!A1"])
            seen.setdefault(how, set()).add(repr(v))
            if a > b:
                if v != sut.Err('#NUM!'):
                    fails.append(('range|RANDBETWEEN:frac-%s|no-integer-between' % how, 'RANDBETWEEN(%r,%r) -> %r, expected #NUM! (no integer between the bounds)' % (lo, hi, v)))
                    break
                continue
            if not isinstance(v, float) or v != int(v):
                fails.append(('integer|RANDBETWEEN:frac-%s' % how, 'RANDBETWEEN(%r,%r) -> %r, not an integer' % (lo, hi, v)))
                break
            if not a <= v <= b:
                fails.append(('range|RANDBETWEEN:frac-%s|outside' % how, 'RANDBETWEEN(%r,%r) -> %r, outside [%d,%d]' % (lo, hi, v, a, b)))
                break
        if a < b and len(seen.get(how, ())) == 1 and b - a >= 5 and n >= 20:
            fails.append(('frozen|RANDBETWEEN:frac-%s' % how, 'RANDBETWEEN(%r,%r): %d calculations all gave %s' % (lo, hi, n, seen[how])))
    sut.np.random.set_state(state)
    return R(fails, nt=(lo != int(lo) or hi != int(hi) or lo < 0), n=2 * n, labels=['rbfrac', 'rbfrac:neg' if hi < 0 else 'rbfrac:pos'])


def running_clock_cases():
    """A clock that keeps running while the formula is evaluated (every look at it is one second later), started just
    before midnight / the end of a month / of a year: NOW() lies between the instants before and after the call, TODAY()
    is the date of one of them, and a second call is not earlier than the first (added after seed c13-a-r4)."""
    starts = [(2024, 3, 9, 23, 59, 58), (2024, 2, 29, 23, 59, 59), (2023, 12, 31, 23, 59, 57), (2024, 3, 10, 12, 0, 0), (2024, 3, 9, 23, 59, 30)]
    for st_ in starts:
        for f in ('NOW()', 'TODAY()', 'NOW()-TODAY()', 'NOW()+0', 'INT(NOW())-TODAY()', 'HOUR(NOW())*3600+MINUTE(NOW())*60+SECOND(NOW())'):
            for path in ('parser', 'cell', 'dict', 'compile'):
                yield {'k': 'running', 'start': list(st_), 'f': f, 'path': path}
        # the volatile cell lives in a second workbook that is not loaded explicitly: finish() pulls it in through the
        # reference of the first one (added after seed c13-a-r6: a linked book must be read as formulas, not as stored values)
        for f in ('NOW()', 'TODAY()', 'NOW()+0'):
            for path in ('linked', 'linked-compile'):
                yield {'k': 'running', 'start': list(st_), 'f': f, 'path': path}


def check_running(case):
    import datetime
    t0 = datetime.datetime(*case['start'])
    base = datetime.datetime(1899, 12, 30)
    ser = lambda t: (t - base).total_seconds() / 86400.0
    Q = "'[b.xlsx]S'!"
    fails, results = [], []
    with Patched(5):
        CLOCK.set_now(t0)
        CLOCK.set_tick(1.0)
        f = '=' + case['f']
        if case['path'] == 'parser':
            fn = sut.compile_formula(f)
            call = lambda: sut.one(fn())
        elif case['path'] == 'cell':
            call = lambda: sut.one(sut.cell_eval('A1', f)[0])
        elif case['path'].startswith('linked'):
            import openpyxl
            d = workdir()
            os.makedirs(d, exist_ok=True)
            try:
                wo = openpyxl.Workbook()
                wo.active.title = 'T'
                wo.active['A1'] = f
                wo.active['B1'] = 5.0
                wo.save(os.path.join(d, 'other.xlsx'))
                wm = openpyxl.Workbook()
                wm.active.title = 'S'
                wm.active['A1'] = "='[other.xlsx]T'!A1"
                wm.active['Z1'] = 1.0
                wm.active['A2'] = "='[other.xlsx]T'!B1+Z1"
                wm.save(os.path.join(d, 'main.xlsx'))
                m = sut.ExcelModel().loads(os.path.join(d, 'main.xlsx')).finish()
            finally:
                shutil.rmtree(d, ignore_errors=True)
            nodes = {str(k).upper(): k for k in m.dsp.data_nodes if isinstance(k, str)}
            a1 = nodes["'[MAIN.XLSX]S'!A1"]
            if case['path'] == 'linked':
                call = lambda: sut.one(m.calculate()[a1])
            else:
                cf = m.compile([nodes["'[MAIN.XLSX]S'!Z1"]], [a1])
                call = lambda: sut.one(cf(2.0))
        else:
            m = sut.ExcelModel().from_dict({Q + 'A1': f, Q + 'Z1': 1.0, Q + 'A2': '=%sA1+%sZ1' % (Q, Q)})
            if case['path'] == 'dict':
                call = lambda: sut.one(m.calculate()[Q + 'A1'])
            else:
                nodes = {str(k).upper(): k for k in m.dsp.data_nodes if isinstance(k, str)}
                cf = m.compile([nodes[Q.upper() + 'Z1']], [nodes[Q.upper() + 'A1']])
                call = lambda: sut.one(cf(2.0))
        prev = None
        for i in range(3):
            before = CLOCK.get_now()
            v = call()
            after = CLOCK.get_now()
            lo, hi = ser(before), ser(after)
            ok = isinstance(v, float)
            if ok and case['f'] in ('NOW()', 'NOW()+0'):
                ok = lo - 1e-9 <= v <= hi + 1e-9
                if ok and prev is not None and v < prev - 1e-12:
                    ok = False
            elif ok and case['f'] == 'TODAY()':
                ok = v in (float(int(lo)), float(int(hi)))
            elif ok and case['f'] == 'NOW()-TODAY()':
                # two looks at the clock: each lies inside the call, so their difference may even be slightly negative
                ok = -(hi - lo) - 1e-9 <= v <= 1.0 + (hi - lo) + 1e-9 and (int(lo) != int(hi) or 0.0 <= v < 1.0)
            elif ok and case['f'] == 'INT(NOW())-TODAY()':
                ok = v in (0.0, 1.0, -1.0) and (int(lo) != int(hi) or v == 0.0)
            elif ok:
                # seconds of the day spelled with three separate looks at the clock: any instant of the call, or mixed ones
                ok = 0.0 <= v < 86400.0
            if not ok:
                fails.append(('running-clock|%s|%s' % (case['f'], case['path']), 'call %d started at %s, ended at %s: %s = %r' % (i + 1, before, after, case['f'], v)))
                break
            prev = v
            results.append(v)
    return R(fails, nt=True, n=3, labels=['part:running-clock', 'path:' + case['path']])


def _untemper(y):
    y ^= y >> 18
    y ^= (y << 15) & 0xefc60000
    x = y
    for _ in range(5):
        x = y ^ ((x << 7) & 0x9d2c5680)
    y = x
    x = y
    for _ in range(3):
        x = y ^ (x >> 11)
    return x & 0xffffffff


def extreme_draw_cases():
    """The generator is put into the state whose next outputs are the largest / smallest values it can produce (all 32-bit
    words 0xFFFFFFFF / 0): RAND() stays inside [0, 1), a die thrown with it stays on the die (added after seed c13-b-r4)."""
    for word in (0xffffffff, 0x0, 0xfffffffe, 0x80000000):
        for f, lo, hi in (('RAND()', 0.0, None), ('INT(RAND()*6)+1', 1.0, 6.0), ('RANDBETWEEN(1,6)', 1.0, 6.0), ('RAND()*RAND()', 0.0, None),
                          ('INT(RAND()*1000000)', 0.0, 999999.0), ('RANDBETWEEN(-3,-3)', -3.0, -3.0)):
            for path in ('parser', 'cell', 'dict', 'compile'):
                yield {'k': 'extreme', 'word': word, 'f': f, 'lo': lo, 'hi': hi, 'path': path}


def check_extreme(case):
    np_ = sut.np
    Q = "'[b.xlsx]S'!"
    f = '=' + case['f']
    fails = []
    with Patched(7):
        if case['path'] == 'parser':
            fn = sut.compile_formula(f)
            call = lambda: sut.one(fn())
        elif case['path'] == 'cell':
            call = lambda: sut.one(sut.cell_eval('A1', f)[0])
        else:
            m = sut.ExcelModel().from_dict({Q + 'A1': f, Q + 'Z1': 1.0})
            if case['path'] == 'dict':
                call = lambda: sut.one(m.calculate()[Q + 'A1'])
            else:
                nodes = {str(k).upper(): k for k in m.dsp.data_nodes if isinstance(k, str)}
                cf = m.compile([nodes[Q.upper() + 'Z1']], [nodes[Q.upper() + 'A1']])
                call = lambda: sut.one(cf(2.0))
        for i in range(2):
            key = np_.full(624, _untemper(case['word']), dtype=np_.uint32)
            np_.random.set_state(('MT19937', key, 0))
            v = call()
            ok = isinstance(v, float) and v >= case['lo'] and (v < 1.0 if case['hi'] is None else v <= case['hi'])
            if ok and case['hi'] is not None and v != int(v):
                ok = False
            if not ok:
                fails.append(('extreme-draw|%s|%s' % (case['f'], case['path']), 'generator words %#x: %s = %r' % (case['word'], case['f'], v)))
                break
    return R(fails, nt=True, n=2, labels=['part:extreme-draws', 'path:' + case['path']])


def check_diamond(case):
    """Re-converging dependents of a volatile cell through ExcelModel.compile: every returned cell must agree with its
    own formula applied to the values returned in the same call, on every call, with the clock advanced in between."""
    import datetime
    shape, via = case['shape'], case.get('via', 'orig')
    Q = "'[b.xlsx]S'!"
    d = {Q + 'A1': '=NOW()', Q + 'Z1': 1.0}
    forms = {
        'diamond': {'A2': ('A1', 1.0, None), 'A3': ('A1', 0.0, 'A2'), 'A4': ('A2', 0.0, 'A2')},
        'chain-fan': {'A2': ('A1', 2.0, None), 'A3': ('A2', 1.0, None), 'A4': ('A2', 0.0, 'A3'), 'A5': ('A1', 0.0, 'A4')},
        'late-join': {'A2': ('A1', 0.5, None), 'A3': ('A2', 0.0, 'A1'), 'A4': ('A3', 0.0, 'A2'), 'A5': ('A2', 3.0, None)},
    }[shape]
    for k, (x, c, y) in forms.items():
        d[Q + k] = '=%s%s+%r%s' % (Q, x, c, ('+' + Q + y) if y else '')
    fails = []
    t = datetime.datetime(2021, 3, 4, 10, 0, 0)
    with Patched(11):
        CLOCK.set_now(t)
        if via in ('grow-placeholder', 'grow-placeholder-calc'):
            # A1 starts as the one blank cell of a referenced rectangle (a placeholder node); the volatile formula is put
            # into it by a second import on the finished model (added after seed c13-a-r3)
            m = sut.ExcelModel().from_dict({Q + 'Z1': 1.0, Q + 'B1': 7.0, Q + 'X1': '=SUM(%sA1:B1)' % Q})
            if via == 'grow-placeholder-calc':
                m.calculate()
            m.from_dict(d)
            forms = dict(forms, X1=('A1', 7.0, None))
        elif via in ('grow', 'grow-formula'):
            # the model is compiled once while it holds no volatile cell, then grows, then is compiled again
            first = {Q + 'Z1': 1.0, Q + 'Y1': '=%sZ1+1' % Q}
            if via == 'grow-formula':
                first[Q + 'A1'] = 5.0  # later re-imported as =NOW()
            m = sut.ExcelModel().from_dict(first)
            n0 = {str(k).upper(): k for k in m.dsp.data_nodes if isinstance(k, str)}
            f0 = m.compile([n0[Q.upper() + 'Z1']], [n0[Q.upper() + 'Y1']])
            y = sut.one(f0(2.0))
            if y != 3.0:
                fails.append(('first-compile|%s' % via, 'Y1 = Z1+1 with Z1=2 gives %r' % (y,)))
            m.from_dict(d)
        else:
            m = sut.ExcelModel().from_dict(d)
        if via == 'recompile':
            n0 = {str(k).upper(): k for k in m.dsp.data_nodes if isinstance(k, str)}
            m.compile([n0[Q.upper() + 'Z1']], [n0[Q.upper() + 'A2']])
        if via == 'calc-first':
            m.calculate()
        if via == 'deepcopy':
            import copy
            m = copy.deepcopy(m)
        elif via == 'copy':
            import copy
            m = copy.copy(m)
        elif via == 'dill':
            import dill
            m = dill.loads(dill.dumps(m))
        outs = [Q.upper() + k for k in ['A1'] + sorted(forms)]
        nodes = {str(k).upper(): k for k in m.dsp.data_nodes if isinstance(k, str)}
        func = m.compile([nodes[Q.upper() + 'Z1']], [nodes[o] for o in outs])
        prev = None
        for i in range(4):
            t = t + datetime.timedelta(hours=5, minutes=7 * (i + 1))
            CLOCK.set_now(t)
            res = func(float(i))
            vals = dict(zip(['A1'] + sorted(forms), [sut.one(r) for r in res]))
            for k, (x, c, y) in forms.items():
                if not isinstance(vals[x], float) or (y and not isinstance(vals[y], float)):
                    fails.append(('snapshot|NOW|compile:indep|%s|%s' % (shape, via), 'call %d: %s reads %s = %r: not a number' % (i + 1, k, x, vals[x])))
                    continue
                exp = vals[x] + c + (vals[y] if y else 0.0)
                if not (isinstance(vals[k], float) and abs(vals[k] - exp) < 1e-9):
                    fails.append(('snapshot|NOW|compile:indep|%s|%s' % (shape, via), 'call %d: %s = %r but its formula over the same call gives %r' % (i + 1, k, vals[k], exp)))
            if prev is not None and vals['A1'] == prev:
                fails.append(('frozen|NOW|compile:indep|%s|%s' % (shape, via), 'call %d: NOW() did not move' % (i + 1)))
            prev = vals['A1']
    seen, out = set(), []
    for s_, d_ in fails:
        if s_ not in seen:
            seen.add(s_)
            out.append((s_, d_))
    return R(out, nt=True, n=4, labels=['diamond:' + shape, 'compile-via:' + via])


# ----------------------------------------------------------------------------
# generators.  Hypothesis supplies one 64-bit number per case (sharded and seeded
# by the runner from VERIF_SEED); the case is built from it with random.Random.
# Drawing every field through Hypothesis cost more CPU than checking the case,
# and shrinking is off for this property (cases are one formula / one small
# workbook; the runner keeps the smallest failing case per signature).
# ----------------------------------------------------------------------------
_LITS = [0.0, 1.0, 2.0, 3.0, 5.0, 7.0, 10.0, 12.0, 100.0, 1000.0, 0.5, 0.25, 1.5, 2.5, 0.125, 0.1, 3.75]
_NZ = [x for x in _LITS if x]
_CELLVALS = [float(x) for x in list(range(1, 10)) + list(range(-9, 0))] + [0.5, -0.5, 2.5, 1.25, -3.5]


def _opnd(r, nonzero=False, arg=False, today=True):
    """literal (negative only as a function argument) | cell B1/B2 | TODAY()"""
    k = r.choice('nnrt' if today else 'nnr')
    if k == 'n':
        x = r.choice(_NZ if nonzero else _LITS)
        if arg and r.random() < 0.5:
            x = -x
        return ['n', x]
    if k == 'r':
        return ['r', r.choice(['B1', 'B2'])]
    return ['t']


def _few(r, **kw):
    return [_opnd(r, **kw) for _ in range(r.choice([0, 0, 1, 1, 2]))]


_STEP_KINDS = ['add', 'sub', 'mul', 'div', 'unary', 'sum', 'avg', 'prod', 'if', 'if', 'iferror', 'isnum']


def _step(r):
    k = r.choice(_STEP_KINDS)
    side = r.choice('LR')
    if k in ('add', 'sub'):
        return [k, _opnd(r), side]
    if k == 'mul':
        return [k, _opnd(r, nonzero=True, today=False), side]
    if k == 'div':
        return [k, _opnd(r, nonzero=True, today=False)]
    if k == 'unary':
        return [r.choice(['neg', 'pos', 'par', 'pct'])]
    if k in ('sum', 'avg'):
        return [k, _few(r, arg=True), _few(r, arg=True)]
    if k == 'prod':
        return [k, _few(r, nonzero=True, arg=True, today=False), _few(r, nonzero=True, arg=True, today=False)]
    if k == 'if':
        return ['if', r.random() < 0.5, r.choice(['then', 'else']), _opnd(r, arg=True), r.randrange(5)]
    if k == 'iferror':
        return ['iferror', 'val', _opnd(r, arg=True)] if r.random() < 0.5 else ['iferror', 'alt']
    return ['isnum', _opnd(r, arg=True), _opnd(r, arg=True)]


def clean_ctx(steps):
    """No sign step directly on a sign step (`-(-x)` is exported as `--x`, which is
    another property's finding) and no `%` directly on a `%` (`(x%)%` is exported
    as `x%%`, which does not parse -- C09's matter)."""
    out, last = [], None
    for s in steps:
        if s[0] in ('neg', 'pos') and last in ('neg', 'pos'):
            continue
        if s[0] == 'pct' and last == 'pct':
            continue
        out.append(s)
        if s[0] != 'par':
            last = s[0]
    return out


def _ctx(r, max_size=6):
    return clean_ctx([_step(r) for _ in range(r.randint(0, max_size))])


def _vol(r):
    k = r.choice(['NOW', 'NOW', 'NOWi', 'TODAY', 'TODAY', 'TODAYi', 'RAND', 'RAND', 'RAND', 'RBlit', 'RBref', 'RBvol'])
    if k in ('NOW', 'TODAY', 'RAND'):
        return {'f': k}
    if k == 'NOWi':
        return {'f': 'NOW', 'inner': r.choice(['INT', 'YEAR', 'MONTH', 'DAY'])}
    if k == 'TODAYi':
        return {'f': 'TODAY', 'inner': r.choice(['YEAR', 'MONTH', 'DAY'])}
    if k == 'RBlit':
        c = r.randrange(4)
        if c == 0:
            lo = r.randint(-2 * 10 ** 9, 10 ** 6)
            hi = lo + r.randint(10 ** 9, 3 * 10 ** 9)
        elif c == 1:
            lo = r.randint(-20, 20)
            hi = lo + r.randint(0, 10)
        elif c == 2:
            lo = hi = r.randint(-5, 5)
        else:
            lo, hi = 1, 10 ** 6
        return {'f': 'RANDBETWEEN', 'lo': ['n', float(lo)], 'hi': ['n', float(hi)]}
    if k == 'RBref':
        return r.choice([
            {'f': 'RANDBETWEEN', 'lo': ['r', 'B3'], 'hi': ['r', 'B4']},
            {'f': 'RANDBETWEEN', 'lo': ['n', -3000000000.0], 'hi': ['r', 'B4']},   # B4 >= -1e9-50-calls
            {'f': 'RANDBETWEEN', 'lo': ['r', 'B3'], 'hi': ['n', 4000000000.0]},    # B3 <= 1e9
        ])
    return r.choice([
        {'f': 'RANDBETWEEN', 'lo': ['n', 1.0], 'hi': ['t']},
        {'f': 'RANDBETWEEN', 'lo': ['n', -2000000000.0], 'hi': ['t']},
    ])


def _cells(r):
    if r.random() < 0.5:
        lo = r.randint(-10 ** 9, 10 ** 9)
        hi = lo + r.randint(10 ** 9, 2 * 10 ** 9)
    else:
        lo = r.randint(-50, 50)
        hi = lo + r.randint(0, 6)
    return {'B1': r.choice(_CELLVALS), 'B2': r.choice(_CELLVALS), 'B3': float(lo), 'B4': float(hi)}


_LEAPISH = [1904, 2000, 2023, 2024, 2100, 2400]
_SMALL_ADV = [0.0, 0.4, 0.6, 1.0, 1.0, 2.0, 3.0, 7.0, 11.0, 30.0, 59.0, 61.0]
_BIG_ADV = [3600.0, 86400.0, 86400.0, 86399.0, 86400.0 * 31, 86400.0 * 366, 43200.0, 90061.0]


def _last_day(y, m):
    n = _dt.date(y + (m == 12), m % 12 + 1, 1) - _dt.timedelta(days=1)
    return n.day


def _clock(r):
    """-> (start [y,m,d,h,mi,s,us], advances in seconds; the first one separates build time from the first call)"""
    kind = r.choice(['plain', 'plain', 'midnight', 'month-end', 'year-end', 'feb', 'far'])
    y = r.randint(1901, 2100) if r.random() < 0.67 else r.randint(2101, 9990)
    us = r.choice([0, 0, 1, 400000, 500000, 999999])
    n = r.randint(3, 6)
    if kind in ('plain', 'far'):
        if kind == 'far':
            y = r.choice([1901, 1999, 2199, 5000, 9990])
        mo = r.randint(1, 12)
        d = r.randint(1, _last_day(y, mo))
        h, mi, s = r.randint(0, 23), r.randint(0, 59), r.randint(0, 59)
        adv = [r.choice(_SMALL_ADV) if r.random() < 0.5 else r.choice(_BIG_ADV) for _ in range(n)]
    else:
        if kind == 'midnight':
            mo = r.randint(1, 12)
            d = r.randint(1, _last_day(y, mo))
        elif kind == 'month-end':
            mo = r.randint(1, 12)
            d = _last_day(y, mo)
        elif kind == 'year-end':
            if r.random() < 0.5:
                y = r.choice([1999, 2099, 9997])
            mo, d = 12, 31
        else:
            y = r.choice(_LEAPISH)
            mo = 2
            d = r.choice([28, _last_day(y, 2)])
        h, mi, s = 23, 59, r.randint(40, 59)
        adv = [r.choice(_SMALL_ADV) if r.random() < 0.67 else r.choice([86400.0, 86399.0, 3600.0]) for _ in range(n)]
    if adv[0] < 1.0:
        adv[0] = r.choice([1.0, 5.0, 86400.0, 100000.0])
    return [y, mo, d, h, mi, s, us], adv


# a dill round trip costs 0.37 s against ~10 ms for everything else: sampled less often
_FPATH = [p for p in FPATHS if not p.endswith('dill')] * 12 + ['dill', 'parser-dill']
_MPATH = [p for p in MPATHS if p != 'dill'] * 8 + ['compile'] * 4 + ['dill']


def build_formula_case(n):
    import random
    r = random.Random(n)
    vol, ctx = _vol(r), _ctx(r)
    clock, adv = _clock(r)
    return {'k': 'formula', 'vol': vol, 'ctx': ctx, 'cells': _cells(r), 'path': r.choice(_FPATH), 'pre': r.random() < 0.5,
            'vary': r.random() < 0.5, 'clock': clock, 'adv': adv, 'seed': r.randrange(2 ** 31)}


def _dep_ctx(r):
    """dependents: shallow contexts without TODAY() operands"""
    def o(nz=False):
        return _opnd(r, nonzero=nz, today=False)
    steps = []
    for _ in range(r.randint(0, 2)):
        k = r.choice(['add', 'sub', 'mul', 'neg', 'par', 'sum', 'if', 'iferror'])
        if k in ('add', 'sub'):
            steps.append([k, o(), r.choice('LR')])
        elif k == 'mul':
            steps.append([k, o(True), r.choice('LR')])
        elif k in ('neg', 'par'):
            steps.append([k])
        elif k == 'sum':
            steps.append(['sum', [o() for _ in range(r.randint(0, 1))], [o() for _ in range(r.randint(0, 1))]])
        elif k == 'if':
            steps.append(['if', r.random() < 0.5, r.choice(['then', 'else']), o(), r.randrange(5)])
        else:
            steps.append(['iferror', 'val', ['n', 0.0]])
    return clean_ctx(steps)


def build_wb_case(n):
    import random
    r = random.Random(n)
    nvol = r.randint(1, 3)
    consts = _cells(r)
    vols, deps = [], []
    for i in range(nvol):
        vols.append({'cell': 'A%d' % (i + 1), 'vol': _vol(r), 'ctx': _ctx(r, 2)})
    for row in range(nvol + 1, 5):  # rest of A1:A4 holds constants so that ranges over column A are known
        consts['A%d' % row] = r.choice(_CELLVALS)
    free = {'S': ['C%d' % i for i in range(1, 9)] + ['D%d' % i for i in range(1, 9)],   # 16 >= 3*4+2 cells per sheet
            'T': ['A%d' % i for i in range(1, 9)] + ['B%d' % i for i in range(1, 9)]}
    placed = []
    for v in vols:
        for j in range(r.randint(2, 4)):
            sheet = r.choice(['S', 'S', 'T'])
            c = free[sheet].pop(0)
            kind = r.choice(['ctx', 'ctx', 'direct', 'range'])
            if kind == 'range':
                row = int(v['cell'][1:])
                first, last = r.randint(1, row), r.randint(row, 4)
                if first == last:  # the volatile cell is in rows 1..3, so last <= 3 here
                    last += 1
                deps.append({'sheet': sheet, 'cell': c,
                             'form': ['range', r.choice(['SUM', 'SUM', 'AVERAGE']), 'A%d' % first, 'A%d' % last]})
            else:
                deps.append({'sheet': sheet, 'cell': c, 'of': ['S', v['cell']],
                             'form': ['ctx', [] if kind == 'direct' else _dep_ctx(r)]})
                placed.append([sheet, c])
    for j in range(r.randint(0, 2)):  # second-level dependents
        if not placed:
            break
        of = r.choice(placed)
        sheet = r.choice(['S', 'T'])
        deps.append({'sheet': sheet, 'cell': free[sheet].pop(0), 'of': list(of), 'form': ['ctx', _dep_ctx(r)]})
    clock, adv = _clock(r)
    return {'k': 'wb', 'vols': vols, 'deps': deps, 'consts': consts, 'path': r.choice(_MPATH), 'pre': r.random() < 0.5,
            'vary': r.random() < 0.5, 'clock': clock, 'adv': adv, 'seed': r.randrange(2 ** 31)}


def _formula(tier):
    return st.integers(0, 2 ** 63 - 1).map(build_formula_case)


def _wb(tier):
    return st.integers(0, 2 ** 63 - 1).map(build_wb_case)


STRATEGIES = {'formula': _formula, 'workbook': _wb}


# ----------------------------------------------------------------------------
# grid: every volatile x every single step x every path, year-end clock
# ----------------------------------------------------------------------------
GRID_VOLS = [
    {'f': 'NOW'}, {'f': 'NOW', 'inner': 'INT'}, {'f': 'NOW', 'inner': 'YEAR'}, {'f': 'TODAY'}, {'f': 'TODAY', 'inner': 'DAY'},
    {'f': 'RAND'},
    {'f': 'RANDBETWEEN', 'lo': ['n', 1.0], 'hi': ['n', 1000000.0]},
    {'f': 'RANDBETWEEN', 'lo': ['n', -1000000000.0], 'hi': ['n', 2000000000.0]},
    {'f': 'RANDBETWEEN', 'lo': ['r', 'B3'], 'hi': ['r', 'B4']},
    {'f': 'RANDBETWEEN', 'lo': ['n', -2000000000.0], 'hi': ['t']},
]
GRID_VOLS_QUICK = [GRID_VOLS[i] for i in (0, 2, 3, 5, 7, 8)]
_N2, _RB1 = ['n', 2.0], ['r', 'B1']
GRID_STEPS = [
    [], [['par']], [['neg']], [['pos']], [['pct']],
    [['add', _N2, 'L']], [['add', _RB1, 'R']], [['add', ['t'], 'R']], [['sub', _N2, 'L']], [['sub', _RB1, 'R']],
    [['mul', _N2, 'L']], [['mul', _RB1, 'R']], [['div', _N2]],
    [['sum', [], []]], [['sum', [_N2], []]], [['sum', [], [_RB1]]], [['sum', [_N2], [_RB1]]],
    [['avg', [_N2], []]], [['avg', [], [_N2, _RB1]]], [['prod', [_N2], []]], [['prod', [], [_RB1]]],
    [['if', True, 'then', _N2, 0]], [['if', False, 'else', _N2, 1]], [['if', True, 'else', _N2, 2]], [['if', False, 'then', _RB1, 3]],
    [['iferror', 'val', _N2]], [['iferror', 'alt']], [['isnum', _N2, _RB1]],
    [['neg'], ['sum', [_N2], []], ['if', True, 'then', _N2, 2]],
]
GRID_CLOCKS = [
    ([2019, 12, 31, 23, 59, 57, 400000], [1.0, 1.0, 1.0, 1.0, 86400.0 * 60]),
    ([2024, 2, 28, 12, 0, 0, 0], [86400.0, 43200.0, 43200.0, 0.0]),
]


def _grid(tier):
    """quick: one of the two clocks per case (alternating), dill paths only for two contexts (a dill round trip costs
    0.37 s); thorough: the complete product."""
    q = tier == 'quick'
    i = 0
    for vol in GRID_VOLS:
        for si, ctx in enumerate(GRID_STEPS):
            for path in FPATHS:
                if q and path.endswith('dill') and si not in (0, 16):
                    continue
                if q and vol not in GRID_VOLS_QUICK:
                    continue
                i += 1
                for ck, (clock, adv) in enumerate(GRID_CLOCKS):
                    if q and ck != i % 2:
                        continue
                    for pre in ((False, True) if path in ('deepcopy', 'parser-deepcopy') and not q else (True,)):
                        yield {'k': 'formula', 'vol': vol, 'ctx': ctx, 'path': path, 'pre': pre, 'vary': path in ('cell', 'parser-dill'),
                               'cells': {'B1': 3.0, 'B2': -2.0, 'B3': -1000000000.0, 'B4': 1000000000.0},
                               'clock': clock, 'adv': adv, 'seed': 12345 + i}


FLOORS = {
    'vol:NOW': ('count', {'quick': 300, 'thorough': 3000}),
    'vol:TODAY': ('count', {'quick': 300, 'thorough': 3000}),
    'vol:RAND': ('count', {'quick': 300, 'thorough': 3000}),
    'vol:RANDBETWEEN:lit': ('count', {'quick': 200, 'thorough': 2000}),
    'vol:RANDBETWEEN:ref': ('count', {'quick': 100, 'thorough': 1000}),
    'branch:not-selected': ('count', {'quick': 200, 'thorough': 2000}),
    'clock:cross:midnight': ('count', {'quick': 500, 'thorough': 5000}),
    'clock:cross:month-end': ('count', {'quick': 200, 'thorough': 2000}),
    'clock:cross:year-end': ('count', {'quick': 200, 'thorough': 2000}),
    'today-term:changes': ('count', {'quick': 200, 'thorough': 2000}),
    'part:workbook': ('count', {'quick': 200, 'thorough': 2000}),
    'dep:range': ('count', {'quick': 100, 'thorough': 1000}),
    'dep:second-level': ('count', {'quick': 100, 'thorough': 1000}),
    'dep:cross-sheet': ('count', {'quick': 100, 'thorough': 1000}),
    'depth:4+': ('count', {'quick': 50, 'thorough': 500}),
}
for _p in FPATHS:
    if _p != 'compile':
        FLOORS['path:' + _p] = ('count', {'quick': 12, 'thorough': 300} if _p.endswith('dill') else {'quick': 100, 'thorough': 1000})
FLOORS['path:compile:dep'] = ('count', {'quick': 50, 'thorough': 500})
FLOORS['path:compile:indep'] = ('count', {'quick': 50, 'thorough': 500})


def parts(tier, seed):
    q = tier == 'quick'
    sweep_workdirs()
    return [
        ('enum', 'grid', _grid(tier), 40, not q),
        ('hyp', 'formula', 1440 if q else 40000),
        ('hyp', 'workbook', 400 if q else 12000),
        ('enum', 'rb-fractional', [{'k': 'rbfrac', 'lo': lo, 'hi': hi, 'n': 30 if q else 200, 'rs': seed}
                                   for lo, hi in [(-3.5, -1.5), (-7.9, -7.1), (-0.5, -0.2), (0.2, 3.7), (1.5, 9.5), (-9.5, 9.5), (-2.0, -1.0),
                                                  (2.5, 2.9), (-10.25, -0.75), (0.0, 0.9), (-1.5, 1.5), (3.0, 3.0), (-4.5, -4.5)]], 2, False),
        ('enum', 'diamonds', [{'k': 'diamond', 'shape': sh_, 'via': via} for sh_ in ('diamond', 'chain-fan', 'late-join')
                             for via in ('orig', 'deepcopy', 'copy', 'dill', 'grow', 'grow-formula', 'recompile', 'calc-first', 'grow-placeholder', 'grow-placeholder-calc')], 1, False),
        ('enum', 'running-clock', list(running_clock_cases()), 6, False),
        ('enum', 'extreme-draws', list(extreme_draw_cases()), 6, False),
    ]
