"""C16 - writing a solution reproduces it cell for cell."""
import os
from hypothesis import strategies as st

from .. import sut
from ..runner import R
from ..xlref import wb as W
from ..xlref import core as X
from ..gen import workbooks as G

ID = 'C16'
RULE = ('Hypothesis workbook specs (1-2 books x 1-2 sheets, array-formula ranges, all value kinds incl. errors, blanks and '
        'empty text, sheet-name classes) loaded from xlsx files; solutions from a plain calculation or from a calculation with '
        'overridden constant cells; three sinks: fresh books (write()), the loaded books of a partially loaded model '
        '(write(books=model.books), so that untouched cells exist), and disk (write(dirpath) read back with openpyxl data_only). '
        'Oracle: every cell of every solved node (flattened solution) is found at its own book/sheet/coordinates with the '
        'normalised value (errors as text, blank and "" as empty); cells of loaded books outside the solution keep value and type; '
        'model.compare(*written files) == [] (with the solution, without it, and without it after a later what-if calculation on the same model). Non-trivial = solution has a multi-cell node, >= 2 sheets and an error or blank; '
        'distinct by (spec, overrides, sink).')
ASSUMPTIONS = ['the solution itself is taken from the model (its correctness is C03/C07); circular models are not written']
WATCHDOG_S = 120
BOOK = None


def book_token():
    global BOOK
    if BOOK is None:
        import formulas.excel as fe
        BOOK = fe.BOOK
    return BOOK


def norm_expected(v):
    """harness value -> what an openpyxl cell must hold"""
    if isinstance(v, sut.Err):
        return v.t
    if isinstance(v, sut.Blank) or v == '':
        return None
    return v


def cell_matches(w, e):
    if e is None:
        return w is None
    if isinstance(e, bool) or isinstance(w, bool):
        return isinstance(w, bool) and isinstance(e, bool) and w == e
    if isinstance(e, float):
        return isinstance(w, (int, float)) and X.num_eq(float(w), e, 1e-15)
    return isinstance(w, str) and w == e


def find_book(books, fname):
    for k, v in books.items():
        if str(k).upper().replace('\\', '/').split('/')[-1] == fname.upper():
            return v[book_token()] if isinstance(v, dict) else v
    return None


def find_sheet(book, sname):
    for n in book.sheetnames:
        if n.upper() == sname.upper():
            return book[n]
    return None


def parse_sid(spec, sid):
    """SHEET_ID (upper) -> (book file name, sheet name) of the spec"""
    for b, bk in enumerate(spec['books']):
        for s, sn in enumerate(bk['sheets']):
            if G.sheet_id(spec, b, s) == sid:
                return bk['name'], sn
    return None


def kind_of(v):
    return X.cls(v) if not isinstance(v, sut.Blank) else 'blank'


def verify_books(spec, books, flat, sink, fails, reader=lambda ws, r, c: ws.cell(row=r, column=c).value):
    for (sid, r, c), v in sorted(flat.items(), key=repr):
        loc = parse_sid(spec, sid)
        if loc is None:
            continue
        bk = find_book(books, loc[0])
        if bk is None:
            fails.append(('missing-book|%s' % sink, 'no book %r among %s' % (loc[0], list(books))))
            continue
        ws = find_sheet(bk, loc[1])
        if ws is None:
            fails.append(('missing-sheet|%s' % sink, 'no sheet %r in %s (has %s)' % (loc[1], loc[0], bk.sheetnames)))
            continue
        w = reader(ws, r, c)
        e = norm_expected(v)
        if not cell_matches(w, e):
            multi = 'multi' if (sid, r, c) in flat.get('__multi__', ()) else 'single'
            fails.append(('cell|%s|%s' % (sink, kind_of(v)), '%s!%s%d holds %r, solution has %r' % (sid, G.col(c), r, w, v)))


def overrides_for(spec, choice):
    """choice: list of (cell index, const) for constant cells"""
    inputs = {}
    for idx, v in choice:
        cells = [c for c in spec['cells'] if 'f' not in c]
        if not cells:
            break
        cell = cells[idx % len(cells)]
        if v == 'SWAP-KIND':
            # the equal value of the other kind (1 <-> TRUE, 0 <-> FALSE): equal for Python, different for a workbook
            cv = cell['v']
            swaps = [c_ for c_ in cells if isinstance(c_['v'], bool) or (isinstance(c_['v'], float) and c_['v'] in (0.0, 1.0))]
            if swaps:
                cell = swaps[idx % len(swaps)]
                cv = cell['v']
                v = float(cv) if isinstance(cv, bool) else bool(cv)
            else:
                v = True
        inputs[tuple(cell['at'])] = v
    return inputs


def node_name(spec, key):
    b, s, r, c = key
    return "'[%s]%s'!%s" % (G.book_name(spec, b), G.sheet_name(spec, b, s).upper(), G.a1(r, c))


def check_spec(case):
    spec = case['spec']
    fails = []
    sink = case['sink']
    over = overrides_for(spec, [(i, v) for i, v in case.get('over', [])])
    with G.workdir() as d:
        src = os.path.join(d, 'in')
        paths = G.write_files(spec, src, merge=bool(case.get('merge')))  # merged cells are read-only: write() has to step over them
        if sink == 'loaded':
            # partial model: only some outputs are loaded, the rest of the loaded books must stay untouched
            outs = [c for c in spec['cells'] if 'f' in c]
            if not outs:
                return R(labels=['skipped:no-formula'])
            oc = outs[case.get('out', 0) % len(outs)]
            b, s, r, c = oc['at']
            m = sut.ExcelModel()
            m.basedir = src
            name = G.qual_full(spec, b, s) + G.a1(r, c)
            if 'arr' in oc:
                name += ':' + G.a1(*oc['arr'])
            m.from_ranges(name).finish()
        else:
            m = sut.ExcelModel().loads(*paths).finish()
        inputs = {}
        if over:
            for key, v in over.items():
                nid = _find_node(m, spec, key)
                if nid is not None:
                    inputs[nid] = sut.override_value(W.const(v))
        sol = m.calculate(inputs=inputs) if inputs else m.calculate()
        flat, _ = G.flatten(sol)
        if sink == 'fresh':
            books = m.write(solution=sol)
            verify_books(spec, books, flat, sink, fails)
        elif sink == 'loaded':
            import openpyxl
            before = {}
            for k, bd in m.books.items():
                bk = bd[book_token()]
                for ws in bk.worksheets:
                    for row in ws.iter_rows():
                        for cc in row:
                            if cc.value is not None:
                                before[(str(k), ws.title, cc.row, cc.column)] = (repr(cc.value if not hasattr(cc.value, 'text') else cc.value.text), cc.data_type)
            books = m.write(books=m.books, solution=sol)
            verify_books(spec, books, flat, sink, fails)
            solved = set()
            for (sid, r, c) in flat:
                loc = parse_sid(spec, sid)
                if loc:
                    solved.add((loc[0].upper(), loc[1].upper(), r, c))
            for (k, title, r, c), (val, dt) in before.items():
                if (k.upper().split('/')[-1], title.upper(), r, c) in solved:
                    continue
                cc = find_sheet(books[k][book_token()], title).cell(row=r, column=c)
                now = (repr(cc.value if not hasattr(cc.value, 'text') else cc.value.text), cc.data_type)
                if now != (val, dt):
                    fails.append(('touched|loaded', '%s!%s%d was %r, now %r although it is not in the solution' % (title, G.col(c), r, (val, dt), now)))
            if inputs:
                # the same books written a second time, now with the plain solution: every cell shows the second solution
                sol2 = m.calculate()
                flat2, _ = G.flatten(sol2)
                books = m.write(books=books, solution=sol2)
                f2 = []
                verify_books(spec, books, flat2, sink + '-second-write', f2)
                fails += f2[:2]
        else:
            import openpyxl
            outd = os.path.join(d, 'out')
            m.write(solution=sol, dirpath=outd)
            written = {}
            files = []
            for bk in spec['books']:
                p = os.path.join(outd, bk['name'])
                if not os.path.exists(p):
                    alt = [f for f in os.listdir(outd) if f.upper() == bk['name'].upper()] if os.path.isdir(outd) else []
                    p = os.path.join(outd, alt[0]) if alt else p
                if os.path.exists(p):
                    written[bk['name']] = openpyxl.load_workbook(p, data_only=True)
                    files.append(p)
            verify_books(spec, written, flat, sink, fails)
            if files and not over:
                try:
                    diff = m.compare(*files, solution=sol)
                    if diff:
                        fails.append(('compare|nonempty', 'compare() reports %s' % (diff[:3],)))
                    if len(files) > 1:
                        # a model of several books compared with its files one at a time, and in the other order
                        for fp in files:
                            diff = m.compare(fp, solution=sol)
                            if diff:
                                fails.append(('compare|nonempty-single-file', 'compare(%s) alone reports %s' % (os.path.basename(fp), diff[:2])))
                                break
                        diff = m.compare(*files[::-1], solution=sol)
                        if diff:
                            fails.append(('compare|nonempty-reversed-files', 'compare() with the files in reverse order reports %s' % (diff[:2],)))
                    # the solution written into the LOADED books (original sheet titles, formulas replaced by values) and saved
                    # (only when every sheet of every book holds a cell: an empty loaded sheet is not part of the model)
                    outl = os.path.join(d, 'outl')
                    used = {(c['at'][0], c['at'][1]) for c in spec['cells'] if c.get('v', 1) != ''}
                    allused = all((bi, si) in used for bi, bk in enumerate(spec['books']) for si in range(len(bk['sheets'])))
                    if allused:
                        m.write(books=m.books, solution=sol, dirpath=outl)
                    lfiles = []
                    for bk in spec['books']:
                        alt = [f_ for f_ in os.listdir(outl) if f_.upper() == bk['name'].upper()] if os.path.isdir(outl) else []
                        if alt:
                            lfiles.append(os.path.join(outl, alt[0]))
                    if not allused:
                        pass
                    elif len(lfiles) == len(spec['books']):
                        diff = m.compare(*lfiles, solution=sol)
                        if diff:
                            fails.append(('compare|nonempty-loaded-books-on-disk', 'compare() with the loaded books written to disk reports %s' % (diff[:2],)))
                    else:
                        fails.append(('missing-book|loaded-on-disk', 'write(books=model.books, dirpath=..) produced %s' % (os.listdir(outl) if os.path.isdir(outl) else None,)))
                    diff = m.compare(*files)
                    if diff:
                        fails.append(('compare|nonempty-default-solution', 'compare() without solution= reports %s' % (diff[:3],)))
                    # a later what-if calculation on the same model does not change what the model is
                    whatif = {}
                    for c_ in spec['cells']:
                        if 'f' not in c_ and isinstance(c_.get('v'), float):
                            nid = _find_node(m, spec, tuple(c_['at']))
                            if nid is not None:
                                whatif[nid] = c_['v'] + 1.0
                    if whatif:
                        m.calculate(inputs=whatif)
                        # the files were written from `sol`: naming it explicitly compares them with that solution, whatever the
                        # model calculated last
                        diff = m.compare(*files, solution=sol)
                        if diff:
                            fails.append(('compare|nonempty-explicit-solution-after-later-calculation',
                                          'after calculate(inputs=...), compare(files of the earlier solution, solution=<that solution>) reports %s' % (diff[:3],)))
                        diff = m.compare(*files)
                        if diff:
                            fails.append(('compare|nonempty-after-whatif', 'after calculate(inputs=...) on the same model, compare() reports %s' % (diff[:3],)))
                except sut.Watchdog:
                    raise
                except Exception as ex:
                    fails.append(('compare|raised:%s' % type(ex).__name__, repr(ex)[:200]))
    multi = any('arr' in c for c in spec['cells'])
    sheets = sum(len(b['sheets']) for b in spec['books'])
    has_eb = any(isinstance(v, (sut.Err, sut.Blank)) or v == '' for v in flat.values())
    seen, out = set(), []
    for s_, d_ in fails:
        if s_ not in seen:
            seen.add(s_)
            out.append((s_, d_))
    labels = ['sink:' + sink] + (['override'] if over else []) + G.features_of(spec) + sorted({'kind:' + kind_of(v) for v in flat.values()})
    return R(out, nt=multi and sheets >= 2 and has_eb, n=len(flat), labels=labels)


def _find_node(m, spec, key):
    want = G.node_id(spec, key)
    for k in m.dsp.data_nodes:
        if isinstance(k, str) and k.upper() == want:
            return k
    return None


def check_case(case):
    if case['k'] == 'spec':
        return check_spec(case)
    raise ValueError(case['k'])


_VAL = st.one_of(st.sampled_from(G.NUM_CONST), st.sampled_from(G.TXT_CONST + ['', '=x', '#N/A']), st.booleans(), st.just('SWAP-KIND'), st.just('SWAP-KIND'),
                 st.sampled_from(G.ERR_CONST).map(lambda e: ['E', e]), st.none())
_CONST = st.one_of(st.sampled_from(G.NUM_CONST), st.sampled_from(G.TXT_CONST), st.booleans(),
                   st.sampled_from(G.ERR_CONST).map(lambda e: ['E', e]), st.sampled_from(['', 'x y', 'ünï']))


def _specs(tier):
    return st.builds(lambda spec, sink, over, out: {'k': 'spec', 'spec': spec, 'sink': sink, 'over': over, 'out': out % 21, 'merge': out >= 21},
                     G.specs(tier, max_books=2, wholecols=False, const=_CONST,
                             sheet_classes=['plain', 'plain', 'space', 'mixed', 'nonascii', 'casefold', 'default', 'default']),
                     st.sampled_from(['fresh', 'loaded', 'disk']),
                     st.one_of(st.just([]), st.lists(st.tuples(st.integers(0, 20), _VAL).map(list), min_size=1, max_size=3)),
                     st.integers(0, 41))


STRATEGIES = {'specs': _specs}


def _merged_shapes():
    """Fixed shapes (added after seed c16-b-r5): a rectangle read by a formula whose first / middle / last row starts with a
    merged pair (value in the left cell, the right one a read-only merged cell), populated rows around it; every sink."""
    out = []
    for mrow in (1, 2, 3):
        for width in (2, 3):
            cells = []
            for r in (1, 2, 3):
                for c in range(1, width + 1):
                    if r == mrow and c == 2:
                        continue  # the merged (unpopulated) cell
                    cells.append({'at': [0, 0, r, c], 'v': float(10 * r + c)})
            cells.append({'at': [0, 0, 1, 5], 'f': ['fn', 'SUM', ['rng', [0, 0, 1, 1, 3, width]]]})
            cells.append({'at': [0, 0, 2, 5], 'f': ['bin', '&', ['ref', [0, 0, 3, 1]], ['str', '-']]})
            cells.append({'at': [0, 0, 7, 7], 'v': 'untouched'})
            spec = {'books': [{'name': 'b0.xlsx', 'sheets': ['DATA']}], 'cells': cells, 'names': []}
            for sink in ('loaded', 'disk', 'fresh'):
                for over in ([], [[0, 5.0]]):
                    out.append({'k': 'spec', 'spec': spec, 'sink': sink, 'over': over, 'out': 0, 'merge': True})
    return out


def parts(tier, seed):
    q = tier == 'quick'
    return [('hyp', 'specs', 1600 if q else 12000, 10),
            ('enum', 'merged-cells', _merged_shapes(), 2, False)]
