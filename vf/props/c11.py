"""C11 - worksheet functions are total and never lose an error value."""
import os
import sys
import zlib
import random
import subprocess
import traceback

from .. import sut
from ..sut import Err, BLANK, Blank, Foreign
from ..runner import R
from ..xlref import core as X
from ..xlref import c11_arity as T

ID = 'C11'
RULE = ('Every name of get_functions() except ARRAY/ARRAYROW (aliases _XLFN./_XLWS./__XLUDF. share the entry of their base name) x '
        'every admissible argument count of a hand-written arity table (Excel\'s documented signatures; variadic: first four counts, '
        '5, 8, 9, 30..34, 39, 40) x argument tuples. Part "sweep" (deterministic, complete for its definition): a plausible baseline '
        'tuple per function and count, every single position replaced in turn by every value of a pool (numbers incl. 0, negatives, '
        '1E+-300, 1.797E+308, date serial bounds; numeric/padded text; plain, empty, criteria-, format- and error-looking text; '
        'Python-float spellings; TRUE/FALSE; the 7 errors; blank reference; 1x1 references of every kind; ranges 1xn/mx1/mxn with '
        'blanks, text and errors; array literals 1x1/1xn/mx1/mxn), plus the "diagonal" (all positions the same pool value). '
        'Part "random": seeded random tuples per function (kinds per position drawn independently, arrays at element-wise positions '
        'shape-compatible, at whole-argument positions arbitrary; quick 40, thorough 2000 tuples per name). The sweep also holds the '
        'two excluded non-termination inputs, each run once in a killable child process. Each tuple is evaluated as Cell("A1","=F(args)") in a '
        'Dispatcher(raises=True) (literals in the formula text, references as Ranges inputs) and as get_functions()[F](*args). '
        'Asserted: no exception / failed dispatch / missing output; every element of the result is an Excel value; for functions and '
        'positions outside the exempt list, replacing a scalar argument by an error value makes every element of the result an error, '
        'an error element inside an array/range given to an aggregate makes the result an error, and an error element at (i,j) of an '
        'array given to a purely element-wise function makes element (i,j) of the result an error. Non-trivial = the tuple mixes >= 2 '
        'kinds or contains an error, a blank, a range or an array; distinct by (function, tuple).')
ASSUMPTIONS = [
    'the arity table (vf/xlref/c11_arity.py) is my transcription of Excel\'s documented signatures; names without documentation '
    '(SINGLE, DUMMYFUNCTION) are generated with one argument only and reported as arity-unverified',
    'arrays of incompatible shapes at element-wise positions are not generated (the repo raises BroadcastError there, pinned by its own tests)',
    'digit/size arguments are bounded where unboundedness is a listed non-termination/resource finding: ROUND/ROUNDUP/ROUNDDOWN/TRUNC '
    '|digits| <= 400, FACT/FACTDOUBLE <= 10000, MUNIT <= 64, places of BIN/OCT/HEX/DEC conversions <= 10000; ROUND(1,1E+300) and '
    'FACT(1E+9) are probed once in a killable child process',
    'omitted (empty) arguments and date/currency/percent-looking text are not generated (locale dependent)',
    'which error value comes back is not asserted (C12), only that it is an error']

WATCHDOG_S = 60
ERR_CYCLE = ['#N/A', '#DIV/0!', '#REF!']

# ---------------------------------------------------------------- exemptions of the error-propagation clause
# documented error-handling / inspection functions, counting functions, criteria functions, reference inspection
EXEMPT_ALL = {'IFERROR', 'IFNA', 'ISBLANK', 'ISERR', 'ISERROR', 'ISLOGICAL', 'ISNA', 'ISNONTEXT', 'ISNUMBER', 'ISTEXT',
              'COUNT', 'COUNTA', 'COUNTBLANK', 'COUNTIF', 'SUMIF', 'AVERAGEIF', 'ROW', 'COLUMN', 'SINGLE', 'NA',
              'DUMMYFUNCTION'}
# functions of which only some positions are always consumed (branches / unselected array elements are not)
ONLY = {'IF': {0}, 'IFS': {0}, 'SWITCH': {0}, 'INDEX': {1, 2, 3}, 'MATCH': {0, 2}, 'LOOKUP': {0},
        'VLOOKUP': {0, 2, 3}, 'HLOOKUP': {0, 2, 3}, 'FILTER': {1}}
# aggregates: every element of an array/range at these positions is consumed
AGG_ALL = {'SUM', 'PRODUCT', 'SUMSQ', 'SUMPRODUCT', 'GCD', 'LCM', 'AVERAGE', 'AVERAGEA', 'MAX', 'MAXA', 'MIN', 'MINA', 'MEDIAN',
           'STDEV', 'STDEV.S', 'STDEV.P', 'STDEVP', 'STDEVA', 'STDEVPA', 'VAR', 'VAR.S', 'VAR.P', 'VARP', 'VARA', 'VARPA',
           'AND', 'OR', 'XOR', 'CONCAT', 'CORREL', 'SLOPE', 'MDETERM', 'MINVERSE', 'MMULT'}
AGG_POS = {'TEXTJOIN': lambda p: p >= 2, 'NPV': lambda p: p >= 1, 'IRR': lambda p: p == 0, 'XNPV': lambda p: p in (1, 2),
           'XIRR': lambda p: p in (0, 1), 'FORECAST': lambda p: p in (1, 2), 'FORECAST.LINEAR': lambda p: p in (1, 2),
           'LARGE': lambda p: p == 0, 'SMALL': lambda p: p == 0, 'PERCENTILE': lambda p: p == 0,
           'PERCENTILE.INC': lambda p: p == 0, 'PERCENTILE.EXC': lambda p: p == 0, 'QUARTILE': lambda p: p == 0,
           'QUARTILE.INC': lambda p: p == 0, 'QUARTILE.EXC': lambda p: p == 0, 'FILTER': lambda p: p == 1}

# numeric bounds (listed non-termination / resource findings), see ASSUMPTIONS
BOUNDS = {('ROUND', 1): 400, ('ROUNDUP', 1): 400, ('ROUNDDOWN', 1): 400, ('TRUNC', 1): 400,
          ('FACT', 0): 10000, ('FACTDOUBLE', 0): 10000, ('MUNIT', 0): 64}
for _a in ('BIN', 'OCT', 'HEX', 'DEC'):
    for _b in ('BIN', 'OCT', 'HEX', 'DEC'):
        if _a != _b and _b != 'DEC':
            BOUNDS[('%s2%s' % (_a, _b), 1)] = 10000

VOLATILE = {'NOW', 'TODAY', 'RAND', 'RANDBETWEEN'}


# ---------------------------------------------------------------- values and argument specs
def dec(v):
    if v is None:
        return BLANK
    if isinstance(v, list):
        return Err(v[1])
    if isinstance(v, bool):
        return v
    if isinstance(v, (int, float)):
        return float(v)
    return v


def enc(v):
    if isinstance(v, Err):
        return ['E', v.t]
    if isinstance(v, Blank):
        return None
    return v


def S(v):
    return {'s': enc(v)}


def Rf(rows):
    return {'r': [[enc(v) for v in row] for row in rows]}


def Ar(rows):
    return {'a': [[enc(v) for v in row] for row in rows]}


def rows_of(arg):
    return arg.get('r') or arg.get('a')


def shape_of(arg):
    if 's' in arg:
        return None
    rows = rows_of(arg)
    return len(rows), len(rows[0])


def scalar_like(arg):
    return 's' in arg or shape_of(arg) == (1, 1)


def vkind(v):
    v = dec(v)
    k = X.kind(v)
    if k == 'text':
        if v == '':
            return 'empty-text'
        try:
            float(v)
            return 'pytrap'
        except ValueError:
            return 'text'
    return k


def arg_label(arg):
    if 's' in arg:
        return 's:' + vkind(arg['s'])
    m, n = shape_of(arg)
    t = 'ref' if 'r' in arg else 'arr'
    if (m, n) == (1, 1):
        if t == 'ref' and arg['r'][0][0] is None:
            return 'ref:blank'
        return '%s:1x1' % t
    return '%s:%s' % (t, 'row' if m == 1 else 'col' if n == 1 else '2d')


def numbers_in(arg):
    """All finite numbers an argument could be read as (bounded positions)."""
    vals = [arg['s']] if 's' in arg else [v for row in rows_of(arg) for v in row]
    out = []
    for v in vals:
        if isinstance(v, bool) or v is None or isinstance(v, list):
            continue
        if isinstance(v, str):
            try:
                v = float(v)
            except ValueError:
                continue
        if v == v and v not in (float('inf'), float('-inf')):
            out.append(v)
    return out


def nonfinite_text(arg):
    vals = [arg['s']] if 's' in arg else [v for row in rows_of(arg) for v in row]
    for v in vals:
        if isinstance(v, str):
            try:
                x = float(v)
            except ValueError:
                continue
            if x != x or x in (float('inf'), float('-inf')):
                return True
    return False


def within_bounds(base, p, arg):
    b = BOUNDS.get((base, p))
    return b is None or all(abs(x) <= b for x in numbers_in(arg))


_COLS = 'ABCDEFGHIJKLMNOPQRSTUVWXYZ'


def _cname(c):
    s = ''
    while c:
        c, r = divmod(c - 1, 26)
        s = _COLS[r] + s
    return s


def ref_name(i, shape):
    m, n = shape
    c1 = 2 + 4 * i
    a = '%s1' % _cname(c1)
    if (m, n) == (1, 1):
        return a
    return '%s:%s%d' % (a, _cname(c1 + n - 1), m)


def lit(v):
    v = dec(v)
    if isinstance(v, float):
        return X.literal(v, paren_negative=False)
    return X.literal(v)


def render(name, args):
    """-> formula text, {range name: rows of harness values}"""
    parts, inputs = [], {}
    for i, a in enumerate(args):
        if 's' in a:
            parts.append(lit(a['s']))
        elif 'r' in a:
            nm = ref_name(i, shape_of(a))
            inputs[nm] = [[dec(v) for v in row] for row in a['r']]
            parts.append(nm)
        else:
            parts.append('{%s}' % ';'.join(','.join(lit(v) for v in row) for row in a['a']))
    return '=%s(%s)' % (name, ','.join(parts)), inputs


def py_args(args):
    F = sut.get_functions()
    out = []
    for i, a in enumerate(args):
        if 's' in a:
            out.append(sut.to_repo(dec(a['s'])))
        elif 'r' in a:
            out.append(sut.rng(ref_name(i, shape_of(a)), [[dec(v) for v in row] for row in a['r']]))
        else:
            arr = F['ARRAY']
            out.append(arr(*[arr(*[sut.to_repo(dec(v)) for v in row]) for row in a['a']]))
    return out


# ---------------------------------------------------------------- the two observation points
def _frame(tb):
    best = None
    for fs in traceback.extract_tb(tb):
        fn = os.path.abspath(fs.filename)
        if fn.startswith(sut.REPO + os.sep):
            best = '%s:%s' % (os.path.relpath(fn, sut.REPO), fs.name)
    return best


def bucket(ex):
    inner = getattr(ex, 'ex', None)
    if not isinstance(inner, BaseException):
        inner = ex
    frame = _frame(inner.__traceback__) or (_frame(ex.__traceback__) if inner is not ex else None) or 'call-boundary'
    return type(inner).__name__, frame


class Raised:
    def __init__(self, ex):
        self.exc, self.frame = bucket(ex)
        self.msg = '%s: %s' % (self.exc, str(getattr(ex, 'ex', ex))[:160].replace('\n', ' '))


_CELLS = {}


def eval_cell(text, inputs):
    """-> matrix | Raised | 'no-output'"""
    try:
        ent = _CELLS.get(text)
        if ent is None:
            dsp = sut.sh.Dispatcher(raises=True)
            c = sut.Cell('A1', text).compile()
            c.add(dsp)
            ent = (dsp, c.output, list(c.inputs))
            if len(_CELLS) > 4000:
                _CELLS.clear()
            _CELLS[text] = ent
        dsp, out, needed = ent
        sol = dsp({k: sut.rng(k, inputs[k]) for k in needed if k in inputs})
        if out not in sol:
            return 'no-output'
        return sut.matrix(sol[out])
    except sut.Watchdog:
        raise
    except Exception as ex:  # the statement: never raises
        return Raised(ex)


def _callable(name):
    ent = sut.get_functions()[name]
    extra = []
    if isinstance(ent, dict):
        for k, v in (ent.get('extra_inputs') or {}).items():
            if str(k) == 'Cell':
                v = sut.Ranges().push('A1')
            extra.append(v)
        ent = ent['function']
    return ent, extra


def eval_direct(name, args):
    try:
        fn, extra = _callable(name)
        return sut.matrix(fn(*(extra + py_args(args))))
    except sut.Watchdog:
        raise
    except Exception as ex:
        return Raised(ex)


def all_errors(m):
    return all(isinstance(v, Err) for row in m for v in row)


# ---------------------------------------------------------------- the check of one call
def consumed(base, args):
    """Positions whose (scalar) value is always consumed by the function."""
    if base in EXEMPT_ALL:
        return set()
    pos = set(range(len(args)))
    if base in ONLY:
        pos &= ONLY[base]
        if base == 'IF' and 's' in args[0] and isinstance(args[0]['s'], (bool, int, float)):
            sel = 1 if args[0]['s'] else 2
            if sel < len(args):
                pos.add(sel)
    return pos


def is_agg(base, p):
    return base in AGG_ALL or (base in AGG_POS and AGG_POS[base](p))


def probe_positions(n):
    if n <= 6:
        return list(range(n))
    return sorted({0, 1, 2, n // 2, n - 2, n - 1})


def with_arg(args, p, new):
    out = list(args)
    out[p] = new
    return out


def with_elem(arg, i, j, v):
    key = 'r' if 'r' in arg else 'a'
    rows = [list(r) for r in arg[key]]
    rows[i][j] = v
    return {key: rows}


def check_call(case):
    name, args = case['f'], case['args']
    base = T.base_name(name)
    spec = T.lookup(name)
    if spec is None or not T.admissible(name, len(args)):
        raise ValueError('inadmissible case %r' % (case,))
    n = len(args)
    fam = spec['family']
    fails, seen = [], set()

    def fail(sig, detail):
        if sig not in seen:
            seen.add(sig)
            fails.append((sig, detail))

    def judge(res, where, text):
        """totality + value domain of one observation; -> matrix or None"""
        if isinstance(res, Raised):
            generic = not res.frame.startswith('formulas/functions/') or res.frame.startswith('formulas/functions/__init__.py')
            fail('raise|%s|%s|%s' % (base if generic else fam, res.exc, res.frame), '%s [%s]: %s' % (text, where, res.msg))
            return None
        if res == 'no-output':
            fail('raise|%s|no-output' % base, '%s [%s]: output node missing from the solution' % (text, where))
            return None
        for row in res:
            for v in row:
                if isinstance(v, Foreign):
                    fail('foreign|%s|%s|%s' % (base, v.what, cause), '%s [%s]: result contains %r' % (text, where, v))
        return res

    # rule tag of a non-finite result: did a Python-only spelling of inf/nan come in as text?
    cause = 'nonfinite-text' if any(nonfinite_text(a) for a in args) else 'finite-args'
    text, inputs = render(name, args)
    m_cell = judge(eval_cell(text, inputs), 'cell', text)
    m_dir = judge(eval_direct(name, args), 'direct', text)
    evals = 2
    labels = {'fam:' + fam, 'arity:%s' % (n if n <= 3 else '4-6' if n <= 6 else '7-31' if n <= 31 else '32+')}
    labels.update(arg_label(a) for a in args)
    for a in args:
        if 's' not in a:
            flat = [v for row in rows_of(a) for v in row]
            if any(isinstance(v, list) for v in flat):
                labels.add('elem:error')
            if any(v is None for v in flat) and len(flat) > 1:
                labels.add('elem:blank')
    if name != base:
        labels.add('alias')

    # ---- error propagation
    cons = consumed(base, args)
    deep = bool(case.get('deep'))
    if not cons and n:
        labels.add('propagation:exempt')
    all_s = all(T.kind_at(name, i) == 'S' for i in range(n))
    for p in probe_positions(n):
        a = args[p]
        e = ERR_CYCLE[p % 3]
        if p in cons and scalar_like(a):
            # (1) a consumed scalar argument replaced by an error value
            new = S(Err(e)) if 's' in a else with_elem(a, 0, 0, ['E', e])
            args2 = with_arg(args, p, new)
            text2, inputs2 = render(name, args2)
            obs = [('direct', lambda: eval_direct(name, args2))]
            if 'r' in a:
                obs.append(('cell', lambda: eval_cell(text, inputs2)))  # same compiled formula, other input values
            elif deep:
                obs.append(('cell', lambda: eval_cell(text2, inputs2)))
            for where, thunk in obs:
                res = thunk()
                evals += 1
                m = judge(res, where, text2)
                if m is not None and not all_errors(m):
                    fail('lost|%s|%s' % (base, 'many-args' if n >= 32 else 'arg%d' % min(p, 9)), '%s [%s] -> %r: the error in argument %d is lost' % (text2, where, m, p + 1))
            labels.add('probe:scalar')
        elif 's' not in a and not scalar_like(a) and base not in EXEMPT_ALL:
            m_, n_ = shape_of(a)
            k = (p * 7 + 3) % (m_ * n_)
            i, j = divmod(k, n_)
            args2 = with_arg(args, p, with_elem(a, i, j, ['E', e]))
            text2, inputs2 = render(name, args2)
            if is_agg(base, p):
                # (2) an error element inside an array/range given to an aggregate
                obs = [('direct', lambda: eval_direct(name, args2))]
                if 'r' in a:
                    obs.append(('cell', lambda: eval_cell(text, inputs2)))
                elif deep:
                    obs.append(('cell', lambda: eval_cell(text2, inputs2)))
                for where, thunk in obs:
                    res = thunk()
                    evals += 1
                    m = judge(res, where, text2)
                    if m is not None and not all_errors(m):
                        fail('lost|%s|elem' % base, '%s [%s] -> %r: the error element of argument %d is lost' % (text2, where, m, p + 1))
                labels.add('probe:aggregate')
            elif all_s and p in cons:
                # (3) element-wise lift: element (i,j) of the result must be an error
                res = eval_direct(name, args2)
                evals += 1
                m = judge(res, 'direct', text2)
                if m is not None:
                    if (len(m), len(m[0])) == (m_, n_):
                        ok = isinstance(m[i][j], Err)
                    elif (len(m), len(m[0])) == (1, 1):
                        ok = isinstance(m[0][0], Err)
                    else:
                        ok = True
                        labels.add('probe:lift-shape-skip')
                    if not ok:
                        fail('lost|%s|%s' % (base, 'lift-many-args' if n >= 32 else 'lift'), '%s [direct] -> %r: the error at element (%d,%d) of argument %d is lost' % (
                            text2, m, i + 1, j + 1, p + 1))
                labels.add('probe:lift')
    kinds = {arg_label(a) for a in args}
    nt = len(kinds) >= 2 or any(k in ('s:err', 'ref:blank', 's:blank') or not k.startswith('s:') for k in kinds) or 'elem:error' in labels
    return R(fails, nt=bool(nt), labels=sorted(labels), n=evals)


# ---------------------------------------------------------------- non-termination probes (killable child process)
_CHILD = r'''
import sys, resource
resource.setrlimit(resource.RLIMIT_AS, (2 << 30, 2 << 30))
sys.path.insert(0, %r)
from vf import sut
print('READY', flush=True)
try:
    print('RETURNED', repr(sut.matrix(sut.compile_formula(sys.argv[1])()))[:200], flush=True)
except BaseException as ex:
    print('RAISED', type(ex).__name__, flush=True)
'''


def check_probe(case):
    """One formula in a killable child process (address space limited to 2 GB); the clock starts when the child has
    imported the package."""
    f, tmo = case['formula'], case.get('timeout', 4)
    root = os.path.dirname(os.path.dirname(os.path.dirname(os.path.abspath(__file__))))
    env = dict(os.environ, VF_REPO=sut.REPO)
    p = subprocess.Popen([sys.executable, '-W', 'ignore', '-c', _CHILD % root, f], env=env, stdout=subprocess.PIPE,
                         stderr=subprocess.DEVNULL, text=True)
    try:
        first = p.stdout.readline().strip()
        if first != 'READY':
            p.wait()
            return R([('raise|%s|child-setup' % case['fn'], '%s: child said %r rc=%s' % (f, first, p.returncode))], nt=True, labels=['probe:hang'])
        try:
            out, _ = p.communicate(timeout=tmo)
        except subprocess.TimeoutExpired:
            return R([('hang|%s' % case['fn'], '%s did not return within %s s (child process killed)' % (f, tmo))], nt=True, labels=['probe:hang'])
    finally:
        if p.poll() is None:
            p.kill()
            p.wait()
    out = (out or '').strip()
    fails = []
    if out.startswith('RAISED'):
        fails.append(('raise|%s|%s|child' % (case['fn'], out.split()[-1]), '%s: %s' % (f, out)))
    elif not out.startswith('RETURNED'):
        fails.append(('hang|%s|died' % case['fn'], '%s: child died rc=%s' % (f, p.returncode)))
    return R(fails, nt=True, labels=['probe:hang'])


def check_case(case):
    k = case.get('k', 'call')
    if k == 'call':
        return check_call(case)
    if k == 'probe':
        return check_probe(case)
    raise ValueError(k)


# ---------------------------------------------------------------- generators
NUMS = [0.0, 1.0, -1.0, 2.0, 0.5, -2.5, 3.0, 10.0, 255.0, 1e15, 1e300, -1e300, 1e-300, 1.7976931348623157e308,
        40000.0, 2958465.0, 2958466.0, 9007199254740994.0]
NUMTEXT = ['3', ' 3 ', '-1.5', '1e3']
TEXTS = ['abc', 'a', '', ' ', 'TRUE', '#N/A', 'D', '>1', 'a*', '1010', '0.00', 'yyyy-mm-dd', '[>1]0;0.0', 'XIV']
TRAPS = ['inf', 'nan', '1_0', '1e999']
ERRS = [Err(e) for e in sut.ERRORS]
NA = Err('#N/A')


def scalar_pool():
    return [S(v) for v in NUMS + NUMTEXT + TEXTS + TRAPS + [True, False] + ERRS]


def ref1_pool():
    return [Rf([[BLANK]]), Rf([[2.0]]), Rf([['abc']]), Rf([['3']]), Rf([[True]]), Rf([[Err('#DIV/0!')]]), Rf([['']])]


def range_pool():
    return [Rf([[1.0, 2.0, 3.0]]), Rf([[1.0], [2.0], [3.0]]), Rf([[1.0, 2.0], [3.0, 4.0]]),
            Rf([[1.0, 'a', True], [BLANK, NA, '3']]), Rf([[1.0], [BLANK], ['x']]), Rf([[BLANK, BLANK], [BLANK, BLANK]]),
            Rf([[4.0, 9.0, 2.0], [3.0, 5.0, 7.0], [8.0, 1.0, 6.0]]),
            # overflow / zero-variance material for the aggregates
            Rf([[1.7976931348623157e308], [1.7976931348623157e308]]), Rf([[2.0], [2.0], [2.0]]),
            Rf([[1e300, 1e300], [1e300, 1e300]])]


def array_pool():
    return [Ar([[1.0]]), Ar([[1.0, 2.0, 3.0]]), Ar([[1.0], [2.0], [3.0]]), Ar([[1.0, 2.0], [3.0, 4.0]]), Ar([[1.0, 'a', True]]),
            Ar([[NA, 1.0]]), Ar([['a'], ['b']]), Ar([[4.0, 9.0, 2.0], [3.0, 5.0, 7.0], [8.0, 1.0, 6.0]]),
            Ar([[1e300, 1e300]])]


def small_pool():
    return [S(0.0), S(-2.5), S(1e300), S('3'), S('abc'), S(''), S('inf'), S(True), S(NA), S(Err('#DIV/0!')),
            Rf([[BLANK]]), Rf([['abc']]), Rf([[1.0], [BLANK], ['x']]), Rf([[1.0, 'a', True], [BLANK, NA, '3']]),
            Ar([[1.0, 2.0, 3.0]]), Ar([[NA, 1.0]])]


_TOK = {'$': lambda: Rf([[1.0, 2.0], [3.0, 4.0]]), '@': lambda: Rf([[1.0], [2.0], [4.0]]), '%': lambda: Rf([[1.0, 2.0, 4.0]])}


def _tok(t):
    if t in _TOK:
        return _TOK[t]()
    if t in ('TRUE', 'FALSE'):
        return S(t == 'TRUE')
    if t.startswith('"'):
        return S(t[1:-1])
    return S(float(t))


def baseline(name, n):
    spec = T.lookup(name)
    toks = spec['base']
    out = []
    for i in range(n):
        if i < len(toks):
            out.append(_tok(toks[i]))
            continue
        k = T.kind_at(name, i)
        if k == 'R' or (k == 'A' and i == 0):
            out.append(_TOK['@']())
        elif toks and spec['cycle'] and len(toks) >= len(spec['fixed']) + len(spec['cycle']):
            # continue the documented repeating group with fresh values of the same type
            c = len(spec['cycle'])
            proto = _tok(toks[len(toks) - c + (i - len(toks)) % c])
            v = proto.get('s')
            out.append(S('t%d' % i) if isinstance(v, str) else S(float(i + 1)) if isinstance(v, float) else proto)
        else:
            out.append(S(float(i + 1)))
    return out


def admissible_at(name, p, arg):
    k = T.kind_at(name, p)
    if k == 'R' and 'r' not in arg:
        return False
    return within_bounds(T.base_name(name), p, arg)


def names():
    return sorted(n for n in sut.get_functions() if n not in ('ARRAY', 'ARRAYROW'))


def is_alias(name):
    return T.base_name(name) != name


def _call(name, args):
    return {'k': 'call', 'f': name, 'args': args}


QUICK_SCALARS = [0.0, 1.0, -1.0, 0.5, -2.5, 1e300, 1e-300, 1.7976931348623157e308, 2958466.0,
                 '3', ' 3 ', '1e3', 'abc', '', ' ', 'TRUE', '#N/A', '>1', '[>1]0;0.0',
                 'inf', 'nan', '1_0', True, False] + ERRS


def sweep_cases(tier):
    """Deterministic one-position sweeps + diagonal (see RULE).  quick: the full pool on the smallest admissible count of
    every base name (reduced scalar list), a 16-value pool on the other counts at the first and last position; thorough:
    the full pool on the first three counts at every position (<= 6) and the small pool elsewhere."""
    q = tier == 'quick'
    shapes = ref1_pool() + range_pool() + array_pool()
    full = ([S(v) for v in QUICK_SCALARS] if q else scalar_pool()) + shapes
    small = small_pool()
    yield from PROBES  # the excluded non-termination inputs, each once, in a killable child process
    for name in names():
        ars = T.arities(name)
        if q and len(ars) > 7:
            ars = [n for n in ars if n not in (5, 9, 30, 34, 39)]
        for ai, n in enumerate(ars):
            base = baseline(name, n)
            yield dict(_call(name, base), deep=True)
            if is_alias(name):
                continue
            big = ai < (1 if q else 3)
            pool = full if big else small
            if big and n <= 6:
                positions = list(range(n))
            elif q:
                positions = [n - 1] if n > 3 else sorted({0, n - 1})
            else:
                positions = sorted({0, 1, n - 1} & set(range(n)))
            for p in positions:
                for d in pool:
                    if admissible_at(name, p, d):
                        yield _call(name, with_arg(base, p, d))
            if n >= 2:
                for d in (pool if n <= 6 and not q else small[::2] if q and ai else small):
                    args = [d if admissible_at(name, p, d) else base[p] for p in range(n)]
                    yield _call(name, args)


_SHAPES = [(1, 2), (1, 3), (2, 1), (3, 1), (2, 2), (2, 3), (3, 2), (3, 3), (1, 1)]


def _rand_elem(rnd, mixed, blanks):
    x = rnd.random()
    if not mixed or x < 0.55:
        return rnd.choice([0.0, 1.0, 2.0, 3.0, -1.0, 0.5, 7.0, 10.0, 100.0, -2.5, 1e300, 40000.0, float(rnd.randint(-20, 60))])
    if x < 0.70:
        return rnd.choice(['a', 'abc', '', '3', ' 3 ', 'inf', 'TRUE', '>1'])
    if x < 0.80:
        return rnd.choice([True, False])
    if x < 0.90 and blanks:
        return BLANK
    return Err(rnd.choice(sut.ERRORS))


def _rand_rows(rnd, shape, blanks):
    mixed = rnd.random() < 0.45
    return [[_rand_elem(rnd, mixed, blanks) for _ in range(shape[1])] for _ in range(shape[0])]


def _rand_arg(rnd, kind, common, scalars):
    x = rnd.random()
    if kind == 'R':
        if x < 0.25:
            return rnd.choice(ref1_pool())
        return Rf(_rand_rows(rnd, rnd.choice(_SHAPES), True))
    if kind == 'S':
        if x < 0.55:
            return rnd.choice(scalars)
        if x < 0.70:
            return rnd.choice(ref1_pool())
        m, n = common
        shape = rnd.choice([(m, n), (m, n), (1, n), (m, 1), (1, 1)])
        return Rf(_rand_rows(rnd, shape, True)) if x < 0.85 else Ar(_rand_rows(rnd, shape, False))
    if x < 0.25:
        return rnd.choice(scalars)
    if x < 0.38:
        return rnd.choice(ref1_pool())
    shape = rnd.choice(_SHAPES)
    return Rf(_rand_rows(rnd, shape, True)) if x < 0.72 else Ar(_rand_rows(rnd, shape, False))


def random_cases(tier, seed, per_fn):
    scalars = scalar_pool()
    for name in names():
        rnd = random.Random(zlib.crc32(name.encode()) * 1000003 + seed)
        ars = T.arities(name)
        if not ars or ars == [0]:
            continue
        cnt = max(4, per_fn // 6) if is_alias(name) else per_fn
        for _ in range(cnt):
            n = rnd.choice(ars[:4] * 3 + ars)
            if n == 0:
                continue
            common = rnd.choice(_SHAPES[:-1])
            if rnd.random() < 0.5:
                args = baseline(name, n)
                todo = rnd.sample(range(n), min(n, rnd.choice([1, 2, 2, 3])))
            else:
                args, todo = [None] * n, range(n)
            for p in todo:
                for _try in range(20):
                    a = _rand_arg(rnd, T.kind_at(name, p), common, scalars)
                    if admissible_at(name, p, a):
                        args[p] = a
                        break
                else:
                    args[p] = baseline(name, n)[p]
            yield _call(name, args)


PROBES = [{'k': 'probe', 'fn': 'ROUND', 'formula': '=ROUND(1,1E+300)', 'timeout': 4},
          {'k': 'probe', 'fn': 'FACT', 'formula': '=FACT(1E+9)', 'timeout': 4}]


def custom(arg, tier, seed, stats, known):
    if arg == 'notes':
        ns = names()
        unv = sorted(n for n in ns if T.lookup(n)['unverified'])
        stats.notes.append('function table: %d names (ARRAY/ARRAYROW skipped), %d base entries, %d aliases; every name x every generated '
                           'arity has at least its baseline tuple' % (len(ns), len({T.base_name(n) for n in ns}), sum(map(is_alias, ns))))
        stats.notes.append('arity-unverified: %s' % ', '.join(unv))
        miss = [n for n in ns if T.lookup(n) is None]
        if miss:
            raise AssertionError('names without an arity entry: %s' % miss)


FLOORS = {lb: ('count', {'quick': q, 'thorough': t}) for lb, q, t in [
    ('s:num', 5000, 50000), ('s:text', 2000, 20000), ('s:numtext', 500, 5000), ('s:empty-text', 200, 2000), ('s:bool', 500, 5000),
    ('s:err', 1500, 15000), ('s:pytrap', 500, 5000), ('ref:blank', 300, 3000), ('ref:1x1', 800, 8000), ('ref:row', 300, 3000),
    ('ref:col', 300, 3000), ('ref:2d', 500, 5000), ('arr:1x1', 150, 1500), ('arr:row', 400, 4000), ('arr:col', 300, 3000),
    ('arr:2d', 300, 3000), ('elem:error', 500, 5000), ('elem:blank', 400, 4000), ('arity:32+', 300, 1000), ('arity:0', 8, 8),
    ('probe:scalar', 5000, 50000), ('probe:aggregate', 500, 5000), ('probe:lift', 500, 5000), ('alias', 100, 500)]}


def parts(tier, seed):
    q = tier == 'quick'
    return [
        ('custom', 'notes', 'custom', ['notes']),
        ('enum', 'sweep', sweep_cases(tier), 150, True),
        ('enum', 'random', random_cases(tier, seed, 40 if q else 2000), 150, False),
    ]
