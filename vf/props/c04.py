"""C04 - every spelling of a reference denotes the same node; distinct ones differ."""
import itertools
from hypothesis import strategies as st

from .. import sut
from ..runner import R
from ..xlref import c04ref as X

ID = 'C04'
RULE = ('columns: all 16384 column numbers <-> letters, both directions, against an own bijective base-26 reference, through '
        'Ranges().push("R5C<n>") / push("<letters>5") / "<L>:<L>" / R[..]C[..] and through _index2col/_col2index when present. '
        'boundary: every rectangle whose columns are a pair from {1,2,26,27,702,703,16383,16384} and rows a pair from '
        '{1,2,1048575,1048576} (360), each in every applicable form (A1, A1:A1, R1C1, R1C1:R1C1, R[..]C[..] single/pair from '
        'two hosts, A:C, 2:5, C[..]:C[..], R[..]:R[..]) x $ subsets x letter case x qualifier. sheetchars: every legal ASCII '
        'character (+ some non-ASCII) at the start/middle/end of a sheet name. Hypothesis: boundary-biased random rectangles '
        'x sheet names of 7 classes x workbooks (none / file / directory+file) x 8 random spellings (form, $, case per corner, '
        'case of R/C, explicit + offsets, qualifier: context-supplied, bare, quoted, [file], dir/[file], numbered link); '
        'near-miss pairs differing in one coordinate, sheet, file, directory or kind (defined name vs column vs last-row cell); '
        'defined names in any case; two references in one formula. Oracle: relational - all spellings of one denotation give '
        'one identifier at both observation points and consume the whole text; the structured parts equal the denotation; the '
        'identifier reads back to itself and to the same rectangle (which makes identifiers injective); near-miss denotations '
        'get different identifiers; a formula containing the spelling has exactly that identifier as input. No identifier '
        'format is asserted. Non-trivial = spelling with >= 2 features (dollar, lower case, R1C1, relative, redundant corner, '
        'explicit whole row/column, qualifier, optional quotes, sheet case), or rectangle touching row/col 1 or the last one, '
        'or sheet name that needs quoting; distinct by (denotation, text, context).')
ASSUMPTIONS = [
    'a relative form R[a]C[b] is resolved against the host cell given as cr/cc in the context (what Cell supplies)',
    'sheet names compare case-insensitively; letters without a one-to-one case mapping are not generated',
    'workbook-name case, Windows paths, reversed corners, zero offsets, bare R2:R5 / C1:C3 forms, sheet-qualified defined '
    'names, 1-3 letter + digits texts beyond XFD, sheet names with leading/trailing blanks or doubled apostrophes: not asserted',
    'a numbered link [k]Sheet!A1 denotes the workbook the context maps k to (the form xlsx files contain)',
]

MAXC, MAXR = X.MAXC, X.MAXR
WATCHDOG_S = 300  # block cases hold up to ~600 spellings; the box is shared
BC = [1, 2, 26, 27, 702, 703, 16383, 16384]
BR = [1, 2, 1048575, 1048576]
_DOC_ERRORS = None


def _errs():
    """Exceptions whose raising is the documented way to refuse a text."""
    global _DOC_ERRORS
    if _DOC_ERRORS is None:
        e = sut.formulas.errors
        _DOC_ERRORS = (e.FormulaError, e.InvalidRangeName, e.InvalidRangeError)
    return _DOC_ERRORS


def _Range():
    return sut.formulas.tokens.operand.Range


def _int(v):
    try:
        return int(float(v))
    except (TypeError, ValueError):
        return None


def parts_of(g):
    n1, r1, n2, r2 = (_int(g.get(k)) for k in ('n1', 'r1', 'n2', 'r2'))
    if None in (n1, r1, n2, r2):
        return None
    return [n1 or 1, r1 or 1, n2, r2]  # whole rows/columns start at 0 internally


def observe(text, ctx):
    """Both observation points for one spelling."""
    o = {'text': text}
    shared = dict(ctx) if ctx else None  # one context object for both calls, as a caller resolving many references has
    try:
        t = _Range()(text, shared)
        o['name'], o['full'] = t.name, t.end_match == len(text)
    except _errs() as ex:
        o['terr'] = type(ex).__name__
    try:
        g = sut.Ranges().push(text, context=shared).ranges[0]
        o['pname'], o['rect'] = g.get('name'), parts_of(g)
    except _errs() as ex:
        o['perr'] = type(ex).__name__
    if 'perr' not in o:
        # the bulk form of push: the same reference, the same context, the same identifier
        try:
            g2 = sut.Ranges().pushes([text], context=dict(ctx) if ctx else None).ranges[0]
            if g2.get('name') != o['pname']:
                o['bulk'] = g2.get('name')
        except _errs() as ex:
            o['bulk'] = 'raised %s' % type(ex).__name__
    if shared is not None and shared != dict(ctx):
        o['ctx_changed'] = {k: (ctx.get(k), shared.get(k)) for k in set(ctx) | set(shared) if ctx.get(k) != shared.get(k)}
    return o


def inputs_of(formula, ctx):
    try:
        return list(sut.Parser().ast(formula, context=dict(ctx) if ctx else None)[1].compile().inputs), None
    except _errs() as ex:
        return None, type(ex).__name__


# ------------------------------------------------------------------ causes (second component of signatures)
PROBLEM_SHEETS = ('punct', 'digit-leading', 'apostrophe')


def name_class(name, rect):
    """Shape of an observed identifier relative to the rectangle (classification only)."""
    ref = X.ref_part(name)
    if ref in X.proper_forms(rect):
        return 'proper'
    if ref in X.elided_forms(rect):
        return 'max-elided'
    if (rect[0], rect[1]) == (rect[2], rect[3]):
        p = '%s%d' % (X.col(rect[0]), rect[1])
        if ref == p + ':' + p:
            return 'doubled-single'
    return 'other'


def diagnose(dens, names, refs_only=False, embed=False):
    """One cause tag per failure, decided by my own classification of the
    denotation(s) and by the *shape* of the identifiers involved:
      max-elided      an identifier is the text of the rectangle with a coordinate equal to the last column/row dropped
      doubled-single  an identifier is `X:X` for a single cell X
      book:apostrophe the workbook or directory name contains an apostrophe
      sheet:<class>   the sheet name needs quoting (punct / digit-leading / apostrophe; a name that looks like a
                      reference or a logical - celllike - only where the identifier is embedded in a formula)
      inner           none of these: nothing is listed for it
    -> (cause, detail-tag)"""
    names = [n for n in names if isinstance(n, str)]
    for den in dens:
        r = den.get('rect')
        if r and (r[2] == MAXC or r[3] == MAXR):
            cl = {X.ref_part(n): name_class(n, r) for n in names}
            # a dropped maximum, or two well-formed texts of the same boundary rectangle (A1:XFD5 written with a
            # lower-case xfd escapes the elision and then differs from 1:5)
            if 'other' in cl.values() or 'doubled-single' in cl.values():
                continue  # a shape the dropped maximum does not explain: not attributed to it
            if 'max-elided' in cl.values() or sum(1 for v in cl.values() if v == 'proper') > 1:
                return 'max-elided', '+'.join(t for t in X.touches(r) if t.startswith('last'))
    if not refs_only:
        for den in dens:
            b = den.get('book')
            if b and ("'" in b[0] or "'" in b[1]):
                return 'book:apostrophe', ''
        for den in dens:
            sc = X.sheet_class(den.get('sheet'))
            if sc in PROBLEM_SHEETS or (embed and sc == 'celllike'):
                return 'sheet:' + sc, ''
    for den in dens:
        r = den.get('rect')
        if r and any(name_class(n, r) == 'doubled-single' for n in names):
            return 'doubled-single', ''
    return 'inner', ''


def sig(sub, dens, names, got, refs_only=False):
    cause, tag = diagnose(dens, names, refs_only, embed=sub == 'embed')
    return '%s|%s|%s' % (sub, cause, tag or got)


# ------------------------------------------------------------------ rect cases
def check_rect(case):
    den = {'book': case.get('book'), 'sheet': case.get('sheet'), 'rect': list(case['rect'])}
    rect = den['rect']
    host = case.get('host')
    fails, labels, nt = [], [], []
    tch = X.touches(rect)
    sc = X.sheet_class(den['sheet'])
    labels += ['shape:' + X.shape(rect), 'sheet:' + sc,
               'book:' + ('none' if not den['book'] else ('dir' if den['book'][0] else 'file'))]
    labels += ['touch:' + t for t in tch] or ['touch:none']
    needs_q = den['sheet'] is not None and not X.bare_ok(den['sheet'])
    seen, seen_q = {}, {}  # identifier -> first text
    n_eval = 0
    first = None
    for sp0 in case['sp']:
        sp = X.normalise_spec(den, host, sp0)
        text, ctx, feats, _ = X.render(den, host, sp)
        o = observe(text, ctx)
        n_eval += 2
        labels += ['form:' + sp['f'], 'q:' + sp['q'], 'dollars:%d' % bin(sp.get('d', 0) & (
            15 if sp['f'] == 'a1a1' else 3 if sp['f'] == 'a1' else 5 if sp['f'] == 'cols' else 10 if sp['f'] == 'rows' else 0)).count('1')]
        labels += ['feat:' + f for f in feats]
        if sp['f'] in ('rel', 'relrel', 'relcols', 'relrows'):
            far = max(abs(host[0] - rect[1]), abs(host[1] - rect[0])) > 1000
            labels.append('host:far' if far else 'host:near')
        if len(feats) >= 2 or tch or needs_q:
            nt.append(['sp', den['book'], X.fold(den['sheet']), rect, text, sorted((k, str(v)) for k, v in ctx.items())])
        where = '%r in %r' % (text, ctx)
        both = [o.get('name'), o.get('pname')]
        if 'bulk' in o:
            fails.append(('observe|bulk-push-differs|%s' % sp['q'], '%s: push -> %r, pushes([..]) -> %r' % (where, o.get('pname'), o['bulk'])))
        if 'ctx_changed' in o:
            fails.append(('context|changed-by-resolution|%s' % sp['q'], 'resolving %s changed the caller\'s context: %r' % (where, o['ctx_changed'])))
        qcause = 'numbered-link-quoted' if sp['q'] == 'idxq' else None
        if 'terr' in o:
            fails.append((sig('parse', [den], both, 'raises'), 'Range(%s) raised %s' % (where, o['terr'])))
        elif not o['full']:
            fails.append((sig('parse', [den], both, 'partial'), 'Range(%s) consumed only part of the text -> %r' % (where, o['name'])))
        if 'perr' in o:
            fails.append((sig('observe', [den], both, 'push-raises'), 'Ranges().push(%s) raised %s' % (where, o['perr'])))
        elif 'name' in o and o['pname'] != o['name']:
            fails.append((sig('observe', [den], both, 'names-differ'), '%s: Range.name %r, push name %r' % (where, o['name'], o['pname'])))
        if 'perr' not in o and o['rect'] != rect:
            fails.append((sig('parts', [den], both, 'no-parts' if o['rect'] is None else 'other-rect'),
                          '%s: parts %r, denotation %r' % (where, o['rect'], rect)))
        nm = o.get('name', o.get('pname'))
        if nm is not None and host is not None and sp['f'] in ('rel', 'relrel', 'relcols', 'relrows'):
            # third observation point for relative spellings: the host is given as the cell's own address (what a
            # workbook does), not as cr/cc in the context
            cctx = {k: v for k, v in ctx.items() if k not in ('cr', 'cc')}
            hostref = '%s%d' % (X.col(host[1]), host[0])
            n_eval += 1
            try:
                got = list(sut.Cell(hostref, '=%s+1' % text, context=cctx).compile().inputs)
            except _errs() as ex:
                got = 'raised %s' % type(ex).__name__
            if got != [nm]:
                inv = [nm] if name_class(nm, rect) != 'proper' else [nm] + [g for g in (got if isinstance(got, list) else []) if isinstance(g, str)]
                fails.append((sig('cell-host', [den], inv, 'other-inputs'),
                              'Cell(%r, %r, context=%r) has inputs %r, expected [%r]' % (hostref, '=%s+1' % text, cctx, got, nm)))
            labels.append('cell-hosted')
        if nm is not None:
            if qcause:
                seen_q.setdefault(nm, text)
                continue
            seen.setdefault(nm, (text, ctx, qcause))
            if first is None:
                first = (text, ctx, nm)
    # identity
    if len(seen) > 1:
        pre = {n[:len(n) - len(X.ref_part(n))] for n in seen}
        refs = {X.ref_part(n) for n in seen}
        shown = {n: t[0] for n, t in sorted(seen.items())}
        if len(pre) > 1:  # the sheet/workbook part of the identifier differs
            cause = diagnose([{'book': den['book'], 'sheet': den['sheet']}], [])[0]
            fails.append(('identity-qualifier|%s|differs' % cause, 'one denotation %r, identifiers %r' % (den, shown)))
        if len(refs) > 1:  # the rectangle part differs
            fails.append((sig('identity', [den], sorted(refs), 'names-differ', refs_only=True),
                          'one denotation %r, identifiers %r' % (den, shown)))
    # the quoted numbered-link form is kept apart: one cause of its own
    extra = {n: t for n, t in seen_q.items() if seen and n not in seen}
    if extra:
        fails.append(('identity|numbered-link-quoted|qualifier-differs', 'one denotation %r, identifiers %r but %r' % (
            den, {n: t[0] for n, t in sorted(seen.items())}, extra)))
    # read-back of every identifier seen
    for nm in sorted(seen):
        n_eval += 1
        if nm == '':
            fails.append((sig('readback', [den], [nm], 'empty'), '%r has the empty identifier' % (seen[nm][0],)))
            continue
        o = observe(nm, None)
        # an identifier that is itself mis-shaped explains whatever its read-back does; a well-formed one does not
        inv = [nm] if name_class(nm, rect) != 'proper' else [nm, o.get('pname'), o.get('name')]
        if 'perr' in o:
            fails.append((sig('readback', [den], inv, 'raises'), 'push(%r) raised %s (identifier of %r)' % (nm, o['perr'], seen[nm][0])))
        elif o['pname'] != nm:
            fails.append((sig('readback', [den], inv, 'other-name'), 'push(%r) -> %r' % (nm, o['pname'])))
        elif o['rect'] != rect:
            fails.append((sig('readback', [den], inv, 'other-rect'), 'push(%r) -> parts %r, denotation %r' % (nm, o['rect'], rect)))
        elif 'terr' in o or not o.get('full') or o.get('name') != nm:
            fails.append((sig('readback', [den], inv, 'token-differs'), 'Range(%r) -> %r' % (nm, o.get('name', o.get('terr')))))
    # embedding in a formula
    if case.get('embed') and first is not None:
        text, ctx, nm = first
        for f, c, what in (('=%s+1' % text, ctx, 'spelling'), ('=%s+1' % nm, None, 'identifier')):
            n_eval += 1
            got, err = inputs_of(f, c)
            # names that decide the cause: a mis-shaped identifier explains whatever happens to it; a well-formed
            # one of a rectangle touching the last row/column (xfd1 -> XFD1) is re-parsed inside the formula, and
            # when that re-parse drops the maximum (XFD1 -> '1', then read as a number: no input at all) the
            # dropped maximum explains the failure too.  Never applies to rectangles away from the last row/column.
            if name_class(nm, rect) != 'proper':
                inv = [nm]
            else:
                inv = [nm] + list(got or ())
                if rect[2] == MAXC or rect[3] == MAXR:
                    re_ = observe(f[1:-2], c).get('name')
                    if isinstance(re_, str) and name_class(re_, rect) == 'max-elided':
                        inv = [nm, re_]
            if err:
                fails.append((sig('embed', [den], inv if inv != [nm] + list(got or ()) else [nm], what + '-raises'),
                              '%r in %r raised %s' % (f, c, err)))
            elif got != [nm]:
                fails.append((sig('embed', [den], inv, what + '-other-inputs'),
                              '%r in %r has inputs %r, expected [%r]' % (f, c, got, nm)))
        labels.append('embed')
    return R(_dedup(fails), nt=nt, labels=labels, n=n_eval)


def _dedup(fails, per_sig=2):
    seen, out = {}, []
    for s, d in fails:
        seen[s] = seen.get(s, 0) + 1
        if seen[s] <= per_sig:
            out.append((s, d))
    return out


# ------------------------------------------------------------------ near-miss pairs
def _spell_any(den, host, sp):
    """-> (text, ctx) for an area or a defined-name denotation."""
    if 'name' in den:
        return render_name(den, sp, host)[:2] + ('name',)
    sp = X.normalise_spec(den, host, sp)
    t, c, _, _ = X.render(den, host, sp)
    return t, c, sp['q']


def check_near(case):
    a, b, host = case['a'], case['b'], case.get('host')
    ka = (a.get('book'), X.fold(a.get('sheet')), a.get('rect'), X.fold(a.get('name')))
    kb = (b.get('book'), X.fold(b.get('sheet')), b.get('rect'), X.fold(b.get('name')))
    if ka == kb:
        raise AssertionError('near-miss generator produced equal denotations %r' % (a,))
    fails = []
    names, quals = [], []
    for den, sp in ((a, case['spa']), (b, case['spb'])):
        text, ctx, q = _spell_any(den, host, sp)
        o = observe(text, ctx)
        nm = o.get('name', o.get('pname'))
        names.append((nm, text, ctx))
        quals.append(q)
    (na, ta, ca), (nb, tb, cb) = names
    if na is not None and na == nb:
        fails.append(('collision|numbered-link-quoted|shared' if 'idxq' in quals else sig('collision', [a, b], [na], 'shared'), '%r in %r and %r in %r (denotations %r / %r) share the identifier %r' % (
            ta, ca, tb, cb, a, b, na)))
    labels = ['near:' + case.get('diff', '?')]
    for den in (a, b):
        if 'rect' in den:
            labels += ['near-touch:' + t for t in X.touches(den['rect'])]
    return R(fails, nt=True, labels=labels, n=4)


# ------------------------------------------------------------------ defined names
def render_name(den, sp, host=None):
    nm = X.with_case(den['name'], sp.get('m1', 0) | (sp.get('sm', 0) << 3))
    ctx = {}
    if host is not None and not sp.get('nohost'):
        ctx['cr'], ctx['cc'] = str(host[0]), host[1]
    b = den.get('book')
    if b:
        ctx['directory'], ctx['filename'] = (b[0] + '/') if (b[0] and sp.get('ds')) else b[0], b[1]
    if den.get('ctxsheet'):
        ctx['sheet'] = den['ctxsheet']
    return nm, ctx, []


def check_name(case):
    den = {'book': case.get('book'), 'name': case['name'], 'ctxsheet': case.get('ctxsheet')}
    if not X.legal_name(den['name']):
        raise AssertionError('illegal defined name generated: %r' % den['name'])
    rule = 'name' if not (den['book'] and ("'" in den['book'][0] or "'" in den['book'][1])) else 'book:apostrophe'
    fails, seen, labels = [], {}, ['name', 'name-book:' + ('none' if not den['book'] else 'yes')]
    n_eval = 0
    for sp in case['sp']:
        text, ctx, _ = render_name(den, sp, case.get('host'))
        n_eval += 1
        try:
            t = _Range()(text, dict(ctx))
            nm, full = t.name, t.end_match == len(text)
        except _errs() as ex:
            fails.append(('name-parse|%s|raises' % rule, 'Range(%r in %r) raised %s' % (text, ctx, type(ex).__name__)))
            continue
        if not full:
            fails.append(('name-parse|%s|partial' % rule, 'Range(%r) consumed only part -> %r' % (text, nm)))
        # the way a model registers a defined name: Ref(<identifier>, formula, context) with the context it uses for
        # everything else; afterwards the same context still resolves a plain reference as before
        shared = dict(ctx)
        try:
            if sut.formulas.cell._re_ref.match(nm) is None:
                raise _errs()[0]('identifier is not a name reference')  # (mis-shaped identifiers are other findings' business)
            before = sut.Ranges().push('B7', context=dict(ctx)).ranges[0]['name']
            sut.formulas.cell.Ref(nm, '=1', shared)
            after = sut.Ranges().push('B7', context=shared).ranges[0]['name']
            n_eval += 1
            if shared != dict(ctx) or before != after:
                fails.append(('context|changed-by-Ref|%s' % rule, 'Ref(%r, "=1", ctx) left the context %r (was %r); B7 resolves to %r (was %r)' % (
                    nm, shared, ctx, after, before)))
        except _errs():
            pass
        seen.setdefault(nm, (text, ctx))
        labels.append('name-case:' + ('upper' if text == text.upper() else 'lower' if text == text.lower() else 'mixed'))
    if len(seen) > 1:
        fails.append(('name-identity|%s|names-differ' % rule, 'one defined name %r, identifiers %r' % (den, {n: t[0] for n, t in seen.items()})))
    for nm in sorted(seen):
        n_eval += 2
        try:
            t = _Range()(nm, None)
            if t.name != nm or t.end_match != len(nm):
                fails.append(('name-readback|%s|other-name' % rule, 'Range(%r) -> %r' % (nm, t.name)))
        except _errs() as ex:
            fails.append(('name-readback|%s|raises' % rule, 'Range(%r) raised %s' % (nm, type(ex).__name__)))
        text, ctx = seen[nm]
        got, err = inputs_of('=%s+1' % text, ctx)
        if err:
            fails.append(('name-embed|%s|raises' % rule, '=%s+1 in %r raised %s' % (text, ctx, err)))
        elif got != [nm]:
            fails.append(('name-embed|%s|other-inputs' % rule, '=%s+1 in %r has inputs %r, expected [%r]' % (text, ctx, got, nm)))
    return R(_dedup(fails), nt=[['name', den['book'], den['name'].upper(), len(case['sp'])]], labels=labels, n=n_eval)


# ------------------------------------------------------------------ two references in one formula
def pair_quals(cb, cs, den):
    same_book = den.get('book') == cb
    q = []
    if same_book and X.fold(den['sheet']) == X.fold(cs):
        q.append('ctx')
    if same_book:
        q.append('quoted')
        if X.bare_ok(den['sheet']):
            q.append('bare')
    if den.get('book') is not None and cb is not None:
        if den['book'][0] == cb[0]:
            q.append('book')
        if den['book'][0]:
            q.append('dirbook')
    return q


def check_pair(case):
    cb, cs, host = case.get('cbook'), case['csheet'], case['host']
    ctx = {'cr': str(host[0]), 'cc': host[1], 'sheet': cs}
    if cb is not None:
        ctx['directory'], ctx['filename'] = cb
    texts, labels = [], ['pair']
    dens = [case['a'], case['b']]
    for den, sp0 in ((case['a'], case['spa']), (case['b'], case['spb'])):
        forms = [f for f in X.forms_for(den['rect'], host)]
        f = forms[sp0.get('f', 0) % len(forms)]
        quals = pair_quals(cb, cs, den)
        if f in ('rel', 'relrel', 'relcols', 'relrows') and 'ctx' not in quals:
            f = 'a1a1'
        if f in ('rel', 'relrel', 'relcols', 'relrows'):
            quals = ['ctx']
        if not quals:
            raise AssertionError('pair generator: no qualifier for %r in context %r/%r' % (den, cb, cs))
        sp = dict(sp0, f=f, q=quals[sp0.get('q', 0) % len(quals)])
        prefix, _ = X.render_qual(den.get('book'), den['sheet'], sp, host, False)
        texts.append(prefix + X.render_ref(den['rect'], host, sp))
        labels += ['pair-q:' + sp['q']]
    ta, tb = texts
    quoted_then_bracket = ta.startswith("'") and '[' not in ta and '[' in tb
    if quoted_then_bracket:
        labels.append('pair:quoted-then-book')
    want = []
    for t in (ta, tb):
        o = observe(t, ctx)
        if 'name' not in o:
            return R([(sig('pair-parse', dens, [], 'raises'), 'Range(%r in %r) raised %s' % (t, ctx, o['terr']))], nt=True, labels=labels, n=2)
        want.append(o['name'])
    sep = case.get('sep', '+')
    f = ('=%s+%s' % (ta, tb)) if sep == '+' else ('=SUM(%s,%s)' % (ta, tb))
    got, err = inputs_of(f, ctx)
    fails = []
    if err or sorted(got) != sorted(set(want)):
        if quoted_then_bracket:
            s = 'pair|quoted-sheet-then-quoted-book|%s' % ('raises' if err else 'other-inputs')
        else:
            s = sig('pair', dens, want, 'raises' if err else 'other-inputs')
        fails.append((s, '%r in %r %s, expected inputs %r' % (f, ctx, ('raised ' + err) if err else 'has inputs %r' % (got,), sorted(set(want)))))
    return R(fails, nt=True, labels=labels, n=3)


# ------------------------------------------------------------------ columns (exhaustive)
def check_cols(case):
    lo, hi = case['lo'], case['hi']
    op = sut.formulas.tokens.operand
    i2c, c2i = getattr(op, '_index2col', None), getattr(op, '_col2index', None)
    fails, names = [], {}
    push = lambda t, c=None: sut.Ranges().push(t, context=c).ranges[0]
    for n in range(lo, hi + 1):
        L = X.col(n)
        cell, whole = {'rect': [n, 5, n, 5]}, {'rect': [n, 1, n, MAXR]}

        def bad(sub, den, nms, got, msg):
            fails.append((sig('columns-' + sub, [den], nms, got), 'column %d/%s: %s' % (n, L, msg)))
        if i2c is not None and i2c(n) != L:
            bad('index2col', cell, [], 'value', '_index2col -> %r' % (i2c(n),))
        if c2i is not None and (c2i(L) != n or c2i(L.lower()) != n):
            bad('col2index', cell, [], 'value', '_col2index -> %r / %r' % (c2i(L), c2i(L.lower())))
        a = push(L + '5')
        if parts_of(a) != [n, 5, n, 5]:
            bad('letters', cell, [a['name']], 'parts', 'push(%r) parts %r' % (L + '5', parts_of(a)))
        lw = push(L.lower() + '$5')
        b = push('R5C%d' % n)
        if parts_of(b) != [n, 5, n, 5]:
            bad('number', cell, [b['name']], 'parts', 'push(R5C%d) parts %r' % (n, parts_of(b)))
        if str(b.get('c1', '')).upper() != L:
            bad('number', cell, [b['name']], 'letters', 'push(R5C%d) column letters %r' % (n, b.get('c1')))
        hc = n - 1 if n > 1 else 2
        c = push('R[2]C[%d]' % (n - hc), {'cr': '3', 'cc': hc})
        w = push('%s:%s' % (L, L.lower()))
        if parts_of(w) != [n, 1, n, MAXR]:
            bad('whole', whole, [w['name']], 'parts', 'push(%s:%s) parts %r' % (L, L.lower(), parts_of(w)))
        ids = {a['name'], lw['name'], b['name'], c['name']}
        if len(ids) > 1:
            bad('identity', cell, sorted(ids), 'names-differ',
                'identifiers %r for %s5, %s$5, R5C%d, R[2]C[%d]' % (sorted(ids), L, L.lower(), n, n - hc))
        for nm, den in ((a['name'], cell), (b['name'], cell), (w['name'], whole)):
            try:
                rb = push(nm)
                if rb['name'] != nm or parts_of(rb) != den['rect']:
                    bad('readback', den, [nm] if name_class(nm, den['rect']) != 'proper' else [nm, rb['name']], 'differs', 'push(%r) -> %r parts %r' % (nm, rb['name'], parts_of(rb)))
            except _errs() as ex:
                bad('readback', den, [nm], 'raises', 'push(%r) raised %s' % (nm, type(ex).__name__))
        for nm in (a['name'], w['name']):
            if nm in names and names[nm] != n:
                bad('collision', cell, [nm], 'shared', 'identifier %r also names column %d' % (nm, names[nm]))
            names[nm] = n
    k = hi - lo + 1
    return R(_dedup(fails), nt=k, labels=['cols-block'], n=k * 9)


def check_case(case):
    k = case['k']
    if k == 'rect':
        return check_rect(case)
    if k == 'near':
        return check_near(case)
    if k == 'name':
        return check_name(case)
    if k == 'pair':
        return check_pair(case)
    if k == 'cols':
        return check_cols(case)
    raise ValueError(k)


# ------------------------------------------------------------------ enumerations
def enum_cols():
    step = 128
    for lo in range(1, MAXC + 1, step):
        yield {'k': 'cols', 'lo': lo, 'hi': min(MAXC, lo + step)}  # blocks overlap by one column


def _pairs(v):
    return [(a, b) for i, a in enumerate(v) for b in v[i:]]


def enum_boundary(tier):
    q = tier == 'quick'
    dset = [0, 15, 5, 10] if q else list(range(16))
    masks = [(0, 0), (7, 7), (0, 7)] if q else [(0, 0), (7, 7), (0, 7), (5, 2)]
    settings = [(None, None)] if q else [(None, None), (None, 'My Sheet'), (['sub', 'b.xlsx'], 'Data1')]
    for (c1, c2) in _pairs(BC):
        for (r1, r2) in _pairs(BR):
            rect = [c1, r1, c2, r2]
            for hi_, host in enumerate(([3, 4], [1048000, 16000])):
                forms = X.forms_for(rect, host)
                if hi_ == 1:
                    forms = [f for f in forms if f.startswith('rel')]
                    if not forms:
                        continue
                for book, sheet in settings:
                    quals = ['ctx'] if sheet is None else ['ctx', 'quoted', 'book' if book else 'quoted']
                    sp = []
                    for f in forms:
                        rel = f.startswith('rel') or f in ('rc', 'rcrc')
                        for d in ([0] if rel else dset):
                            for m1, m2 in ([(0, 0)] if rel else masks):
                                for qq in (quals if not f.startswith('rel') else ['ctx']):
                                    sp.append({'f': f, 'd': d, 'm1': m1, 'm2': m2, 'q': qq,
                                               'rcm': 5 if (d & 1) else 0, 'plus': 15 if d & 2 else 0,
                                               'sm': 1365 if m1 else 0})
                        if rel:
                            sp.append({'f': f, 'd': 0, 'm1': 0, 'm2': 0, 'q': 'ctx', 'rcm': 10, 'plus': 15, 'sm': 0})
                    # every block starts with the plainest spelling so that all blocks are compared with it
                    head = {'f': 'a1a1', 'd': 0, 'm1': 0, 'm2': 0, 'q': 'ctx'}
                    for i in range(0, len(sp), 150):
                        yield {'k': 'rect', 'book': book, 'sheet': sheet, 'rect': rect, 'host': host,
                               'sp': [head] + sp[i:i + 150], 'embed': hi_ == 0 and i == 0}


SHEET_CHARS = [chr(i) for i in range(32, 127) if chr(i) not in X.ILLEGAL_SHEET] + list('éÖжΩñ日１') + [' ', '—']


def enum_sheetchars(tier):
    for ch in SHEET_CHARS:
        for pos, nm in (('start', ch + 'x1'), ('mid', 'x' + ch + 'y'), ('end', 'x1' + ch)):
            if not X.legal_sheet(nm) or nm != nm.strip():
                continue
            for book in (None, ['', 'b.xlsx']):
                sp = [{'f': 'a1a1', 'q': 'ctx', 'sm': 0}, {'f': 'a1a1', 'q': 'quoted', 'sm': 0},
                      {'f': 'a1a1', 'q': 'quoted', 'sm': 7, 'd': 5, 'm1': 1}, {'f': 'rcrc', 'q': 'quoted', 'sm': 2},
                      {'f': 'a1a1', 'q': 'bare', 'sm': 5}, {'f': 'a1a1', 'q': 'book', 'sm': 1}]
                for rect in ([2, 2, 2, 2], [2, 3, 4, 7]):
                    yield {'k': 'rect', 'book': book, 'sheet': nm, 'rect': rect, 'host': [9, 9], 'sp': sp, 'embed': True}


# ------------------------------------------------------------------ Hypothesis strategies
SHEETS = {
    'plain': ['Sheet1', 'S', 'data_2', 'a.b', '_x', 'Sh1', 'Sheet2', 'TOTALS', 'x9_'],
    'nonascii': ['Öl', 'Данные', 'données', 'Σx', 'ñu'],
    'space': ['My Sheet', 'a b c', 'x - y', 'a (1)', 'Q1 2024', 'a b.c'],
    'punct': ['Sh-1', 'a+b', 'a&b', 'x,y', '(1)', 'a!b', '50%', 'a"b', '#1', 'a=b', 'a;b', '{x}', 'a@b', '<x>', '~', 'a^b'],
    'digit-leading': ['1abc', '2020', '3_x', '1.5'],
    'apostrophe': ["It's", "a'b c", "o'x-1"],
    'celllike': ['A1', 'XFD1048576', 'R1C1', 'RC', 'r', 'C', 'TRUE', 'AB12'],
}
BOOKS = [None, None, ['', 'b.xlsx'], ['', 'Book 1.xlsx'], ['sub', 'b.xlsx'], ['sub/dir', 'my-book.xlsx'],
         ['..', 'up.xlsx'], ['', 'données.xlsx'], ['a b', 'c d.xlsx'],
         # file names that start with a digit (must not be taken for numbered links [k]) - added after seed c04-b-r2
         ['', '2024_report.xlsx'], ['sub', '1st quarter.xlsx'], ['', '3d.xlsx']]
_ALPHA = [c for c in SHEET_CHARS if c != "'"]


def s_sheet():
    fixed = st.one_of(*[st.sampled_from(v) for v in SHEETS.values()])
    rnd = st.text(st.sampled_from(_ALPHA + ["'"]), min_size=1, max_size=31).filter(
        lambda s: X.legal_sheet(s) and s == s.strip())
    return st.one_of(fixed, fixed, rnd)


def s_book(apos=True):
    b = st.sampled_from(BOOKS)
    if apos:
        b = st.one_of(b, b, b, b, b, b, b, b, b, st.sampled_from([['', "it's.xlsx"], ["o'dir", 'b.xlsx']]))
    return b


def s_col():
    return st.one_of(st.sampled_from(BC), st.integers(1, MAXC), st.integers(1, 60))


def s_row():
    return st.one_of(st.sampled_from(BR), st.integers(1, MAXR), st.integers(1, 200))


@st.composite
def s_rect(draw):
    kind = draw(st.sampled_from(['single', 'single', 'rect', 'rect', 'rect', 'fh', 'fw', 'ws']))
    c1, c2 = sorted((draw(s_col()), draw(s_col())))
    r1, r2 = sorted((draw(s_row()), draw(s_row())))
    if kind == 'single':
        c2, r2 = c1, r1
    elif kind == 'fh':
        r1, r2 = 1, MAXR
    elif kind == 'fw':
        c1, c2 = 1, MAXC
    elif kind == 'ws' and draw(st.integers(0, 3)) == 0:
        c1, r1, c2, r2 = 1, 1, MAXC, MAXR
    return [c1, r1, c2, r2]


@st.composite
def s_host(draw, rect):
    mode = draw(st.integers(0, 3))
    if mode == 0:
        return [draw(s_row()), draw(s_col())]
    if mode == 1:
        return [draw(st.integers(1, MAXR)), draw(st.integers(1, MAXC))]
    dr, dc = draw(st.integers(-6, 6)), draw(st.integers(-6, 6))
    base_r = rect[1] if draw(st.booleans()) else rect[3]
    base_c = rect[0] if draw(st.booleans()) else rect[2]
    return [min(MAXR, max(1, base_r + dr)), min(MAXC, max(1, base_c + dc))]


def s_spec():
    return st.fixed_dictionaries({
        'f': st.integers(0, 9), 'd': st.integers(0, 15), 'm1': st.integers(0, 7), 'm2': st.integers(0, 7),
        'rcm': st.integers(0, 15), 'plus': st.sampled_from([0, 0, 15, 5, 10, 3]), 'q': st.integers(0, 6),
        'sm': st.integers(0, 4095), 'ds': st.integers(0, 1), 'nohost': st.integers(0, 1)})


@st.composite
def _rect_case(draw, tier):
    rect = draw(s_rect())
    host = draw(s_host(rect))
    book = draw(s_book())
    sheet = draw(s_sheet()) if (book is not None or draw(st.integers(0, 3)) > 0) else None
    sp = draw(st.lists(s_spec(), min_size=6, max_size=8))
    return {'k': 'rect', 'book': book, 'sheet': sheet, 'rect': rect, 'host': host, 'sp': sp,
            'embed': draw(st.integers(0, 2)) == 0}


def _mut_coord(draw, rect):
    """A rectangle that differs from `rect` in exactly one coordinate (kept well-formed)."""
    c1, r1, c2, r2 = rect
    for _ in range(8):
        i = draw(st.integers(0, 3))
        lim = MAXC if i in (0, 2) else MAXR
        v = draw(st.one_of(st.sampled_from([1, 2, lim - 1, lim]), st.integers(1, lim),
                           st.sampled_from([rect[i] - 1, rect[i] + 1, rect[i] - 26, rect[i] + 26, rect[i] * 10, rect[i] // 10])))
        if not 1 <= v <= lim or v == rect[i]:
            continue
        new = list(rect)
        new[i] = v
        if new[0] <= new[2] and new[1] <= new[3]:
            return new
    return None


@st.composite
def _near_case(draw, tier):
    kind = draw(st.sampled_from(['coord', 'coord', 'coord', 'sheet', 'file', 'dir', 'kind', 'kind', 'nobook']))
    host = [draw(st.integers(2, MAXR - 1)), draw(st.integers(2, MAXC - 1))]
    spa, spb = draw(s_spec()), draw(s_spec())
    if kind == 'kind':
        # defined name of 1-3 letters vs whole column vs cell in the last row; row number vs cell in the last column
        n = draw(s_col())
        m = draw(st.sampled_from([n, n, draw(s_col())]))
        r = draw(s_row())
        cands = [{'name': X.col(n)}, {'rect': [n, 1, n, MAXR]}, {'rect': [n, MAXR, n, MAXR]}, {'rect': [m, MAXR, m, MAXR]},
                 {'rect': [1, r, MAXC, r]}, {'rect': [MAXC, r, MAXC, r]}, {'rect': [n, 1, m, MAXR] if n <= m else [m, 1, n, MAXR]},
                 {'rect': [min(n, m), MAXR, max(n, m), MAXR]}, {'rect': [n, 1, n, 1]}, {'rect': [MAXC, 1, MAXC, MAXR]},
                 {'rect': [1, MAXR, MAXC, MAXR]}, {'rect': [MAXC, MAXR, MAXC, MAXR]}, {'rect': [1, 1, MAXC, MAXR]}]
        cands = [c for c in cands if 'rect' in c or X.legal_name(c['name'])]
        i = draw(st.integers(0, len(cands) - 1))
        j = draw(st.integers(0, len(cands) - 2))
        a, b = cands[i], [c for k_, c in enumerate(cands) if k_ != i][j]
        if a == b:
            b = {'rect': [n, 2, n, 2]} if a != {'rect': [n, 2, n, 2]} else {'rect': [n, 3, n, 3]}
        a, b = dict(a, book=None, sheet=None), dict(b, book=None, sheet=None)
        return {'k': 'near', 'a': a, 'b': b, 'host': host, 'spa': spa, 'spb': spb, 'diff': 'kind'}
    rect = draw(s_rect())
    book = draw(s_book(apos=False))
    sheet = draw(s_sheet())
    a = {'book': book, 'sheet': sheet, 'rect': rect}
    b = dict(a)
    if kind == 'coord':
        new = _mut_coord(draw, rect)
        if new is None:
            new = [1, 1, 1, 1] if rect != [1, 1, 1, 1] else [2, 2, 2, 2]
        b['rect'] = new
    elif kind == 'sheet':
        other = draw(s_sheet())
        if X.fold(other) == X.fold(sheet):
            other = sheet + '2' if len(sheet) < 31 else sheet[:-1] + ('2' if sheet[-1] != '2' else '3')
        if draw(st.booleans()) and len(sheet) < 31:
            other = draw(st.sampled_from([sheet + '_', sheet + '1', 'x' + sheet, sheet + ' b', sheet[:-1] or 'q']))
            if X.fold(other) == X.fold(sheet) or not X.legal_sheet(other) or other != other.strip():
                other = sheet + '0' if len(sheet) < 31 else 'q'
        b['sheet'] = other
    elif kind == 'file':
        if book is None:
            a['book'] = book = ['', 'b.xlsx']
        b['book'] = [book[0], draw(st.sampled_from(['c.xlsx', 'b2.xlsx', 'b.xlsm', 'b b.xlsx', 'xb.xlsx', '2b.xlsx']))]
    elif kind == 'dir':
        if book is None:
            a['book'] = book = ['', 'b.xlsx']
        d = draw(st.sampled_from(['sub', 'sub2', 'sub/dir', '..', 'a b', '']))
        if d == book[0]:
            d = book[0] + 'x'
        b['book'] = [d, book[1]]
    elif kind == 'nobook':
        if book is None:
            b['book'] = ['', 'b.xlsx']
        else:
            b['book'] = None
    return {'k': 'near', 'a': a, 'b': b, 'host': host, 'spa': spa, 'spb': spb, 'diff': kind}


_NAME_START = 'abcxyzRCTQ_éжΩ'
_NAME_REST = 'abcxyzRC019_.éжΩ'


def s_name():
    fixed = st.sampled_from(['MyName', 'rate', 'TAX_2024', 'a.b', '_x', 'Total', 'xfdd', 'A1B', 'ABCD1', 'R1C1x', 'data',
                             'Données', 'итог', 'A', 'AB', 'XFD', 'QQQ', 'x1048576x', 'TRUEx', 'rc2x'])
    rnd = st.builds(lambda a, b: a + b, st.sampled_from(_NAME_START), st.text(st.sampled_from(_NAME_REST), max_size=12))
    return st.one_of(fixed, rnd).filter(X.legal_name)


@st.composite
def _name_case(draw, tier):
    book = draw(st.one_of(st.none(), s_book()))
    nm = draw(s_name())
    sp = draw(st.lists(st.fixed_dictionaries({'m1': st.integers(0, 7), 'sm': st.integers(0, 4095), 'ds': st.integers(0, 1),
                                               'nohost': st.integers(0, 1)}), min_size=3, max_size=5))
    sp[0] = dict(sp[0], m1=0, sm=0)
    sp[1] = dict(sp[1], m1=7, sm=4095)
    return {'k': 'name', 'book': book, 'name': nm, 'sp': sp, 'host': [draw(s_row()), draw(s_col())],
            'ctxsheet': draw(st.sampled_from([None, 'SHEET1', 'My Sheet'])) if book is None else draw(st.sampled_from(['SHEET1', 'My Sheet']))}


@st.composite
def _namepair_case(draw, tier):
    """Two different defined names (near-miss: one character changed, added or removed)."""
    a = draw(s_name())
    how = draw(st.integers(0, 3))
    if how == 0:
        b = a + draw(st.sampled_from(['_', '1', 'x', '.a']))
    elif how == 1:
        b = draw(st.sampled_from(['_', 'x'])) + a
    elif how == 2 and len(a) > 1:
        b = a[:-1]
    else:
        b = draw(s_name())
    if not X.legal_name(b) or b.upper() == a.upper():
        b = a + '_q'
    book = draw(s_book(apos=False))
    sp = st.fixed_dictionaries({'m1': st.integers(0, 7), 'sm': st.integers(0, 4095)})
    return {'k': 'near', 'a': {'book': book, 'name': a}, 'b': {'book': book, 'name': b}, 'host': [5, 5],
            'spa': draw(sp), 'spb': draw(sp), 'diff': 'name'}


@st.composite
def _pair_case(draw, tier):
    cb = draw(st.sampled_from([None, ['', 'b.xlsx'], ['', 'b.xlsx'], ['sub', 'b.xlsx']]))
    cs = draw(st.sampled_from(['SHEET1', 'My Sheet', 'Data']))
    host = [draw(st.integers(2, 5000)), draw(st.integers(2, 500))]
    dens = []
    for _ in range(2):
        where = draw(st.sampled_from(['here', 'here', 'sheet', 'sheet', 'book', 'book', 'dirbook']))
        rect = draw(s_rect())
        if where == 'here':
            den = {'book': cb, 'sheet': cs, 'rect': rect}
        elif where == 'sheet' or cb is None:
            den = {'book': cb, 'sheet': draw(s_sheet()), 'rect': rect}
        elif where == 'book':
            den = {'book': [cb[0], draw(st.sampled_from(['c.xlsx', 'Book 2.xlsx']))], 'sheet': draw(s_sheet()), 'rect': rect}
        else:
            den = {'book': [draw(st.sampled_from(['other', 'x/y', 'a b'])), 'c.xlsx'], 'sheet': draw(s_sheet()), 'rect': rect}
        dens.append(den)
    return {'k': 'pair', 'cbook': cb, 'csheet': cs, 'host': host, 'a': dens[0], 'b': dens[1],
            'spa': draw(s_spec()), 'spb': draw(s_spec()), 'sep': draw(st.sampled_from(['+', ',']))}


STRATEGIES = {'spellings': _rect_case, 'near': _near_case, 'names': _name_case, 'namepairs': _namepair_case, 'pairs': _pair_case}

FLOORS = {
    'cols-block': ('count', {'quick': 128, 'thorough': 128}),
    'form:rel': ('count', {'quick': 150, 'thorough': 1500}),
    'form:relrel': ('count', {'quick': 300, 'thorough': 3000}),
    'form:cols': ('count', {'quick': 300, 'thorough': 3000}),
    'form:rows': ('count', {'quick': 300, 'thorough': 3000}),
    'form:rc': ('count', {'quick': 300, 'thorough': 3000}),
    'q:quoted': ('count', {'quick': 300, 'thorough': 3000}),
    'q:book': ('count', {'quick': 200, 'thorough': 2000}),
    'q:dirbook': ('count', {'quick': 50, 'thorough': 500}),
    'q:idx': ('count', {'quick': 50, 'thorough': 500}),
    'touch:last-row': ('count', {'quick': 100, 'thorough': 1000}),
    'touch:row1': ('count', {'quick': 100, 'thorough': 1000}),
    'touch:none': ('count', {'quick': 300, 'thorough': 3000}),
    'sheet:punct': ('count', {'quick': 50, 'thorough': 500}),
    'sheet:apostrophe': ('count', {'quick': 20, 'thorough': 200}),
    'near:coord': ('count', {'quick': 100, 'thorough': 1000}),
    'near:kind': ('count', {'quick': 50, 'thorough': 500}),
    'name': ('count', {'quick': 100, 'thorough': 1000}),
    'name-book:none': ('count', {'quick': 50, 'thorough': 500}),
    'pair': ('count', {'quick': 100, 'thorough': 1000}),
}


def parts(tier, seed):
    q = tier == 'quick'
    return [
        ('enum', 'columns', enum_cols(), 1, True),
        ('enum', 'boundary', enum_boundary(tier), 2, True),
        ('enum', 'sheetchars', enum_sheetchars(tier), 8, True),
        ('hyp', 'spellings', 2600 if q else 80000),
        ('hyp', 'near', 1200 if q else 30000),
        ('hyp', 'names', 500 if q else 10000),
        ('hyp', 'namepairs', 300 if q else 6000),
        ('hyp', 'pairs', 600 if q else 15000),
    ]
