"""C19 - lookup and criteria functions agree with their search definitions."""
import itertools
from hypothesis import strategies as st

from .. import sut
from ..sut import Err, BLANK, Blank, Foreign
from ..runner import R
from ..xlref import core as X
from ..xlref import c19_look as L

ID = 'C19'
RULE = ('Enumerations: MATCH in modes 1/omitted/-1 over strictly ascending/descending number, lowercase-text and logical '
        'vectors of length 1-6 (rows and columns) with the key before the first / at / between / beyond the last key / of '
        'another type (and in another letter case); MATCH mode 0 over every vector of length <=2 (thorough <=3) of a mixed '
        'pool (numbers, text in both cases, numeric text, logicals, blank, error, empty text) x every key of the pool; '
        'wildcard keys (? * ~? ~*) x text vectors; INDEX on all shapes 1..6 x 1..6 with row/column indexes below, in, at and '
        'beyond the bounds (and the 1-D form); LOOKUP vector form (result vector in the same / the other orientation / '
        'omitted) and array form; VLOOKUP/HLOOKUP on tables up to 6x6 x six spellings of the mode x indexes <1, in, at, '
        'beyond, each also compared with INDEX(.., MATCH(..)) evaluated by the repo itself; COUNTIF/SUMIF/AVERAGEIF: ~70 '
        'criteria (plain values, numeric text, six operators x number/text/logical operands, wildcards, empty string) x '
        'every single-element range of a mixed pool and fixed homogeneous / mixed ranges (1-D and 2-D), criteria typed as '
        'literals and through a cell. Hypothesis adds random vectors, tables, keys, ranges and criteria. Every case is '
        'evaluated through Cell(..).compile() with tables as range inputs and, where the values allow, as array literals. '
        'Oracle: vf/xlref/c19_look (own linear scans, own wildcard matcher, xlref.core.compare order). Non-trivial = the '
        'key is not the first element (between / outside / duplicate / other type / wildcard), an index at or beyond a '
        'bound, a criterion with an operator or wildcard or a range of mixed kinds; distinct by (function, arguments, spelling).')
RULE += (' CRITERIA-ARRAY: ordered pairs (and a,b,a triples) of 16 criteria of different kinds x 3 ranges holding numeric text x COUNTIF/SUMIF/AVERAGEIF: equal element by element to the single-criterion results.')
ASSUMPTIONS = [
    'approximate modes are asserted only on strictly sorted vectors of one kind (plain lowercase/alphanumeric text); '
    'a key of another kind gives #N/A',
    'blank or error lookup values, lone tildes (~~, ~x), wildcard keys against empty text, INDEX with 0 on a dimension > 1 '
    'are outside the asserted domain (weak form only: an Excel value, no exception)',
    'criteria: <> is asserted only against elements of the operand\'s own kind (Excel also counts other kinds, the '
    'property says "within their own type"); numeric-looking text in ranges, text ordering against empty/blank cells, '
    'bare operators, blank/error criteria are not asserted',
    'VLOOKUP/HLOOKUP with an index beyond the table and an absent key: #REF! or #N/A accepted',
]
WATCHDOG_S = 60

NA, DIV0 = X.NA, X.DIV0


# ------------------------------------------------------------------ value coding
def enc(v):
    if isinstance(v, Err):
        return ['E', v.t]
    if isinstance(v, Blank):
        return None
    return v


def dec(v):
    if v is None:
        return BLANK
    if isinstance(v, list):
        return Err(v[1])
    if isinstance(v, int) and not isinstance(v, bool):
        return float(v)
    return v


def encm(rows):
    return [[enc(v) for v in row] for row in rows]


def decm(rows):
    return [[dec(v) for v in row] for row in rows]


COLS = 'ABCDEFGHIJKLMNOPQRSTUVWXYZ'


def rname(col, row, nr, nc):
    """A1 name of the nr x nc rectangle whose top-left cell is (col, row), 1-based."""
    a = '%s%d' % (COLS[col - 1], row)
    b = '%s%d' % (COLS[col + nc - 2], row + nr - 1)
    return a if a == b else a + ':' + b


def lit(v):
    return X.literal(v, paren_negative=False)


def arr_lit(rows):
    return '{%s}' % ';'.join(','.join(lit(v) for v in row) for row in rows)


def has_blank(rows):
    return any(isinstance(v, Blank) for row in rows for v in row)


def as_rows(vec, o):
    return [list(vec)] if o == 'r' else [[v] for v in vec]


class Sheet:
    """Collects the operands of one formula: each operand is either written as
    a literal or placed on the sheet (range input) depending on the spelling."""

    def __init__(self, sp):
        self.sp = sp
        self.inputs = {}
        self.next_col = 2   # tables start in column B, row 1
        self.next_scalar_row = 20

    def table(self, rows, force_rng=False):
        if self.sp == 'lit' and not force_rng:
            return arr_lit(rows)
        nr, nc = len(rows), len(rows[0])
        nm = rname(self.next_col, 1, nr, nc)
        self.inputs[nm] = rows
        self.last = (self.next_col, 1, nr, nc)
        self.next_col += nc + 1
        return nm

    def sub(self, col, row, nr, nc, rows):
        """A sub-rectangle of a table already placed (consistent data)."""
        nm = rname(col, row, nr, nc)
        self.inputs[nm] = rows
        return nm

    def scalar(self, v, cell):
        if not cell:
            return lit(v)
        nm = 'A%d' % self.next_scalar_row
        self.next_scalar_row += 1
        self.inputs[nm] = [[v]]
        return nm


def run(formula, inputs):
    v, c = sut.cell_eval('Z99', formula, inputs)
    if isinstance(v, str) and v == 'MISSING':
        return Foreign('no-output')
    return sut.one(v)


def weak(fn, got, text):
    """Weak form outside the asserted domain: a single Excel value."""
    if isinstance(got, Foreign):
        return [('%s|weak|%s' % (fn, X.cls(got)), '%s -> %r (not an Excel value)' % (text, got))]
    return []


def judge(fn, tag, got, exp, text):
    if exp is None:
        return weak(fn, got, text)
    if X.same(got, exp, rel=1e-9):
        return []
    return [('%s|%s|%s' % (fn, tag, X.cls(got)), '%s -> %r, expected %r' % (text, got, exp))]


def show(formula, inputs):
    if not inputs:
        return formula
    return '%s with %s' % (formula, ', '.join('%s=%r' % (k, v) for k, v in inputs.items()))


def _keylabels(key, vec, tag):
    out = []
    if typeclass(vec) == 'mixed':
        out.append('keys:mixed')
    if 'wild' in tag or 'escape' in tag:
        out.append('key:wildcard')
    return out


def _blank_as_text(vec):
    return ['EMPTY' if isinstance(v, Blank) else v for v in vec]


def typeclass(vec):
    ks = sorted({L.kind(v) for v in vec})
    return ks[0] if len(ks) == 1 else 'mixed'


# ------------------------------------------------------------------ MATCH
def mode_text(mode):
    return '' if mode is None else ',%s' % mode


def mode_dir(mode):
    """Spelling of the third argument -> 1 | 0 | -1"""
    # (2 and -2: only the sign of the third argument matters - what the unchanged tree and the usual reading of Excel do)
    return {None: 1, '1': 1, '0': 0, '-1': -1, 'TRUE': 1, 'FALSE': 0, '': 0, '2': 1, '-2': -1}[mode]


def check_match(case):
    key, vec, o, mode = dec(case['key']), [dec(v) for v in case['vec']], case['o'], case['mode']
    sh = Sheet(case['sp'])
    f = '=MATCH(%s,%s%s)' % (sh.scalar(key, case.get('kcell')), sh.table(as_rows(vec, o)), mode_text(mode))
    d = mode_dir(mode)
    if d == 0:
        exp, tag, pos = L.match_exact(key, vec)
    else:
        exp, tag, pos = L.match_approx(key, vec, d)
    got = run(f, sh.inputs)
    fails = judge('MATCH', tag, got, exp, show(f, sh.inputs))
    if fails and exp is not None and d == 0 and has_blank([vec]):
        # name the rule: is a blank cell taken for the text "EMPTY"?
        alt = L.match_exact(key, _blank_as_text(vec))[0]
        if alt is not None and X.same(got, alt):
            fails = judge('MATCH', 'exact:blank-cell-as-text', got, exp, show(f, sh.inputs))
    if exp is None and isinstance(got, float) and not (got == int(got) and 1 <= got <= len(vec)):
        fails.append(('MATCH|weak|position-range', '%s -> %r' % (show(f, sh.inputs), got)))
    nt = pos not in ('first', 'n/a') or typeclass(vec) == 'mixed'
    labels = ['MATCH', 'mode:%s' % {1: 'asc', 0: 'exact', -1: 'desc'}[d], 'pos:' + pos, 'sp:' + case['sp']] + _keylabels(key, vec, tag)
    if exp is None:
        labels.append('weak-only')
    return R(fails, nt=nt, labels=labels)


# ------------------------------------------------------------------ INDEX
def check_index(case):
    tbl = decm(case['tbl'])
    sh = Sheet(case['sp'])
    r, c = case['r'], case['c']
    if c is None:
        vec = tbl[0] if len(tbl) == 1 else [row[0] for row in tbl]
        f = '=INDEX(%s,%s)' % (sh.table(tbl), lit(float(r)))
        exp, tag = L.index1(vec, float(r))
        edge = int(r) in (len(vec), len(vec) + 1) or r < 1
    else:
        f = '=INDEX(%s,%s,%s)' % (sh.table(tbl), lit(float(r)), lit(float(c)))
        exp, tag = L.index2(tbl, float(r), float(c))
        edge = int(r) in (len(tbl), len(tbl) + 1) or int(c) in (len(tbl[0]), len(tbl[0]) + 1) or r < 1 or c < 1
    got = run(f, sh.inputs)
    fails = judge('INDEX', tag, got, exp, show(f, sh.inputs))
    labels = ['INDEX', tag.replace('index1:', 'index:').replace('-row', '').replace('-col', ''), 'sp:' + case['sp']]
    if exp is None:
        labels.append('weak-only')
    return R(fails, nt=bool(edge), labels=labels)


# ------------------------------------------------------------------ LOOKUP
def check_lookup(case):
    key = dec(case['key'])
    sh = Sheet(case['sp'])
    ks = sh.scalar(key, case.get('kcell'))
    fails = []
    if case.get('tbl') is not None:           # array form
        tbl = decm(case['tbl'])
        f = '=LOOKUP(%s,%s)' % (ks, sh.table(tbl))
        exp, tag, pos = L.lookup_array(key, tbl)
        form = 'array-2d' if len(tbl) > 1 and len(tbl[0]) > 1 else 'array-1d'
        tag = form + ':' + tag
        got = run(f, sh.inputs)
        fails += judge('LOOKUP', tag, got, exp, show(f, sh.inputs))
        tc = 'n/a'
    else:
        kv, rv = [dec(v) for v in case['kv']], case.get('rv')
        kt = sh.table(as_rows(kv, case['ko']))
        tc = typeclass(kv)
        if rv is None:
            f = '=LOOKUP(%s,%s)' % (ks, kt)
            exp, tag, pos = L.lookup_vec(key, kv, kv)
            form = 'vector-noresult'
            got = run(f, sh.inputs)
            fails += judge('LOOKUP', form + ':' + tag, got, exp, show(f, sh.inputs))
        else:
            rv = [dec(v) for v in rv]
            rt = sh.table(as_rows(rv, case['ro']))
            f = '=LOOKUP(%s,%s,%s)' % (ks, kt, rt)
            exp, tag, pos = L.lookup_vec(key, kv, rv)
            form = 'vector' if case['ko'] == case['ro'] else 'vector-crossed'
            got = run(f, sh.inputs)
            fails += judge('LOOKUP', form + ':' + tag, got, exp, show(f, sh.inputs))
            # metamorphic: the repo's own INDEX(result, MATCH(key, keys, 1))
            if exp is not None:
                g = '=INDEX(%s,MATCH(%s,%s,1))' % (rt, ks, kt)
                got2 = run(g, sh.inputs)
                if not X.same(got, got2, rel=1e-12):
                    fails.append(('LOOKUP~INDEX(MATCH)|%s|%s' % (tag, X.cls(got)),
                                  '%s -> %r but %s -> %r' % (show(f, sh.inputs), got, g, got2)))
        tag = form + ':' + tag
    labels = ['LOOKUP', 'LOOKUP:form=' + form, 'mode:asc', 'pos:' + pos, 'sp:' + case['sp']]
    if exp is None:
        labels.append('weak-only')
    return R(fails, nt=pos not in ('first', 'n/a', 'at-key'), labels=labels)


# ------------------------------------------------------------------ VLOOKUP / HLOOKUP
def check_table(case):
    fn = case['fn']
    key, tbl, idx, mode = dec(case['key']), decm(case['tbl']), float(case['idx']), case['mode']
    sh = Sheet(case['sp'])
    ks = sh.scalar(key, case.get('kcell'))
    tt = sh.table(tbl)
    f = '=%s(%s,%s,%s%s)' % (fn, ks, tt, lit(idx), mode_text(mode))
    exact = mode_dir(mode) == 0
    nr, nc = len(tbl), len(tbl[0])
    if fn == 'VLOOKUP':
        exp, tag, pos = L.vlookup(key, tbl, idx, exact)
        keys, nres = [row[0] for row in tbl], nc
    else:
        exp, tag, pos = L.hlookup(key, tbl, idx, exact)
        keys, nres = list(tbl[0]), nr
    got = run(f, sh.inputs)
    text = show(f, sh.inputs)
    fails = judge(fn, tag, got, exp, text)
    if fails and exp is not None and exact and has_blank([keys]) and 1 <= int(idx) <= nres:
        if fn == 'VLOOKUP':
            alt = L.xlookup_table(key, _blank_as_text(keys), lambda i: [row[i - 1] for row in tbl], nc, idx, True)[0]
        else:
            alt = L.xlookup_table(key, _blank_as_text(keys), lambda i: list(tbl[i - 1]), nr, idx, True)[0]
        if alt is not None and X.same(got, alt):
            fails = judge(fn, 'exact:blank-cell-as-text', got, exp, text)
    # metamorphic: INDEX(table, MATCH(key, first column, mode), idx) by the repo itself
    if exp is not None and 1 <= int(idx) <= nres:
        if sh.sp == 'lit':
            kt = arr_lit(as_rows(keys, 'c' if fn == 'VLOOKUP' else 'r'))
        elif fn == 'VLOOKUP':
            kt = sh.sub(sh.last[0], 1, nr, 1, [[k] for k in keys])
        else:
            kt = sh.sub(sh.last[0], 1, 1, nc, [keys])
        m = 'MATCH(%s,%s,%d)' % (ks, kt, 0 if exact else 1)
        g = ('=INDEX(%s,%s,%s)' % (tt, m, lit(idx))) if fn == 'VLOOKUP' else ('=INDEX(%s,%s,%s)' % (tt, lit(idx), m))
        got2 = run(g, sh.inputs)
        if not X.same(got, got2, rel=1e-12):
            fails.append(('%s~INDEX(MATCH)|%s|%s' % (fn, tag, X.cls(got)), '%s -> %r but %s -> %r' % (text, got, g, got2)))
    ic = 'idx<1' if int(idx) < 1 else 'idx-beyond' if int(idx) > nres else 'idx-last' if int(idx) == nres else 'idx-in'
    labels = [fn, 'mode:%s' % ('exact' if exact else 'asc'), 'pos:' + pos, 'table:' + ic, 'sp:' + case['sp']] + _keylabels(key, keys, tag)
    if exp is None:
        labels.append('weak-only')
    nt = pos not in ('first', 'n/a') or ic != 'idx-in' or typeclass(keys) == 'mixed'
    return R(fails, nt=nt, labels=labels)


# ------------------------------------------------------------------ criteria
def _hash_alias(vals):
    """Elements of different kinds that compare equal in Python (1/TRUE, 0/FALSE)."""
    nums = {v for v in vals if L.kind(v) == 'num'}
    return any(L.kind(v) == 'bool' and float(v) in nums for v in vals)


def check_crit(case):
    fn, crit = case['fn'], dec(case['crit'])
    rng = decm(case['rng'])
    acc = decm(case['acc']) if case.get('acc') is not None else None
    sh = Sheet(case['sp'])
    flat = [v for row in rng for v in row]
    flat_acc = [v for row in acc for v in row] if acc is not None else None
    exp, tags, ms = L.criteria(fn, flat, crit, flat_acc)
    rt = sh.table(rng)
    cs = sh.scalar(crit, case.get('ccell'))
    if acc is not None:
        f = '=%s(%s,%s,%s)' % (fn, rt, cs, sh.table(acc))
    else:
        f = '=%s(%s,%s)' % (fn, rt, cs)
    got = run(f, sh.inputs)
    text = show(f, sh.inputs)
    fails = []
    cr = L.parse_criterion(crit)
    if exp is None:
        fails += weak(fn, got, text)
    elif not X.same(got, exp, rel=1e-9):
        # name the rule: which single element is filtered wrongly?  (COUNTIF on one cell)
        seen = set()
        for e, t, m in zip(flat, tags, ms):
            if t in seen:
                continue
            one = run('=COUNTIF(B1,%s)' % lit(crit), {'B1': [[e]]})
            if not X.same(one, 1.0 if m else 0.0):
                seen.add(t)
                gc = 'matched' if one == 1.0 else 'unmatched' if one == 0.0 else X.cls(one)
                fails.append(('criterion|%s|%s' % (t, gc), '%s -> %r, expected %r; element %r alone: COUNTIF -> %r, expected %r' % (
                    text, got, exp, e, one, 1.0 if m else 0.0)))
        if not seen:
            feat = 'hash-alias' if _hash_alias(flat) else 'error-in-range' if any(isinstance(v, Err) for v in flat) else \
                'acc' if fn != 'COUNTIF' else 'other'
            fails.append(('%s|aggregate:%s|%s' % (fn if feat in ('acc', 'other') else 'criterion', feat, X.cls(got)),
                          '%s -> %r, expected %r (every element alone is filtered as expected)' % (text, got, exp)))
    # partition: a text cell or a blank cell either satisfies a text criterion or its negation - COUNTIF(r, c) +
    # COUNTIF(r, "<>" & c) counts every cell of a range of texts and blanks once (cells of another kind are left to the
    # 'within their own type' wording of the property)
    if fn == 'COUNTIF' and cr is not None and isinstance(crit, str) and cr['op'] in ('=', '<>') and crit not in ('', '=', '<>') \
            and cr['kind'] == 'text' and all(L.kind(v) in ('text', 'blank') for v in flat) \
            and not any(isinstance(v, str) and (X.is_numtext(v) or v == '') for v in flat):
        body = crit[2:] if crit.startswith('<>') else crit[1:] if crit.startswith('=') else crit
        if body:
            pos = run('=COUNTIF(%s,%s)' % (rt, lit(body)), sh.inputs)
            neg = run('=COUNTIF(%s,%s)' % (rt, lit('<>' + body)), sh.inputs)
            if isinstance(pos, float) and isinstance(neg, float) and pos + neg != float(len(flat)):
                fails.append(('criterion|partition|%s' % ('wild' if (cr['kind'] == 'text' and L.is_pattern(cr['tokens'])) else cr['kind']),
                              'COUNTIF(%s, %r) = %r and COUNTIF(.., %r) = %r do not add up to the %d cells of %s' % (
                                  rt, body, pos, '<>' + body, neg, len(flat), show(f, sh.inputs))))
    kinds = sorted({L.kind(v) for v in flat})
    ck = 'outside' if cr is None else '%s%s' % (cr['op'] if (cr['explicit'] or cr['op'] != '=') else 'plain', ':' + cr['kind'])
    if cr is not None and cr['kind'] == 'text' and L.is_pattern(cr['tokens']):
        ck += '-wild'
    labels = [fn, 'sp:' + case['sp'], 'range:' + (kinds[0] if len(kinds) == 1 else 'mixed')]
    if cr is not None:
        labels += ['crit-op:' + (cr['op'] if (cr['explicit'] or cr['op'] != '=') else 'plain'),
                   'crit-kind:' + ('wild' if ck.endswith('-wild') else cr['kind'])]
        if len(flat) > 1 and len(rng) > 1 and len(rng[0]) > 1:
            labels.append('range:2-D')
    if exp is None:
        labels.append('weak-only')
    nt = exp is not None and (len(kinds) > 1 or (cr is not None and (cr['op'] != '=' or ck.endswith('-wild'))))
    return R(fails, nt=nt, labels=labels)


def check_critarr(case):
    """A criterion given as an array is the scalar rule once per element: FN(range, {c1,c2,..}) must equal the row of
    FN(range, c1), FN(range, c2), .. - whatever the kinds of the criteria and their order (each single-criterion result is
    itself checked against the search definition by the 'crit' cases)."""
    fn = case['fn']
    crits = [dec(c) for c in case['crits']]
    rng = decm(case['rng'])
    acc = decm(case['acc']) if case.get('acc') is not None else None
    inputs = {'B1:B%d' % len(rng): rng}
    tail = ''
    if acc is not None:
        inputs['C1:C%d' % len(acc)] = acc
        tail = ',C1:C%d' % len(acc)
    singles = [run('=%s(B1:B%d,%s%s)' % (fn, len(rng), lit(c), tail), inputs) for c in crits]
    f = '=%s(B1:B%d,{%s}%s)' % (fn, len(rng), ','.join(lit(c) for c in crits), tail)
    v, _c = sut.cell_eval('Z99:%s99' % ['Z', 'AA', 'AB', 'AC'][len(crits) - 1], f, inputs)
    got = sut.matrix(v)
    fails = []
    row = got[0] if (isinstance(got, list) and len(got) == 1 and len(got[0]) == len(crits)) else None
    if row is None:
        fails.append(('%s|array-criterion|shape' % fn, '%s -> %r' % (show(f, inputs), got)))
    else:
        raised = [c for c, e in zip(crits, singles) if isinstance(e, Err) and e.t == '#VALUE!']
        if fn == 'AVERAGEIF' and raised and all(isinstance(g, Err) and g.t == '#VALUE!' for g in row) \
                and any(not X.same(g, e, rel=1e-9) for g, e in zip(row, singles)):
            # listed finding F56: averaging a selection that holds numeric text raises inside the function; alone that
            # criterion gives #VALUE!, inside an array criterion the exception replaces every element
            fails.append(('AVERAGEIF|array-criterion|raising-element-replaces-every-element',
                          '%s -> %r, but %r alone gives #VALUE! and the other elements alone give %r' % (show(f, inputs), row, raised[0], singles)))
            row, singles = [], []
        for i, (g, e) in enumerate(zip(row, singles)):
            if not X.same(g, e, rel=1e-9):
                fails.append(('%s|array-criterion|differs-from-single' % ('criterion' if fn == 'COUNTIF' else fn),
                              '%s -> %r, but element %d alone (%r) gives %r' % (show(f, inputs), row, i, crits[i], e)))
                break
    kinds = set()
    for c in crits:
        cr = L.parse_criterion(c)
        kinds.add('none' if cr is None else ('wild' if (cr['kind'] == 'text' and L.is_pattern(cr['tokens'])) else cr['kind']))
    labels = ['critarr:%s' % fn, 'critarr-kinds:%s' % '+'.join(sorted(kinds))]
    return R(fails, nt=len(kinds) > 1, labels=labels)


CRITARR_POOL = [1.0, '12', '>5', '<=7', '<>12', 'abc', '>0z', '<b', '<>abc', 'a*', '*2', True, '=TRUE', '', '>=12', 12.0]
CRITARR_RANGES = [
    [5.0, '12', 'abc', 12.0, '7', 'b'],
    ['3', 3.0, 'a12', '12', True, BLANK],
    [1.0, 'TRUE', True, '1', 'x', 0.0],
]


def _enum_critarr(tier):
    i = 0
    for ri, vals in enumerate(CRITARR_RANGES):
        for a in CRITARR_POOL:
            for b in CRITARR_POOL:
                if a is b:
                    continue
                i += 1
                if tier == 'quick' and (i + ri) % 3:
                    continue
                fn = ('COUNTIF', 'SUMIF', 'AVERAGEIF')[i % 3]
                crits = [a, b] if i % 5 else [a, b, a]
                yield {'k': 'critarr', 'fn': fn, 'crits': [enc(c) for c in crits], 'rng': encm([[v] for v in vals]),
                       'acc': None if fn == 'COUNTIF' or i % 2 else encm([[x] for x in ACC[:len(vals)]])}


COMPUTED_TRUE = ['AND(TRUE,TRUE)', 'NOT(FALSE)', 'ISNUMBER(1)', 'OR(FALSE,TRUE)', '(1=1)']
COMPUTED_FALSE = ['AND(TRUE,FALSE)', 'NOT(TRUE)', 'ISTEXT(1)', 'XOR(TRUE,TRUE)', '(1=2)']


def meta_logical_cases():
    """A logical value is the same key / criterion / vector element whether it was typed or computed by a function
    (added after seed c19-a-r4): every formula below is evaluated with typed TRUE/FALSE and with each computed spelling."""
    templates = [
        # (formula with {T} / {F} placeholders, data for B1:C4)
        ('MATCH({T},B1:B4,0)', [[1.0, 'a'], [True, 'b'], [False, 'c'], ['TRUE', 'd']]),
        ('MATCH({F},B1:B4,0)', [[0.0, 'a'], [True, 'b'], [False, 'c'], ['FALSE', 'd']]),
        ('VLOOKUP({T},B1:C4,2,FALSE)', [[1.0, 'a'], [True, 'b'], [False, 'c'], ['TRUE', 'd']]),
        ('HLOOKUP({F},{1,TRUE,FALSE,0;"p","q","r","s"},2,FALSE)', None),
        ('COUNTIF(B1:B4,{T})', [[1.0, 'a'], [True, 'b'], [False, 'c'], ['TRUE', 'd']]),
        ('COUNTIF(B1:B4,{F})', [[0.0, 'a'], [True, 'b'], [False, 'c'], [None, 'd']]),
        ('SUMIF(B1:B4,{T},C1:C4)', [[1.0, 1.0], [True, 10.0], [False, 100.0], [True, 1000.0]]),
        ('MATCH(1,IF({1;1;1},NOT(B1:B3)),0)', [[True, 'a'], [False, 'b'], [True, 'c']]),
        ('MATCH({T},IF({1;1;1},NOT(B1:B3)),0)', [[True, 'a'], [False, 'b'], [True, 'c']]),
        ('MATCH({T},NOT(B1:B3),0)', [[True, 'a'], [False, 'b'], [True, 'c']]),
        ('LOOKUP({T},{FALSE,TRUE},{"no","yes"})', None),
        ('MATCH({F},{TRUE,FALSE},-1)', None),
        ('IF(ISNA(MATCH({T},{1,2},0)),"none","hit")', None),
        ('AVERAGEIF(B1:B4,{F},C1:C4)', [[0.0, 1.0], [False, 10.0], [False, 30.0], [True, 1000.0]]),
    ]
    for f, data in templates:
        yield {'k': 'metalog', 'f': f, 'd': data}


def check_metalog(case):
    inputs = {}
    if case['d'] is not None:
        rows = [[BLANK if v is None else v for v in row] for row in case['d']]
        inputs = {'B1:C%d' % len(rows): rows}
        # sub-ranges used by the templates
        inputs['B1:B%d' % len(rows)] = [[r[0]] for r in rows]
        inputs['C1:C%d' % len(rows)] = [[r[1]] for r in rows]

    def run(f):
        try:
            v, _ = sut.cell_eval('A9', '=' + f, inputs)
            return sut.one(v) if not (isinstance(v, str) and v == 'MISSING') else Foreign('no-output')
        except sut.Watchdog:
            raise
        except Exception as ex:  # noqa
            return Foreign('raised:%s' % type(ex).__name__)
    base = run(case['f'].replace('{T}', 'TRUE').replace('{F}', 'FALSE'))
    fails = []
    for i in range(len(COMPUTED_TRUE)):
        f = case['f'].replace('{T}', COMPUTED_TRUE[i]).replace('{F}', COMPUTED_FALSE[i])
        got = run(f)
        if not X.same(got, base, 1e-12):
            fails.append(('metalog|%s|%s' % (case['f'].split('(')[0], X.cls(got)), '=%s gives %r, with typed logicals %r' % (f, got, base)))
    return R(fails[:3], nt=True, n=len(COMPUTED_TRUE) + 1, labels=['part:metalog', 'f:' + case['f'].split('(')[0]])


def check_case(case):
    k = case['k']
    if k == 'metalog':
        return check_metalog(case)
    if k == 'match':
        return check_match(case)
    if k == 'index':
        return check_index(case)
    if k == 'lookup':
        return check_lookup(case)
    if k == 'table':
        return check_table(case)
    if k == 'crit':
        return check_crit(case)
    if k == 'critarr':
        return check_critarr(case)
    raise ValueError(k)


# ================================================================== generators
ASC_NUM = [[-2.5, 0.0, 1.0, 2.0, 3.5, 10.0], [1.0, 2.0, 3.0, 4.0, 5.0, 6.0], [0.1, 0.2, 0.3, 1000.0, 1e6, 1e9]]
# strictly ascending in Excel's collation (digits < letters, prefix first); odd positions are keys
TXT = ['a', 'aa', 'ab', 'b', 'b1', 'bz', 'c', 'd', 'dd', 'm', 'x', 'zz', 'zzz']


def _sorted_sets(n):
    """-> list of (kind, keys, probes) with probes = [(value, note)]"""
    out = []
    for seq in ASC_NUM:
        keys = seq[:n]
        probes = [(keys[0] - 1.0, 'below')] + [(k, 'at') for k in keys] + \
                 [((a + b) / 2.0, 'between') for a, b in zip(keys, keys[1:])] + [(keys[-1] + 1.0, 'above'),
                                                                                  ('b', 'other'), (True, 'other')]
        out.append(('num', keys, probes))
    keys = [TXT[2 * i + 1] for i in range(n)]
    probes = [(TXT[0], 'below')] + [(k, 'at') for k in keys] + [(k.upper(), 'at-case') for k in keys[:2]] + \
             [(TXT[2 * i + 2], 'between') for i in range(n - 1)] + [(TXT[2 * n], 'above'), (TXT[2 * n].upper(), 'above-case'),
                                                                     (5.0, 'other'), (False, 'other')]
    out.append(('text', keys, probes))
    return out


def _spellings(rows, tier, i):
    """rng always; lit when there is no blank (quick: for every second case)."""
    sps = ['rng']
    if not has_blank(rows) and (tier != 'quick' or i % 2 == 0):
        sps.append('lit')
    return sps


def _enum_match_sorted(tier):
    i = 0
    for n in range(1, 7):
        for kind_, keys, probes in _sorted_sets(n):
            for direction, modes in ((1, ['1', None, 'TRUE', '2']), (-1, ['-1', '-2'])):
                vec = keys if direction > 0 else keys[::-1]
                for mode in modes:
                    for o in 'rc':
                        if mode == 'TRUE' and o == 'c':
                            continue
                        for key, note in probes:
                            i += 1
                            for sp in _spellings([vec], tier, i):
                                yield {'k': 'match', 'key': enc(key), 'vec': [enc(v) for v in vec], 'o': o, 'mode': mode,
                                       'sp': sp, 'kcell': bool(sp == 'rng' and i % 3 == 0)}
    for vec in ([False, True], [False], [True]):
        for direction, mode in ((1, '1'), (1, None), (-1, '-1')):
            v = vec if direction > 0 else vec[::-1]
            for key in (False, True, 1.0, 'a'):
                for o in 'rc':
                    for sp in ('rng', 'lit'):
                        yield {'k': 'match', 'key': enc(key), 'vec': [enc(x) for x in v], 'o': o, 'mode': mode, 'sp': sp}


EXACT_POOL = [1.0, 2.0, 'a', 'A', 'b', True, False, BLANK, NA, '', '1']
EXACT_KEYS = [1.0, 2.0, 3.0, 'a', 'A', 'b', 'c', True, False, '', '1', 'Empty']


def _enum_match_exact(tier):
    i = 0
    for n in (1, 2) if tier == 'quick' else (1, 2, 3):
        for vec in itertools.product(EXACT_POOL, repeat=n):
            for key in EXACT_KEYS:
                i += 1
                o = 'rc'[i % 2]
                mode = ['0', 'FALSE', '0', ''][i % 4]
                for sp in _spellings([vec], tier, i // 2):
                    yield {'k': 'match', 'key': enc(key), 'vec': [enc(v) for v in vec], 'o': o, 'mode': mode, 'sp': sp,
                           'kcell': bool(sp == 'rng' and i % 5 == 0)}


WILD_PATTERNS = ['a?', '?', '*', 'a*', '*b', '?b*', 'a~?', 'a~*', '~*', '~?*', '*a*', '??', 'a?c', 'A*', '?*', 'a~?*', '*~?']
WILD_TEXTS = ['a', 'ab', 'abc', 'b', 'a?', 'a*', '*', '?x', 'AB', 'xab', 'ba', 'Abc']


def _enum_match_wild(tier):
    i = 0
    vecs = [(t,) for t in WILD_TEXTS] + list(itertools.permutations(WILD_TEXTS, 2))
    for pat in WILD_PATTERNS:
        for vec in vecs:
            i += 1
            if tier == 'quick' and len(vec) == 2 and i % 2:
                continue
            v = list(vec) + ([5.0, True] if i % 7 == 0 else [])
            if i % 5 == 0:
                v = [BLANK, NA] + v
            yield {'k': 'match', 'key': pat, 'vec': [enc(x) for x in v], 'o': 'rc'[i % 2], 'mode': '0',
                   'sp': 'rng' if (i % 3 or i % 5 == 0) else 'lit'}


def fill(r, c, blanks=True):
    """Deterministic mixed table content identifying its position."""
    m = (r * 7 + c * 3) % 8
    if m == 0:
        return 'r%dc%d' % (r, c)
    if m == 1:
        return bool((r + c) % 2)
    if m == 2:
        return BLANK if blanks else -float(10 * r + c)
    if m == 3:
        return NA if (r + c) % 2 else DIV0
    return float(10 * r + c) + (0.5 if m == 4 else 0.0)


def _idx_candidates(n):
    out = [-1.0, 0.0, 1.0, float(n), float(n + 1), float(n + 7)]
    if n >= 2:
        out.append((n + 1) // 2 + 0.5)
    if n >= 3:
        out.append(float(n // 2 + 1))
    return sorted(set(out))


def _enum_index(tier):
    i = 0
    for nr in range(1, 7):
        for nc in range(1, 7):
            for r in _idx_candidates(nr):
                for c in _idx_candidates(nc):
                    i += 1
                    for sp in (('rng', 'lit') if tier != 'quick' else (('rng', 'lit')[i % 2],)):
                        tbl = [[fill(a, b, blanks=(sp == 'rng')) for b in range(1, nc + 1)] for a in range(1, nr + 1)]
                        yield {'k': 'index', 'tbl': encm(tbl), 'r': r, 'c': c, 'sp': sp}
    for n in range(1, 7):
        for o in 'rc':
            for k in _idx_candidates(n):
                for sp in ('rng', 'lit'):
                    vec = [fill(a, 1, blanks=(sp == 'rng')) for a in range(1, n + 1)]
                    yield {'k': 'index', 'tbl': encm(as_rows(vec, o)), 'r': k, 'c': None, 'sp': sp}


def _enum_lookup(tier):
    i = 0
    for n in range(1, 7):
        for kind_, keys, probes in _sorted_sets(n):
            if kind_ == 'num' and keys[0] != -2.5 and tier == 'quick' and n not in (1, 4):
                continue
            for key, note in probes:
                for ko in 'rc':
                    for form in ('same', 'crossed', 'none'):
                        i += 1
                        sp = 'rng' if i % 2 else 'lit'
                        rv = None if form == 'none' else [fill(a, 2, blanks=(sp == 'rng')) for a in range(1, n + 1)]
                        ro = ko if form == 'same' else ('r' if ko == 'c' else 'c')
                        yield {'k': 'lookup', 'key': enc(key), 'kv': [enc(v) for v in keys], 'ko': ko,
                               'rv': None if rv is None else [enc(v) for v in rv], 'ro': ro, 'sp': sp,
                               'kcell': bool(sp == 'rng' and i % 3 == 0)}
    # array form: the search vector is the first row (wide) or the first column (tall / square)
    for nr in range(1, 5):
        for nc in range(1, 5):
            wide = nc > nr
            n = nc if wide else nr
            for kind_, keys, probes in _sorted_sets(n):
                if kind_ == 'num' and keys[0] != -2.5:
                    continue
                for key, note in probes:
                    i += 1
                    sp = 'rng' if i % 2 else 'lit'
                    tbl = [[fill(a, b, blanks=(sp == 'rng')) for b in range(1, nc + 1)] for a in range(1, nr + 1)]
                    for j, kx in enumerate(keys):
                        if wide:
                            tbl[0][j] = kx
                        else:
                            tbl[j][0] = kx
                    yield {'k': 'lookup', 'key': enc(key), 'tbl': encm(tbl), 'sp': sp}


# exact mode: duplicates, kinds, blank, error, text that holds wildcard characters
MIXED_KEYS = [[2.0, 'b', True, 'B', 2.0, BLANK], [NA, 'a*', 1.0, '', 'ab', 1.0]]
MIXED_PROBES = [2.0, 1.0, 7.0, 'b', 'B', 'c', True, False, 'a~*', '?', 'A*', '2', 'empty']


def _tables(fn, keys, width, blanks):
    n = len(keys)
    if fn == 'VLOOKUP':
        tbl = [[fill(a, b, blanks) for b in range(1, width + 1)] for a in range(1, n + 1)]
        for j, k in enumerate(keys):
            tbl[j][0] = k
    else:
        tbl = [[fill(a, b, blanks) for b in range(1, n + 1)] for a in range(1, width + 1)]
        for j, k in enumerate(keys):
            tbl[0][j] = k
    return tbl


def _enum_table(tier):
    i = 0
    ns = (1, 3, 6) if tier == 'quick' else (1, 2, 3, 4, 5, 6)
    ws = (1, 2, 6) if tier == 'quick' else (1, 2, 3, 4, 5, 6)
    for fn in ('VLOOKUP', 'HLOOKUP'):
        for n in ns:
            for w in ws:
                idxs = sorted({-1.0, 0.0, 1.0, float(w), float(w + 1), min(w, 1) + 0.9})
                if tier == 'quick':
                    idxs.remove(-1.0 if (n + w) % 2 else 0.0)
                # approximate modes on sorted keys
                for kind_, keys, probes in _sorted_sets(n):
                    if kind_ == 'num' and keys[0] != -2.5 and tier == 'quick':
                        continue
                    for mode in ('TRUE', None, '1'):
                        for idx in idxs:
                            for key, note in probes:
                                i += 1
                                if tier == 'quick' and (i % 2 if mode == 'TRUE' else i % 4):
                                    continue
                                sp = 'rng' if (i // 2) % 2 else 'lit'
                                tbl = _tables(fn, keys, w, sp == 'rng')
                                yield {'k': 'table', 'fn': fn, 'key': enc(key), 'tbl': encm(tbl), 'idx': idx, 'mode': mode,
                                       'sp': sp, 'kcell': bool(sp == 'rng' and i % 3 == 0)}
                # exact modes: the same sorted keys (present / absent / other type) ...
                for kind_, keys, probes in _sorted_sets(n):
                    if kind_ == 'num' and keys[0] != -2.5:
                        continue
                    for mode in ('FALSE', '0', ''):
                        for idx in idxs:
                            for key, note in probes:
                                i += 1
                                if tier == 'quick' and i % 4:
                                    continue
                                sp = 'rng' if (i // 4) % 2 else 'lit'
                                tbl = _tables(fn, keys, w, sp == 'rng')
                                yield {'k': 'table', 'fn': fn, 'key': enc(key), 'tbl': encm(tbl), 'idx': idx, 'mode': mode,
                                       'sp': sp}
                # ... and mixed-type keys with duplicates, blank, error, wildcards
                for mk in MIXED_KEYS:
                    keys = mk[:max(n, 2)]
                    for mode in ('FALSE', '0'):
                        for idx in idxs:
                            for key in MIXED_PROBES:
                                i += 1
                                if tier == 'quick' and mode == '0' and i % 2:
                                    continue
                                sp = 'rng'
                                tbl = _tables(fn, keys, w, True)
                                yield {'k': 'table', 'fn': fn, 'key': enc(key), 'tbl': encm(tbl), 'idx': idx, 'mode': mode,
                                       'sp': sp, 'kcell': bool(i % 3 == 0)}


CRIT_NUM = [1.0, 0.0, 2.5, '1', '2.50', '-1.5', '=1', '<>1', '>1', '>=1', '<1', '<=1', '>0', '<=0', '<>0', '>=2.5', '<-1', '=0']
CRIT_TEXT = ['a', 'A', 'b', 'abc', '=a', '=A', '<>a', '<>B', '>a', '>=a', '<b', '<=B', '>A', '<ab', '>=abc', '<>abc']
CRIT_WILD = ['a?', '?', '*', 'a*', '*b', '?*', 'a~?', 'a~*', '=a*', '=?', '<>a*', '<>?', '<>*b', '*B', 'A?', '??', 'a?c', '~**',
             '<>a~?', '<>a~*', '=a~?', '<>A~?', '=A~*']
CRIT_BOOL = [True, False, 'TRUE', 'false', '=TRUE', '=FALSE', '<>TRUE', '<>FALSE', '>FALSE', '<TRUE', '>=TRUE', '<=FALSE']
CRIT_OTHER = ['']
CRITERIA = CRIT_NUM + CRIT_TEXT + CRIT_WILD + CRIT_BOOL + CRIT_OTHER
ELEMS = [0.0, 1.0, 2.5, -1.5, 'a', 'A', 'b', 'B', 'ab', 'abc', 'a?', 'a*', '', True, False, BLANK, NA, DIV0]
RANGES = [
    [0.0, 1.0, 2.5, -1.5, 1.0, 3.0],
    [1.0, 1.0, 0.0],
    ['a', 'A', 'b', 'B', 'ab', 'abc'],
    ['abc', 'a?', 'a*', 'ab', 'b', 'xab'],
    [True, False, True],
    [False, False],
    [1.0, True, 0.0, False],
    [True, 1.0, False, 0.0],
    [1.0, 'a', True, BLANK, NA, 'A'],
    [BLANK, '', 'a', 0.0, BLANK, 'b'],
    [2.5, NA, 1.0, DIV0, 0.0, -1.5],
    ['b', 1.0, 'B', 2.5, 'ab', False],
    ['a', BLANK, 'ab', BLANK, 'b', 'xab'],
]
ACC = [10.0, 20.5, -3.0, 4.0, 100.0, 0.25]
ACC_MIXED = [10.0, 'x', True, BLANK, 100.0, NA]


def _shape(vals, how):
    if how == 'r':
        return [list(vals)]
    if how == 'c':
        return [[v] for v in vals]
    k = len(vals) // 2
    return [list(vals[:k]), list(vals[k:2 * k])]


def _enum_crit(tier):
    i = 0
    for crit in CRITERIA:
        for e in ELEMS:
            i += 1
            for fn in ('COUNTIF', 'SUMIF'):
                if fn == 'SUMIF' and tier == 'quick' and i % 4:
                    continue
                yield {'k': 'crit', 'fn': fn, 'crit': enc(crit), 'rng': [[enc(e)]], 'acc': None if fn == 'COUNTIF' else [[7.0]],
                       'sp': 'rng', 'ccell': bool(i % 2)}
        for j, vals in enumerate(RANGES):
            for how in ('c', 'r', '2d'):
                if how == '2d' and (len(vals) < 4 or len(vals) % 2):
                    continue
                i += 1
                if tier == 'quick' and how == 'r' and (i + j) % 3:
                    continue
                rows = _shape(vals, how)
                sp = 'lit' if (not has_blank(rows) and i % 3 == 0) else 'rng'
                n = sum(len(r) for r in rows)
                yield {'k': 'crit', 'fn': 'COUNTIF', 'crit': enc(crit), 'rng': encm(rows), 'acc': None, 'sp': sp,
                       'ccell': bool(i % 2)}
                for fn in ('SUMIF', 'AVERAGEIF'):
                    accs = [None, ACC[:n], ACC_MIXED[:n]] if n <= 6 else [None]
                    for a, accv in enumerate(accs):
                        if tier == 'quick' and ((i + a) % 2 if accv is not None else (i + j) % 2):
                            continue
                        arows = None if accv is None else _shape(accv, how)
                        sp2 = 'rng' if (sp == 'rng' or (arows is not None and has_blank(arows))) else 'lit'
                        yield {'k': 'crit', 'fn': fn, 'crit': enc(crit), 'rng': encm(rows),
                               'acc': None if arows is None else encm(arows), 'sp': sp2, 'ccell': bool((i + a) % 2)}


# ------------------------------------------------------------------ Hypothesis
_NUM = st.one_of(st.integers(-5, 9).map(float), st.sampled_from([0.5, -2.5, 1.15, 2.675, 1e9, 1e-3, 0.1, 0.2, 0.3]),
                 st.floats(-1e6, 1e6, allow_nan=False).map(lambda x: round(x, 3)))
_PLAINTXT = st.text(alphabet='abcxyz019 ', min_size=1, max_size=4).filter(
    lambda s: s.strip(' ') == s and not X.is_numtext(s) and s[0] not in '0123456789' and ' ' not in s[-1:])
_TXT = st.one_of(st.sampled_from(['a', 'A', 'b', 'B', 'ab', 'Ab', 'abc', 'x', 'xy', 'a?', 'a*', '?', '*', 'b c']), _PLAINTXT,
                 _PLAINTXT.map(str.upper))
_BOOL = st.booleans()
_ERR = st.sampled_from(['#N/A', '#DIV/0!', '#VALUE!', '#REF!']).map(lambda e: ['E', e])
_ANY = st.one_of(_NUM, _NUM, _TXT, _TXT, _BOOL, st.none(), _ERR, st.just(''))
_PAT = st.lists(st.sampled_from(['a', 'b', 'c', 'A', 'x', '?', '*', '~?', '~*', '?', '*']), min_size=1, max_size=4).map(''.join)


def _sorted_vec(draw):
    kind_ = draw(st.sampled_from(['num', 'num', 'text']))
    if kind_ == 'num':
        vals = sorted(set(draw(st.lists(_NUM, min_size=1, max_size=6))))
    else:
        raw = draw(st.lists(_PLAINTXT, min_size=1, max_size=6))
        seen, vals = set(), []
        for s in sorted(raw, key=str.lower):
            if s.lower() not in seen:
                seen.add(s.lower())
                vals.append(s)
        vals = [s for s in vals]
    return kind_, vals


@st.composite
def _rand_look_case(draw):
    what = draw(st.sampled_from(['match-approx', 'match-exact', 'match-exact', 'lookup', 'table-approx', 'table-exact',
                                 'table-exact', 'index']))
    sp = draw(st.sampled_from(['rng', 'rng', 'lit']))
    kcell = draw(st.booleans())
    if what == 'index':
        nr, nc = draw(st.integers(1, 6)), draw(st.integers(1, 6))
        tbl = [[draw(_ANY) for _ in range(nc)] for _ in range(nr)]
        if any(v is None for row in tbl for v in row):
            sp = 'rng'
        r = draw(st.one_of(st.integers(-2, nr + 2).map(float), st.floats(1, nr + 1).map(lambda x: round(x, 2))))
        c = draw(st.one_of(st.integers(-2, nc + 2).map(float), st.floats(1, nc + 1).map(lambda x: round(x, 2))))
        return {'k': 'index', 'tbl': tbl, 'r': r, 'c': c, 'sp': sp}
    if what in ('match-approx', 'lookup', 'table-approx'):
        kind_, vals = _sorted_vec(draw)
        near = st.sampled_from(vals)
        if kind_ == 'num':
            key = draw(st.one_of(near, near.map(lambda v: v + 0.5), near.map(lambda v: v - 0.001), _NUM, _TXT, _BOOL))
        else:
            key = draw(st.one_of(near, near.map(str.upper), near.map(lambda v: v + 'a'), _PLAINTXT, _NUM, _BOOL))
    else:
        vals = draw(st.lists(_ANY, min_size=1, max_size=6))
        present = [v for v in vals if v is not None and not isinstance(v, list)]
        key = draw(st.one_of(st.sampled_from(present) if present else _NUM, _NUM, _TXT, _BOOL, _PAT,
                             st.sampled_from(present).filter(lambda v: isinstance(v, str)).map(str.swapcase) if any(
                                 isinstance(v, str) for v in present) else _TXT))
    if what.startswith('match'):
        if what == 'match-approx':
            d = draw(st.sampled_from([1, 1, -1]))
            mode = {1: draw(st.sampled_from(['1', None])), -1: '-1'}[d]
            vec = vals if d > 0 else vals[::-1]
        else:
            mode, vec = draw(st.sampled_from(['0', 'FALSE'])), vals
        if any(v is None for v in vec):
            sp = 'rng'
        return {'k': 'match', 'key': key, 'vec': vec, 'o': draw(st.sampled_from('rc')), 'mode': mode, 'sp': sp,
                'kcell': kcell and sp == 'rng'}
    if what == 'lookup':
        rv = draw(st.one_of(st.none(), st.lists(_ANY, min_size=len(vals), max_size=len(vals))))
        if rv is not None and any(v is None for v in rv):
            sp = 'rng'
        return {'k': 'lookup', 'key': key, 'kv': vals, 'ko': draw(st.sampled_from('rc')), 'rv': rv,
                'ro': draw(st.sampled_from('rc')), 'sp': sp, 'kcell': kcell and sp == 'rng'}
    fn = draw(st.sampled_from(['VLOOKUP', 'HLOOKUP']))
    w = draw(st.integers(1, 6))
    n = len(vals)
    body = [[draw(_ANY) for _ in range(w - 1)] for _ in range(n)]
    rows = [[k] + b for k, b in zip(vals, body)]
    if fn == 'HLOOKUP':
        rows = [list(x) for x in zip(*rows)]
    if any(v is None for row in rows for v in row):
        sp = 'rng'
    idx = draw(st.one_of(st.integers(-1, w + 2).map(float), st.integers(1, w).map(float), st.integers(1, w).map(float)))
    mode = draw(st.sampled_from(['TRUE', None, '1'] if what == 'table-approx' else ['FALSE', '0', '']))
    return {'k': 'table', 'fn': fn, 'key': key, 'tbl': rows, 'idx': idx, 'mode': mode, 'sp': sp, 'kcell': kcell and sp == 'rng'}


_CELL = st.one_of(_NUM, _NUM, _TXT, _TXT, _BOOL, st.none(), _ERR, st.just(''))
_OP = st.sampled_from(['', '=', '<>', '>', '>=', '<', '<='])


@st.composite
def _rand_crit_case(draw):
    fn = draw(st.sampled_from(['COUNTIF', 'SUMIF', 'AVERAGEIF']))
    flavour = draw(st.sampled_from(['num', 'text', 'bool', 'mixed', 'mixed']))
    el = {'num': _NUM, 'text': _TXT, 'bool': _BOOL, 'mixed': _CELL}[flavour]
    nr, nc = draw(st.sampled_from([(1, 1), (1, 3), (4, 1), (6, 1), (1, 6), (2, 2), (2, 3), (3, 2)]))
    rng = [[draw(el) for _ in range(nc)] for _ in range(nr)]
    flat = [v for row in rng for v in row]
    nums = [v for v in flat if isinstance(v, float)]
    txts = [v for v in flat if isinstance(v, str) and v]
    which = draw(st.sampled_from(['num', 'text', 'wild', 'bool', 'value', 'empty']))
    if which == 'num':
        x = draw(st.sampled_from(nums)) if nums and draw(st.booleans()) else draw(_NUM)
        crit = draw(_OP) + lit(abs(x)) if x >= 0 else draw(_OP) + '-' + lit(abs(x))
    elif which == 'text':
        x = draw(st.sampled_from(txts)) if txts and draw(st.booleans()) else draw(_PLAINTXT)
        x = draw(st.sampled_from([x, x.upper(), x.lower()]))
        crit = draw(_OP) + x.replace('?', '~?').replace('*', '~*')
    elif which == 'wild':
        crit = draw(st.sampled_from(['', '', '=', '<>'])) + draw(_PAT)
    elif which == 'bool':
        crit = draw(_OP) + draw(st.sampled_from(['TRUE', 'FALSE', 'true']))
    elif which == 'value':
        crit = draw(st.one_of(st.sampled_from(nums) if nums else _NUM, _BOOL))
    else:
        crit = ''
    acc = None
    if fn != 'COUNTIF' and draw(st.booleans()):
        ael = st.one_of(_NUM, _NUM, _NUM, st.sampled_from(['x', 'ab', True, False, None, ['E', '#N/A'], ['E', '#DIV/0!']]))
        acc = [[draw(ael) for _ in range(nc)] for _ in range(nr)]
    sp = draw(st.sampled_from(['rng', 'rng', 'lit']))
    if any(v is None for v in flat) or (acc and any(v is None for row in acc for v in row)):
        sp = 'rng'
    return {'k': 'crit', 'fn': fn, 'crit': crit, 'rng': rng, 'acc': acc, 'sp': sp, 'ccell': draw(st.booleans())}


STRATEGIES = {'rand-look': lambda tier: _rand_look_case(), 'rand-crit': lambda tier: _rand_crit_case()}

FLOORS = {
    'mode:asc': ('count', {'quick': 2000, 'thorough': 8000}),
    'mode:desc': ('count', {'quick': 200, 'thorough': 800}),
    'mode:exact': ('count', {'quick': 3000, 'thorough': 20000}),
    'keys:mixed': ('count', {'quick': 1000, 'thorough': 10000}),
    'key:wildcard': ('count', {'quick': 500, 'thorough': 2000}),
    'crit-kind:wild': ('count', {'quick': 500, 'thorough': 2000}),
    'crit-op:<>': ('count', {'quick': 300, 'thorough': 1000}),
    'range:mixed': ('count', {'quick': 1000, 'thorough': 3000}),
    'pos:between': ('count', {'quick': 500, 'thorough': 2000}),
    'pos:none': ('count', {'quick': 200, 'thorough': 1000}),
    'pos:beyond-last': ('count', {'quick': 300, 'thorough': 1000}),
    'pos:other-type': ('count', {'quick': 500, 'thorough': 2000}),
    'pos:dup': ('count', {'quick': 200, 'thorough': 1000}),
    'pos:at-key-case': ('count', {'quick': 100, 'thorough': 500}),
    'INDEX': ('count', {'quick': 1000, 'thorough': 3000}),
    'LOOKUP': ('count', {'quick': 500, 'thorough': 2000}),
    'LOOKUP:form=array-2d': ('count', {'quick': 50, 'thorough': 100}),
    'VLOOKUP': ('count', {'quick': 1000, 'thorough': 5000}),
    'HLOOKUP': ('count', {'quick': 1000, 'thorough': 5000}),
    'table:idx<1': ('count', {'quick': 200, 'thorough': 1000}),
    'table:idx-beyond': ('count', {'quick': 200, 'thorough': 1000}),
    'table:idx-last': ('count', {'quick': 200, 'thorough': 1000}),
    'index:beyond': ('count', {'quick': 200, 'thorough': 500}),
    'COUNTIF': ('count', {'quick': 1000, 'thorough': 3000}),
    'SUMIF': ('count', {'quick': 1000, 'thorough': 3000}),
    'AVERAGEIF': ('count', {'quick': 500, 'thorough': 2000}),
}


def _thin(gen, keep, of):
    """Deterministic thinning of an enumeration for the quick tier."""
    for i, case in enumerate(gen):
        if i % of < keep:
            yield case


def parts(tier, seed):
    q = tier == 'quick'
    table, crit = _enum_table(tier), _enum_crit(tier)
    if q:
        table, crit = _thin(table, 2, 3), _thin(crit, 2, 3)
    return [
        ('enum', 'match-sorted', _enum_match_sorted(tier), 150, not q),
        ('enum', 'match-exact', _enum_match_exact(tier), 150, not q),
        ('enum', 'match-wild', _enum_match_wild(tier), 150, not q),
        ('enum', 'index', _enum_index(tier), 150, not q),
        ('enum', 'lookup', _enum_lookup(tier), 100, not q),
        ('enum', 'table', table, 100, not q),
        ('enum', 'criteria', crit, 100, not q),
        ('enum', 'criteria-array', _enum_critarr(tier), 60, not q),
        ('enum', 'computed-logicals', meta_logical_cases(), 2, False),
        ('hyp', 'rand-look', 1600 if q else 100000),
        ('hyp', 'rand-crit', 1600 if q else 100000),
    ]
