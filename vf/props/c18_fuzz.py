"""C18 atheris target.  Run as
    /venv/bin/python -m vf.props.c18_fuzz -runs=N -seed=S <corpus dir under /verif/.work/>
The semantic oracle (vf.props.c18.check_case) runs inside the target; nothing
ever escapes from the target, so one shallow defect does not end the campaign.
Failing inputs (smallest per signature), counters and digests of the non-trivial
strings are written to $C18_FUZZ_OUT when the process ends.

Input format: first byte even -> the rest is UTF-8 text (the formula, raw; "=" is put in
front when the byte is 2 mod 4); odd -> FuzzedDataProvider picks a prefix and <= 16 tokens from the dictionary.
"""
import os
import sys
import json
import atexit
import collections

ROOT = os.path.dirname(os.path.dirname(os.path.dirname(os.path.abspath(__file__))))
DEPS = os.path.join(ROOT, '.deps')
if os.path.isdir(DEPS) and DEPS not in sys.path:
    sys.path.append(DEPS)

try:
    if os.environ.get('C18_NO_ATHERIS'):    # lets the fallback path be exercised
        raise ImportError('disabled by C18_NO_ATHERIS')
    import atheris
except Exception as _ex:  # pragma: no cover
    print('NO-ATHERIS %r' % (_ex,))
    sys.exit(3)

with atheris.instrument_imports(include=['formulas']):
    from vf import sut  # noqa: F401  (imports formulas from $VF_REPO, instrumented)

from vf import runner  # noqa: E402
from vf.props import c18  # noqa: E402
from vf.gen import c18_gen as G  # noqa: E402

OUT = os.environ.get('C18_FUZZ_OUT')
STATE = {'n': 0, 'labels': collections.Counter(), 'failing': {}, 'nt': set(), 'samples': [], 'crashed': None}
DICT = G.DICT
PRE = G.PREFIXES


def decode(data):
    if not data:
        return '=', 'raw'
    if data[0] % 2 == 0:
        t = data[1:].decode('utf8', 'ignore')
        return ('=' + t if data[0] % 4 == 2 else t), 'raw'
    fdp = atheris.FuzzedDataProvider(data[1:])
    pre = PRE[fdp.ConsumeIntInRange(0, len(PRE) - 1)]
    n = fdp.ConsumeIntInRange(0, 16)
    toks = []
    for _ in range(n):
        if not fdp.remaining_bytes():
            break
        toks.append(DICT[fdp.ConsumeIntInRange(0, len(DICT) - 1)])
    return pre + ''.join(toks), 'tokens'


def one(data):
    s, mode = decode(data)
    if any(0xD800 <= ord(c) <= 0xDFFF for c in s):
        return
    case = {'s': s, 'src': 'fuzz'}
    st = STATE
    st['n'] += 1
    try:
        r = runner.safe_check(c18, case)
    except BaseException as ex:  # noqa  (never let anything stop the campaign)
        if isinstance(ex, (KeyboardInterrupt, SystemExit)):
            raise
        st['labels']['fuzz:target-exception:%s' % type(ex).__name__] += 1
        return
    lb = st['labels']
    lb['fuzz:' + mode] += 1
    for x in r['labels']:
        lb[x] += 1
    if 'harness_error' in r:
        lb['fuzz:harness-error'] += 1
        st['failing'].setdefault('harness-error', s)
    if r['nt'] is True and len(st['nt']) < 400000:
        st['nt'].add(runner.digest(case))
    for sig, _ in r['fails']:
        old = st['failing'].get(sig)
        if old is None or len(s) < len(old):
            st['failing'][sig] = s
    k = st['n']
    if (k & (k - 1)) == 0 and len(st['samples']) < 24:
        st['samples'].append(s)


def dump():
    if not OUT:
        return
    st = STATE
    with open(OUT, 'w', encoding='utf8') as f:
        json.dump({'executions': st['n'], 'labels': dict(st['labels']), 'failing': st['failing'],
                   'nt': sorted(st['nt']), 'samples': st['samples'], 'crashed': st['crashed']}, f, ensure_ascii=False)


def write_seed_corpus(corpus_dir):
    """raw seeds (prefix byte 0) and, where a seed splits into dictionary tokens, nothing more is needed:
    libFuzzer's own mutations of the token mode start from the empty input"""
    for i, s in enumerate(G.load_seeds()):
        with open(os.path.join(corpus_dir, 'seed%03d' % i), 'wb') as f:
            f.write(b'\x00' + s.encode('utf8'))
    for i, t in enumerate(['=007', '=A1 B1', '={1,2;3,4}', '=SUM(1,,2)', '="a""b"&#N/A', '=1E+2%', "='S 1'!A1"]):
        with open(os.path.join(corpus_dir, 'extra%03d' % i), 'wb') as f:
            f.write(b'\x00' + t.encode('utf8'))
    with open(os.path.join(corpus_dir, 'tok0'), 'wb') as f:
        f.write(b'\x01\x00\x03\x05\x20\x06')


def main(argv):
    dirs = [a for a in argv[1:] if not a.startswith('-')]
    if dirs and os.path.isdir(dirs[0]):
        write_seed_corpus(dirs[0])
        dct = os.path.join(os.path.dirname(dirs[0].rstrip('/')), 'dict.txt')
        with open(dct, 'w', encoding='ascii') as f:
            for t in DICT:
                f.write('"%s"\n' % ''.join('\\x%02x' % b for b in t.encode('utf8')))
        argv = argv + ['-dict=%s' % dct]
    # libFuzzer's own -runs ends the process with C exit(): no Python atexit.  atheris' -atheris_runs leaves
    # through Python, so the result file is written; -runs=N is accepted and translated.
    argv = [('-atheris_runs=' + a[6:]) if a.startswith('-runs=') else a for a in argv]
    atexit.register(dump)
    atheris.Setup(argv, one)
    atheris.Fuzz()


if __name__ == '__main__':
    main(sys.argv)
