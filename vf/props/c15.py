"""C15 - a model loaded from chosen outputs equals the full model on them."""
import os
from hypothesis import strategies as st

from .. import sut
from ..runner import R
from ..xlref import wb as W
from ..xlref import core as X
from ..gen import workbooks as G

ID = 'C15'
RULE = ('Hypothesis workbook specs written to xlsx files (1-2 books x 1-2 sheets, names, array formulas with stale spill '
        'constants, cross-sheet/cross-book chains; whole columns in a separate small part). For every spec: every populated '
        'formula cell as a singleton output (all singletons) plus a drawn set of <= 4 outputs (cells and rectangles): '
        'ExcelModel().from_ranges(*outs).finish().calculate() must equal loads(all).finish().calculate() and the independent '
        'evaluator on every populated cell of the outputs; finish()/complete() applied again to a finished model must leave '
        'the dataflow graph (nodes, edges) and all values unchanged. Non-trivial = an output depends on another sheet/book, '
        'a name, an array formula or a whole column; distinct by (spec, outputs).')
ASSUMPTIONS = ['xlref.wb evaluator on the restricted grammar; requesting an unpopulated cell as an output is not asserted']
WATCHDOG_S = 300


def graph_sig(m):
    d = m.dsp
    nodes = sorted(repr(k) for k in d.nodes)
    edges = sorted((repr(u), repr(v)) for u, nbrs in d.dmap.succ.items() for v in nbrs)
    return nodes, edges


def out_name(spec, rect):
    b, s, r1, c1, r2, c2 = rect
    q = G.qual_full(spec, b, s)
    return q + G.a1(r1, c1) if (r1, c1) == (r2, c2) else q + G.a1(r1, c1) + ':' + G.a1(r2, c2)


LOAD_MODES = ['finish', 'no-second-complete', 'two-calls']


def partial_values(spec, dirpath, rects, mode='finish'):
    """from_ranges(outs) IS complete(outs): it pulls the whole cone in, so the complete() inside finish() has nothing to add
    ('no-second-complete' switches it off), and outputs may be handed over in several calls ('two-calls')."""
    m = sut.ExcelModel()
    m.basedir = dirpath
    names = [out_name(spec, r) for r in rects]
    if mode == 'no-second-complete':
        m.from_ranges(*names).finish(complete=False)
    elif mode == 'two-calls' and len(names) > 1:
        m.from_ranges(*names[:1])
        m.from_ranges(*names[1:]).finish()
    else:
        m.from_ranges(*names).finish()
    return m, G.flatten(m.calculate())


def form_of_path(spec, keys):
    """Reference-form class found on the dependency cone of `keys` (for signatures / NT)."""
    deps = W.depends_on(spec)
    forms = G.cell_forms(spec)
    seen, stack, found = set(), list(keys), set()
    while stack:
        k = stack.pop()
        if k in seen:
            continue
        seen.add(k)
        found.add(forms.get(k, 'blank'))
        stack.extend(deps.get(k, ()))
    for pref in ('wholecol-xbook', 'wholecol-xsheet', 'wholecol-same', 'array-formula', 'name', 'range-xbook', 'cell-xbook',
                 'range-xsheet', 'cell-xsheet', 'range-same', 'cell-same'):
        if pref in found:
            return pref
    return 'literal'


def check_spec(case):
    spec = case['spec']
    expected = W.evaluate(spec)
    pop = W.populated(spec)
    fails, labels, nts, n = [], [], [], 0
    with G.workdir() as d:
        paths = G.write_files(spec, d, links=case.get('links'), stale=case.get('stale', True))
        full = sut.ExcelModel().loads(*paths).finish()
        g0 = graph_sig(full)
        flat_full, conf = G.flatten(full.calculate())
        # idempotence of finish()/complete() on a finished model
        full.finish()
        g1 = graph_sig(full)
        flat_again, _ = G.flatten(full.calculate())
        full.complete()
        g2 = graph_sig(full)
        if g0 != g1 or g0 != g2:
            dn = set(g1[0]) ^ set(g0[0]) | set(g2[0]) ^ set(g0[0])
            fails.append(('idempotent|graph-changed', 'nodes changed by a second finish()/complete(): %s' % sorted(dn)[:5]))
        for k in flat_full:
            if not X.same(flat_full[k], flat_again.get(k, 'MISSING'), 1e-12):
                fails.append(('idempotent|value-changed', '%s: %r then %r' % (k, flat_full[k], flat_again.get(k))))
                break
        n += 2
        outsets = []
        if case.get('singletons', True):
            for cell in spec['cells']:
                if 'f' in cell:
                    b, s, r, c = cell['at']
                    r2, c2 = cell.get('arr', [r, c])
                    outsets.append([[b, s, r, c, r2, c2]])
        outs_mode = {}
        for outs in case.get('outsets', []):
            if case.get('all_modes'):
                # fixed shapes: every output set under every loading sequence
                for md in LOAD_MODES:
                    o2 = list(outs)
                    outs_mode[id(o2)] = md
                    outsets.append(o2)
            else:
                outsets.append(outs)
        heavy = any(f.startswith('form:wholecol') for f in G.features_of(spec))  # 2^20-row operands: free each partial model before the next
        m = None
        for outs in outsets:
            if heavy:
                import gc
                m = None
                gc.collect()
            keys = [(b, s, r, c) for (b, s, r1, c1, r2, c2) in outs for r in range(r1, r2 + 1) for c in range(c1, c2 + 1)]
            keys = [k for k in keys if k in pop]
            if not keys:
                continue
            form = form_of_path(spec, keys)
            mode = outs_mode.get(id(outs)) or LOAD_MODES[(n + len(spec['cells'])) % 3]
            if mode == 'two-calls' and len(outs) < 2:
                mode = 'no-second-complete'
            form = form if mode == 'finish' else form + '|' + mode
            try:
                m, (flat, conf2) = partial_values(spec, d, outs, mode)
            except sut.Watchdog:
                raise
            except Exception as ex:
                fails.append(('closure|%s|raised:%s' % (form, type(ex).__name__), 'from_ranges(%s): %r' % ([out_name(spec, r) for r in outs], ex)))
                continue
            n += 1
            for k in keys:
                kk = (G.sheet_id(spec, k[0], k[1]), k[2], k[3])
                got = flat.get(kk, 'MISSING')
                ref = flat_full.get(kk, 'MISSING')
                exp = expected.get(k)
                bad = None
                if got == 'MISSING' or ref == 'MISSING':
                    if not (isinstance(exp, sut.Blank)):
                        bad = 'missing'
                elif not X.same(got, ref, 1e-12):
                    bad = 'differs-from-full'
                elif not isinstance(exp, W.Unsure) and not X.same(got, exp, 1e-9):
                    bad = 'differs-from-reference'
                if bad:
                    fails.append(('closure|%s|%s' % (form, bad), 'outputs %s: %s partial=%r full=%r reference=%r' % (
                        [out_name(spec, r) for r in outs], G.node_id(spec, k), got, ref, exp)))
            if form.split('|')[0] not in ('literal', 'cell-same', 'range-same'):
                nts.append(('outs', outs))
            labels.append('path:' + form.split('|')[0])
            labels.append('outs:%d' % min(len(outs), 4))
            labels.append('load:' + mode)
    seen, out = set(), []
    for s_, d_ in fails:
        if s_ not in seen:
            seen.add(s_)
            out.append((s_, d_))
    nt = [G.to_dict(spec), ] and [(str(sorted(G.to_dict(spec).items())), x) for x in nts]
    return R(out, nt=nt, n=n, labels=labels + G.features_of(spec))


def check_case(case):
    if case['k'] == 'spec':
        return check_spec(case)
    raise ValueError(case['k'])


@st.composite
def _outsets(draw, spec):
    pop = sorted(W.populated(spec))
    sets = []
    for _ in range(draw(st.integers(1, 2))):
        outs = []
        for _ in range(draw(st.integers(1, 4))):
            b, s, r, c = draw(st.sampled_from(pop))
            if draw(st.integers(0, 2)) == 0:
                r2 = draw(st.integers(r, min(r + 2, G.MAXR + 1)))
                c2 = draw(st.integers(c, min(c + 2, G.MAXC + 1)))
                outs.append([b, s, r, c, r2, c2])
            else:
                outs.append([b, s, r, c, r, c])
        sets.append(outs)
    return sets


def _specs(tier):
    # links: references to the other book in the numbered form of xlsx files ([k]Sheet!A1 + external link parts)
    return G.specs(tier, max_books=2, wholecols=False, anchor_rate=3, fname_rate=3, fname_names=True, name_rate=3).flatmap(
        lambda spec: st.tuples(_outsets(spec), st.one_of(st.none(), st.integers(0, 7)), st.booleans()).map(
            lambda ol: {'k': 'spec', 'spec': spec, 'singletons': True, 'outsets': ol[0], 'links': ol[1] if len(spec['books']) > 1 else None,
                        'stale': ol[2]}))


def _has_wc(spec):
    return any(f.startswith('form:wholecol') for f in G.features_of(spec))


def _specs_wc(tier):
    return G.specs(tier, max_books=2, wholecols=True, max_cells=8).filter(_has_wc).map(
        lambda spec: {'k': 'spec', 'spec': spec, 'singletons': False,
                      'outsets': [[[c['at'][0], c['at'][1], c['at'][2], c['at'][3], c['at'][2], c['at'][3]]]
                                  for c in spec['cells'] if 'f' in c and 'arr' not in c and 'col' in repr(c['f'])][:2]})


def _multi_array_specs():
    """Fixed shapes (added after seed c15-a): several array formulas on one sheet whose spill cells - not their anchors -
    are crossed by one dependency rectangle of the requested output."""
    out = []
    for n_arr in (2, 3):
        for gap in (1, 2):
            for cross in ('col', 'both'):
                cells = []
                for r in range(1, 13):
                    cells.append({'at': [0, 0, r, 1], 'v': float(r)})
                    cells.append({'at': [0, 0, r, 2], 'v': float(10 * r)})
                top = 1
                for i in range(n_arr):
                    # array formula over C..D, 3 rows, anchored at C<top>: =A<top>:B<top+2>*k
                    cells.append({'at': [0, 0, top, 3], 'f': ['bin', '*', ['rng', [0, 0, top, 1, top + 2, 2]], ['num', float(i + 2)]], 'arr': [top + 2, 4]})
                    top += 3 + gap
                last = top - gap - 1
                # F1 sums column D only (the spill column: no anchor inside), F2 a block starting one row below the first anchor
                cells.append({'at': [0, 0, 1, 6], 'f': ['fn', 'SUM', ['rng', [0, 0, 1, 4, last, 4]]]})
                if cross == 'both':
                    cells.append({'at': [0, 0, 2, 6], 'f': ['fn', 'SUM', ['rng', [0, 0, 2, 3, last, 4]]]})
                cells.append({'at': [0, 0, 3, 6], 'f': ['bin', '+', ['ref', [0, 0, 1, 6]], ['num', 1.0]]})
                spec = {'books': [{'name': 'b0.xlsx', 'sheets': ['S1']}], 'cells': cells, 'names': []}
                outs = [[[0, 0, 1, 6, 1, 6]], [[0, 0, 3, 6, 3, 6]]] + ([[[0, 0, 2, 6, 2, 6]]] if cross == 'both' else [])
                out.append({'k': 'spec', 'spec': spec, 'singletons': False, 'outsets': outs})
    return out


def _name_chain_specs():
    """Fixed shapes (added after seed c15-a-r5): a defined name whose formula uses another defined name (TOTAL = SUM(RATES)),
    in the book of the requested output or in a second book; requested: a cell that reads the name, alone and next to an
    unrelated output."""
    out = []
    for nb in (1, 2):
        for links in ((None,) if nb == 1 else (None, 1)):
            B = nb - 1  # the book holding the names
            books = [{'name': 'b0.xlsx', 'sheets': ['S1']}] + ([{'name': 'b1.xlsx', 'sheets': ['Data']}] if nb == 2 else [])
            cells = [{'at': [B, 0, r, 1], 'v': float(r)} for r in (1, 2, 3)] + [{'at': [0, 0, 1, 5], 'v': 7.0}]
            tot = ['fname', 0, ['fn', 'SUM', ['name', 0]]]
            if nb == 2:
                cells.append({'at': [1, 0, 1, 3], 'f': ['bin', '*', tot, ['num', 2.0]]})
                cells.append({'at': [0, 0, 1, 3], 'f': ['bin', '+', ['ref', [1, 0, 1, 3]], ['num', 1.0]]})
            else:
                cells.append({'at': [0, 0, 1, 3], 'f': ['bin', '*', tot, ['num', 2.0]]})
            cells.append({'at': [0, 0, 2, 5], 'f': ['bin', '+', ['ref', [0, 0, 1, 5]], ['num', 1.0]]})
            spec = {'books': books, 'cells': cells, 'names': [{'name': 'TOTAL_IN', 'rect': [B, 0, 1, 1, 3, 1]}],
                    'fnames': [{'name': G.FNAME_POOL[0], 'f': tot[2], 'book': B}]}
            outs = [[[0, 0, 1, 3, 1, 3]], [[0, 0, 2, 5, 2, 5], [0, 0, 1, 3, 1, 3]]]
            out.append({'k': 'spec', 'spec': spec, 'singletons': False, 'outsets': outs, 'links': links, 'all_modes': True})
    return out


def _spill_outside_specs():
    """Fixed shapes (added after seed c15-b-r3): an array formula whose area runs beyond the rectangle of STORED cells of its
    sheet (only the anchor is stored, as openpyxl writes it); the requested outputs, on another sheet, read cells / ranges that
    lie wholly in that outer part, straddle its border, or lie inside."""
    out = []
    for orient in ('row', 'col'):
        for stale in (False, True):
            D = [0, 1]  # sheet DATA

            def at(i, j):  # i along the spill direction (1..5), j across (1..2)
                return D + ([j, i] if orient == 'row' else [i, j])

            def rect(i1, i2, j):
                return D + ([j, i1, j, i2] if orient == 'row' else [i1, j, i2, j])
            cells = [{'at': at(1, 1), 'v': 3.0}, {'at': at(2, 1), 'v': 4.0}]
            anchor = at(1, 2)
            end = at(5, 2)
            cells.append({'at': anchor, 'f': ['bin', '+', ['rng', rect(1, 5, 1)], ['num', 10.0]], 'arr': end[2:]})
            M = [0, 0]
            cells.append({'at': M + [1, 1], 'f': ['fn', 'SUM', ['rng', rect(4, 5, 2)]]})            # wholly outside the stored rectangle
            cells.append({'at': M + [2, 1], 'f': ['bin', '+', ['ref', at(5, 2)], ['num', 1.0]]})    # one cell outside
            cells.append({'at': M + [3, 1], 'f': ['fn', 'SUM', ['rng', rect(2, 5, 2)]]})            # straddles the border
            cells.append({'at': M + [4, 1], 'f': ['fn', 'SUM', ['rng', rect(1, 2, 2)]]})            # inside
            cells.append({'at': M + [5, 1], 'f': ['bin', '*', ['ref', M + [1, 1]], ['num', 2.0]]})
            spec = {'books': [{'name': 'b0.xlsx', 'sheets': ['MAIN', 'DATA']}], 'cells': cells, 'names': []}
            outs = [[M + [r, 1, r, 1]] for r in (1, 2, 3, 4, 5)] + [[M + [1, 1, 1, 1], M + [4, 1, 4, 1]]]
            out.append({'k': 'spec', 'spec': spec, 'singletons': False, 'outsets': outs, 'stale': stale})
    return out


STRATEGIES = {'specs': _specs, 'wholecol': _specs_wc}


def parts(tier, seed):
    q = tier == 'quick'
    return [
        ('hyp', 'specs', 192 if q else 4000, 6),
        ('hyp', 'wholecol', 4 if q else 160, 1, {'nproc': 6}),
        ('enum', 'multi-array', _multi_array_specs(), 1, False),
        ('enum', 'spill-outside-stored-area', _spill_outside_specs(), 1, False),
        ('enum', 'names-through-names', _name_chain_specs(), 1, False),
    ]
