"""C01 - formulas are parsed according to Excel's operator grammar."""
import re
import itertools

from .. import sut
from ..sut import Err, BLANK, Blank, Foreign
from ..runner import R
from ..gen import trees as T
from ..xlref import core as X
from ..xlref import evaltree as E

ID = 'C01'
RULE = ('E1 (exhaustive): every ordered pair and triple of the 12 binary operators as a chain A1 op B1 op C1 [op D1], bare '
        'and with each single decoration (prefix -, prefix +, postfix %, -..%) on each operand slot; the expected tree comes '
        'from an independent precedence-climbing parser written from Excel\'s operator table. E2 (Hypothesis): random trees '
        'to depth 5 over numbers, text, logicals, errors, cell references (plain, sheet- and workbook-qualified), binary '
        'operators, prefix signs, %, SUM/MIN/MAX/IF/ABS and the harness-registered spy function VFSPY with 0-6 arguments '
        '(empty arguments in any position, parenthesised unions, ranges, array literals 1-3 x 1-3 of signed numbers, text, '
        'logicals, errors); every tree is spelled 3-7 ways (minimal / full / redundant parentheses, blanks and newlines '
        'between tokens, letter case, $ markers, number formats, sign runs kept or broken by parentheses). Per spelling: '
        '(O1) get_expr equals my canonical rendering (not asserted for spellings with a sign run), (O2) the compiled '
        'function equals vf.xlref.evaltree on 4-6 operand assignments (non-commuting numbers; text, logical, blank, error), '
        '(O3) all spellings agree on inputs and values; ExcelModel.to_dict() shows "=" + that expr, (O4) the exported text re-parses to the same expr (unless it contains '
        'a sign run) and the same values. Non-trivial = at least two operators, or a function with an empty / array / union '
        'argument; distinct by canonical expr.')
ASSUMPTIONS = [
    'Excel\'s grammar: comparison < & < + - < * / < ^ < postfix % < prefix sign, equal ranks group left to right; blanks and '
    'line feeds are allowed between any two tokens except between a function name and its "(" (ECMA-376 18.17 formula grammar)',
    'a run of prefix signs may be folded by the parser as long as every value is preserved (shape is not asserted there)',
    'x%% is not asserted (the repository\'s own tests pin it as an invalid token); tabs, a blank before "(", reversed range '
    'corners, nested array literals, leading-zero and dot-terminated numbers are outside the generated language (C18)',
    'function semantics are asserted only inside the domain documented in vf/xlref/evaltree.py; elsewhere only invariance '
    'between spellings is asserted',
]
FLOORS = {
    'nt:rank-mixed': ('count', {'quick': 400, 'thorough': 4000}),
    'nt:rank-equal': ('count', {'quick': 400, 'thorough': 4000}),
    'nt:func-empty-arg': ('count', {'quick': 60, 'thorough': 1000}),
    'nt:func-array-arg': ('count', {'quick': 40, 'thorough': 600}),
    'nt:func-union-arg': ('count', {'quick': 30, 'thorough': 500}),
    'sp:redundant': ('count', {'quick': 150, 'thorough': 2000}),
    'sp:ws': ('count', {'quick': 150, 'thorough': 2000}),
    'sp:newline': ('count', {'quick': 80, 'thorough': 1000}),
    'sp:case': ('count', {'quick': 150, 'thorough': 2000}),
    'sp:run:bin-un': ('count', {'quick': 100, 'thorough': 1000}),
    'sp:run:un-un': ('count', {'quick': 30, 'thorough': 400}),
    'value-asserted': ('count', {'quick': 3000, 'thorough': 40000}),
}

E.install_spy()

# ------------------------------------------------------------------ environments
# rows of values, assigned cyclically to the cells a tree uses (sorted by name)
# numbers: pairwise distinct; the rotations bring an even number (2, 4, 6) to every position, so that a sign moved across
# ^ changes the value, and 0.5 to most (a negative base under a fractional exponent is #NUM!)
_BASE = [2.0, 3.0, 4.0, 7.0, 6.0, 0.5]
NUM_ROWS = [_BASE[i:] + _BASE[:i] for i in (0, 1, 5, 3)]  # the first two rows already put an even number everywhere
KIND_ROWS = [['ab', 3.0, True, 2.0, None, ['E', '#N/A']], [None, ['E', '#DIV/0!'], '4', False, 5.0, 'x'],
             [True, 'B', 2.0, None, ['E', '#NUM!'], 3.0], [3.0, None, 'ab', ['E', '#VALUE!'], True, 2.0]]


def dec(v):
    if v is None:
        return BLANK
    if isinstance(v, list):
        return Err(v[1])
    if isinstance(v, int) and not isinstance(v, bool):
        return float(v)
    return v


def cells_used(tree):
    out = []
    for nm in T.refs_of(tree):
        for row in E.cells_of(nm):
            for c in row:
                if c not in out:
                    out.append(c)
    return sorted(out)


def make_env(cells, row):
    return {c: dec(row[i % len(row)]) for i, c in enumerate(cells)}


# ------------------------------------------------------------------ normalisation
_ERRLIT = re.compile(r'#(?:null!|div/0!|value!|ref!|num!|name\?|n/a)', re.I)


def norm_expr(s):
    """Upper-case error literals outside text literals (how an error literal typed in lower case is printed is not asserted)."""
    parts = re.split(r'("(?:""|[^"])*")', s)
    return ''.join(p if i % 2 else _ERRLIT.sub(lambda m: m.group(0).upper(), p) for i, p in enumerate(parts))


def _strip_quoted(s):
    return re.sub(r'"(?:""|[^"])*"|\'(?:\'\'|[^\'])*\'', 'Q', s)


def export_runs(expr):
    """Sign runs in an exported (fully parenthesised) text: '--A1' / '(A1 + -B1)'."""
    s = _strip_quoted(expr)
    out = set()
    if re.search(r'[+\-][+\-]', s):
        out.add('un-un')
    if re.search(r' [+\-] [+\-]', s):
        out.add('bin-un')
    return out


def value_of(raw):
    m = sut.matrix(raw)
    if len(m) == 1 and len(m[0]) == 1:
        v = m[0][0]
        return 0.0 if isinstance(v, Blank) else v
    return m


def same_value(got, exp):
    if isinstance(exp, list) or isinstance(got, list):
        if not (isinstance(exp, list) and isinstance(got, list)):
            return False
        if len(exp) != len(got) or any(len(a) != len(b) for a, b in zip(got, exp)):
            return False
        return all(X.same(g, e) for gr, er in zip(got, exp) for g, e in zip(gr, er))
    return X.same(got, exp)


def got_class(v):
    if isinstance(v, list):
        return 'array%dx%d' % (len(v), len(v[0]) if v else 0)
    return X.cls(v)


# ------------------------------------------------------------------ classification
def feature_class(feats, exc=None):
    if exc == 'KeyError' and 'lower-error' in feats:
        return 'lower-error'
    # sign runs first: they are the open findings F1/F2; the three spelling features below were findings
    # F31, F3, F-C01-5, now repaired, and must not mask (or be blamed for) a sign-run disagreement
    runs = sorted(f[4:] for f in feats if f in ('run:bin-un', 'run:un-un'))
    if runs:
        return 'run:' + '+'.join(runs)
    for f in ('quoted-sheet-then-book', 'nl-string', 'lower-error'):
        if f in feats:
            return f
    return 'plain'


def op_pattern(tokens):
    out = []
    prev_operand = False
    for tk in tokens:
        if tk in T.RANK and tk not in ('%', 'u'):
            if tk in '+-' and not prev_operand:
                out.append('u')
            else:
                out.append('r%d' % T.RANK[tk])
            prev_operand = False
        elif tk == '%':
            out.append('p')
            prev_operand = True
        elif tk.endswith('(') and len(tk) > 1:
            out.append('f')
            prev_operand = False
        elif tk == '{':
            out.append('a')
            prev_operand = False
        elif tk in ('(', ',', ';'):
            prev_operand = False
        else:
            prev_operand = True
    return ''.join(out[:6]) or 'none'


def value_detail(feats, got):
    if 'run:bin-un' in feats:
        nx = sorted(f.split('next=')[1] for f in feats if f.startswith('run:bin-un:next='))
        return 'next=' + ('^' if '^' in nx else ','.join(nx))
    return got_class(got)


# ------------------------------------------------------------------ the core: one tree, several spellings
def tree_labels(tree):
    ranks, lb = [], set()
    for n in T.walk(tree):
        k = n[0]
        if k == 'bin':
            ranks.append(T.RANK[n[1]])
        elif k in ('neg', 'pos'):
            ranks.append(7)
            lb.add('unary-sign')
        elif k == 'pct':
            ranks.append(6)
            lb.add('percent')
        elif k == 'func':
            lb.add('func')
            if n[1] == E.SPY:
                lb.add('func-spy')
            if not n[2]:
                lb.add('func-0-args')
            for a in n[2]:
                if a[0] == 'empty':
                    lb.add('nt:func-empty-arg')
                elif a[0] == 'arr':
                    lb.add('nt:func-array-arg')
                elif a[0] == 'union':
                    lb.add('nt:func-union-arg')
        elif k == 'arr':
            lb.add('array')
        elif k == 'ref' and len(n) > 2:
            lb.add('sheet-ref')
    if len(ranks) >= 2:
        lb.add('nt:rank-mixed' if len(set(ranks)) > 1 else 'nt:rank-equal')
        if len(set(ranks)) < len(ranks):
            lb.add('nt:rank-equal')
    lb.add('depth:%d' % T.depth(tree) if T.depth(tree) < 4 else 'depth:4-5')
    return lb


def check_tree(tree, spellings, env_rows, export_envs=99, with_model=False):
    """spellings: list of T.Spelled.  -> R"""
    fails, labels = [], set(tree_labels(tree))
    nt = any(l.startswith('nt:') for l in labels)
    cells = cells_used(tree)
    envs = [make_env(cells, r) for r in (env_rows if cells else env_rows[:1])]
    expected = [E.evaluate(tree, env) for env in envs]
    for (v, tags), env in zip(expected, envs):
        labels.add('value-asserted' if v is not None else 'value-outside')
        for tg in tags:
            if tg.startswith('outside:'):
                labels.add(tg)
    pctpct = '%%' in _strip_quoted(T.canon(tree))  # x%% (also -x%% from (-(x%))%) is printed but not re-parsed: not asserted
    n_eval = 0
    seen_inputs, seen_values, exports = {}, {}, {}
    wrapped_done = False

    def fail(sub, feats, detail, msg):
        fails.append(('%s|%s|%s' % (sub, feature_class(feats, detail), detail), msg))

    for sp in spellings:
        feats = sp.feats
        for f in feats:
            if f in ('ws', 'newline', 'case', 'redundant', 'full', 'numfmt', 'absref', 'run:bin-un', 'run:un-un', 'nl-string',
                     'lower-error', 'quoted-sheet-then-book', 'pct-pct', 'run:bin-un:next=^'):
                labels.add('sp:' + f)
        # ---- parse
        try:
            builder = sut.Parser().ast(sp.text)[1]
            got_expr = builder[-1].get_expr
        except sut.Watchdog:
            raise
        except Exception as ex:
            fail('parse', feats, type(ex).__name__, '%r does not parse: %s: %s' % (sp.text, type(ex).__name__, str(ex)[:80].replace('\n', ' ')))
            continue
        # ---- the array-formula spelling {=body} of the same text is the same formula (first spelling of a case only)
        if not wrapped_done and sp.text.startswith('='):
            wrapped_done = True
            labels.add('sp:array-wrapper')
            try:
                e_w = sut.Parser().ast('{' + sp.text + '}')[1][-1].get_expr
            except sut.Watchdog:
                raise
            except Exception as ex:
                fail('parse-wrapped', feats, type(ex).__name__, '%r does not parse although %r does: %s' % ('{' + sp.text + '}', sp.text, type(ex).__name__))
            else:
                if e_w != got_expr:
                    fail('shape-wrapped', feats, op_pattern(sp.tokens), '%r parsed as %s but %r as %s' % ('{' + sp.text + '}', e_w, sp.text, got_expr))
        # ---- O1 shape
        shape_ok = True
        if not T.has_sign_run(feats):
            if norm_expr(got_expr) != sp.expr:
                shape_ok = False
                fail('shape', feats, op_pattern(sp.tokens), '%r parsed as %s, Excel\'s grammar gives %s' % (sp.text, got_expr, sp.expr))
        else:
            labels.add('shape-folded' if norm_expr(got_expr) != sp.expr else 'shape-kept')
        # ---- compile
        try:
            fn = builder.compile()
            in_names = list(fn.inputs)
        except sut.Watchdog:
            raise
        except Exception as ex:
            if all(v is None for v, _ in expected):  # e.g. arrays of incompatible shapes: pinned by the repository's tests
                labels.add('outside:compile-raised')
                continue
            fail('compile', feats, type(ex).__name__, '%r: compile raised %s: %s' % (sp.text, type(ex).__name__, str(ex)[:80]))
            continue
        if fn.__name__ != '=' + got_expr:
            fail('name', feats, 'function-name', '%r: compiled function is named %r, expr is %r' % (sp.text, fn.__name__, got_expr))
        # ---- O2 values
        vals = []
        for env, (exp, tags) in zip(envs, expected):
            args = [E.build_input(nm, env) for nm in in_names]
            if any(a is None for a in args):
                fail('inputs', feats, 'unexpected-input-name', '%r: inputs %r' % (sp.text, in_names))
                vals = None
                break
            n_eval += 1
            try:
                got = value_of(fn(*args))
            except sut.Watchdog:
                raise
            except Exception as ex:
                got = Foreign('raised:%s' % type(ex).__name__)
                if exp is None:
                    vals.append(got)
                    continue
            vals.append(got)
            if exp is not None and not same_value(got, exp):
                fail('value', feats, value_detail(feats, got), '%r with %r -> %r, expected %r (%s)' % (
                    sp.text, env, got, exp, ','.join(sorted(t for t in tags if not t.startswith('display:')))[:120]))
        if vals is None:
            continue
        # ---- O3 invariance between spellings (same tree: same inputs, same values)
        if shape_ok:
            key = tuple(sorted(in_names))
            if seen_inputs and key not in seen_inputs:
                other = next(iter(seen_inputs.values()))
                fail('invariance', feats | other[1], 'inputs', '%r has inputs %r but %r has %r' % (sp.text, in_names, other[0], list(next(iter(seen_inputs)))))
            seen_inputs.setdefault(key, (sp.text, feats))
            for i, g in enumerate(vals):
                if i in seen_values and expected[i][0] is None:
                    txt, f0, g0 = seen_values[i]
                    if not same_value(g, g0) and not same_value(g0, g):
                        fail('invariance', feats | f0, value_detail(feats | f0, g), '%r -> %r but %r -> %r (same tree, %r)' % (sp.text, g, txt, g0, envs[i]))
                else:
                    seen_values[i] = (sp.text, feats, g)
            if not T.has_sign_run(feats):  # a folded sign run exports the folded tree; its values were compared above
                exports.setdefault(got_expr, sp)
    # ---- the third observation point: ExcelModel.to_dict() shows the same fully parenthesised text
    if with_model and exports:
        ex_text, sp = next(iter(exports.items()))
        key = "'[b.xlsx]S'!Z9"
        try:
            shown = sut.ExcelModel().from_dict({key: sp.text}).to_dict().get(key)
        except sut.Watchdog:
            raise
        except Exception as ex:
            shown = 'raised:%s' % type(ex).__name__
        labels.add('to_dict')
        if shown != '=' + ex_text:
            fail('to_dict', sp.feats, 'formula-text', '%r is exported by to_dict() as %r, get_expr is %r' % (sp.text, shown, ex_text))
    # ---- O4 the exported text is one more spelling of the same tree
    if not pctpct:
        for ex_text, sp in exports.items():
            runs = export_runs(ex_text)
            xf = set(sp.feats) & {'nl-string', 'quoted-sheet-then-book', 'lower-error'}
            xf |= {'run:' + r for r in runs}
            try:
                b2 = sut.Parser().ast('=' + ex_text)[1]
                e2 = b2[-1].get_expr
                fn2 = b2.compile()
            except sut.Watchdog:
                raise
            except Exception as ex:
                fail('export-parse', xf, type(ex).__name__, 'exported text %r of %r does not parse: %s' % ('=' + ex_text, sp.text, type(ex).__name__))
                continue
            labels.add('export-reparsed')
            if not runs and e2 != ex_text:
                fail('export-shape', xf, op_pattern(sp.tokens), 'exported text %r re-parses as %r' % (ex_text, e2))
                continue
            if runs:
                labels.add('export-with-sign-run')
            for i, env in enumerate(envs[:export_envs]):
                args = [E.build_input(nm, env) for nm in fn2.inputs]
                if any(a is None for a in args):
                    fail('export-inputs', xf, 'unexpected-input-name', 'exported %r: inputs %r' % (ex_text, list(fn2.inputs)))
                    break
                n_eval += 1
                exp = expected[i][0]
                try:
                    got = value_of(fn2(*args))
                except sut.Watchdog:
                    raise
                except Exception as ex:
                    got = Foreign('raised:%s' % type(ex).__name__)
                ref = exp if exp is not None else (seen_values[i][2] if i in seen_values else None)
                if ref is not None and not same_value(got, ref) and not (exp is None and same_value(ref, got)):
                    if exp is None:
                        # the reference value is what another spelling of the tree gave: a sign run in THAT spelling (open
                        # findings F1/F2) makes the disagreement theirs, exactly as in the invariance oracle above
                        xf = xf | {f for f in seen_values[i][1] if f in ('run:bin-un', 'run:un-un')}
                    fail('export-value', xf, got_class(got), 'exported text %r with %r -> %r, the formula %r gives %r' % (
                        ex_text, env, got, sp.text, ref))
    # one entry per signature is enough for a case
    seen, out = set(), []
    for s, d in fails:
        if s not in seen:
            seen.add(s)
            out.append((s, d))
    if len(spellings) >= 3:
        labels.add('spellings>=3')
    return R(out, nt=[T.canon(tree)] if nt else None, labels=sorted(labels), n=max(n_eval, 1))


# ------------------------------------------------------------------ E1 chains
OPER = [['ref', 'A1'], ['ref', 'B1'], ['ref', 'C1'], ['ref', 'D1']]
DECOS = {'': ([], []), 'n': (['u-'], []), 'p': (['u+'], []), 'c': ([], ['%']), 'nc': (['u-'], ['%'])}


def chain_tokens(ops, deco_slot, deco):
    toks = []
    for i in range(len(ops) + 1):
        pre, post = DECOS[deco] if i == deco_slot else ([], [])
        toks += pre + [OPER[i]] + post
        if i < len(ops):
            toks.append(ops[i])
    return toks


def check_chain(case):
    toks = chain_tokens(case['ops'], case.get('slot', -1), case.get('deco', ''))
    text = T.chain_text(toks)
    tree = T.parse_chain(toks)  # the oracle: precedence climbing from Excel's table
    sp = T.spell(tree, T.MIN)  # the second, independent derivation: minimal-parenthesis speller
    if sp.text != text:
        raise AssertionError('harness self-check: speller gives %r for the tree of chain %r' % (sp.text, text))
    rows = NUM_ROWS[:3] + KIND_ROWS[:2] if case.get('lite') else NUM_ROWS + KIND_ROWS
    r = check_tree(tree, [sp], rows, export_envs=2 if case.get('lite') else 99)
    r['labels'] = sorted(set(r['labels']) | {'chain%d' % len(case['ops']), 'deco:' + (case.get('deco') or 'none')})
    return r


def chains(tier):
    B = T.BINOPS
    q = {'lite': True} if tier == 'quick' else {}
    for o1, o2 in itertools.product(B, B):
        yield dict({'k': 'chain', 'ops': [o1, o2]}, **q)
        for slot in range(3):
            for d in ('n', 'p', 'c', 'nc'):
                yield dict({'k': 'chain', 'ops': [o1, o2], 'slot': slot, 'deco': d}, **q)
    for o in itertools.product(B, B, B):
        yield dict({'k': 'chain', 'ops': list(o)}, **q)
        if tier != 'quick':
            for slot in range(4):
                for d in ('n', 'p', 'c', 'nc'):
                    yield {'k': 'chain', 'ops': list(o), 'slot': slot, 'deco': d}


# ------------------------------------------------------------------ E2 trees
BASE_STYLES = [{'paren': 'min', 'runs': True}, {'paren': 'min', 'runs': False}, {'paren': 'full', 'runs': True}]


def check_random_tree(case):
    tree = case['t']
    sps, texts = [], set()
    for st in BASE_STYLES + list(case.get('sp', [])):
        sp = T.spell(tree, st)
        if sp.text not in texts:
            texts.add(sp.text)
            sps.append(sp)
    rows = NUM_ROWS[:3] + KIND_ROWS[:2] + [list(r) for r in case.get('env', [])]
    r = check_tree(tree, sps, rows, export_envs=3, with_model=True)
    r['labels'] = sorted(set(r['labels']) | {'tree'})
    return r


def check_text(case):
    """A hand-written formula with its tree (examples of findings, regression inputs)."""
    tree = case['t']
    sp = T.Spelled(case['f'], case.get('expr') or T.canon(tree), set(case.get('feats', [])), [])
    return check_tree(tree, [sp], NUM_ROWS + KIND_ROWS)


def check_case(case):
    k = case['k']
    if k == 'chain':
        return check_chain(case)
    if k == 'tree':
        return check_random_tree(case)
    if k == 'text':
        return check_text(case)
    raise ValueError(k)


def _trees(tier):
    from hypothesis import strategies as st
    val = st.one_of(st.sampled_from([0.0, 1.0, -1.0, 2.0, 3.0, 4.0, 0.5, -2.5, 10.0, 100.0]), st.sampled_from(['a', 'B', 'ab', '', '3', ' 2 ', 'TRUE']),
                    st.booleans(), st.none(), st.sampled_from(T.ERRORS).map(lambda e: ['E', e]))
    style = T.styles().flatmap(lambda s: st.booleans().map(lambda b: dict(s, errcase=b and s['case'] != [0])))
    return st.builds(lambda t, sp, env: {'k': 'tree', 't': t, 'sp': sp, 'env': env},
                     T.trees(max_depth=5), st.lists(style, min_size=1, max_size=4),
                     st.lists(st.lists(val, min_size=3, max_size=6), min_size=0, max_size=2))


STRATEGIES = {'trees': _trees}


def parts(tier, seed):
    q = tier == 'quick'
    return [
        ('enum', 'chains', chains(tier), 40, True),
        ('hyp', 'trees', 2000 if q else 48000),
    ]
