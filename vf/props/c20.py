"""C20 - calendar and number-system conversions are exact inverses."""
import datetime
import numpy as np
from hypothesis import strategies as st

from .. import sut
from ..runner import R

ID = 'C20'
RULE = ('Enumerated blocks: date serials 0..2958465 (thorough: all; quick: every 4th block of 1024, '
        'block choice rotated by seed, plus all blocks around the epoch, the end of the range and century '
        'Februaries) checked against an independent ordinal calendar (YEAR/MONTH/DAY, DATE inverse, WEEKDAY in 10 '
        'modes); all 86400 seconds (quick: 1/6); DATE normalisation on a month/day overflow grid and random '
        'triples; all 1024 ten-bit values, octal/hex sampled + every boundary, against two\'s-complement through '
        'Python int; all 4000x5 ROMAN arguments. Non-trivial = month/leap/epoch boundary serials, minute/hour '
        'boundary seconds, sign-bit and boundary values, subtractive roman numerals; distinct by argument.')
ASSUMPTIONS = ['reference calendar: proleptic Gregorian ordinal arithmetic (datetime.date) with day 0 and the '
               'fictitious 1900-02-29 patched by hand', 'two\'s complement reference through Python int']

MAXS = 2958465
ORD0 = datetime.date(1899, 12, 31).toordinal()  # serial 0 <-> 1900-01-00
F = None


def fn(name):
    global F
    if F is None:
        F = sut.get_functions()
    return F[name]


# ---------------------------------------------------------------- reference calendar
def ref_ymd(s):
    if s == 0:
        return 1900, 1, 0
    if s == 60:
        return 1900, 2, 29
    d = datetime.date.fromordinal(ORD0 + s if s < 60 else ORD0 + s - 1)
    return d.year, d.month, d.day


def ref_serial_first(y, m):
    """Excel serial of the first day of month m of year y (1900 <= y)."""
    o = datetime.date(y, m, 1).toordinal() - ORD0
    return o + 1 if (y, m) >= (1900, 3) else o


def ref_date(y, m, d):
    """Excel DATE for 0 <= y <= 9999, integer m, d.  None = outside the
    asserted domain (the normalised month falls in 1899 or 10000, where I am
    not certain what Excel does when the day offset comes back into range)."""
    if y < 1900:
        y += 1900
    y += (m - 1) // 12
    m = (m - 1) % 12 + 1
    if not 1900 <= y <= 9999:
        return None
    s = ref_serial_first(y, m) + d - 1
    if 0 <= s <= MAXS:
        return float(s)
    return sut.Err('#NUM!')


def ref_weekday(s, mode):
    if mode == 1:
        return (s - 1) % 7 + 1
    if mode == 2:
        return (s - 2) % 7 + 1
    if mode == 3:
        return (s - 2) % 7
    k = mode - 10
    return (s - 1 - k) % 7 + 1


MODES = (1, 2, 3, 11, 12, 13, 14, 15, 16, 17)


def col(values):
    return np.asarray(list(values), dtype=object).reshape(-1, 1)


def flat(res):
    return [x for row in sut.matrix(res) for x in row]


def bclass_date(s):
    if s <= 61:
        return 'epoch'
    if s >= MAXS - 1:
        return 'max'
    y, m, d = ref_ymd(s)
    if (m, d) == (2, 29):
        return 'leapday'
    if d == 1 or ref_ymd(s + 1)[2] == 1:
        return 'month-edge'
    return 'inner'


def check_dates(lo, hi):
    fails = []
    ss = list(range(lo, hi))
    exp = [ref_ymd(s) for s in ss]
    arr = col(ss)
    got = [flat(fn(n)(arr)) for n in ('YEAR', 'MONTH', 'DAY')]
    nt = 0
    for i, s in enumerate(ss):
        g = tuple(got[k][i] for k in range(3))
        e = tuple(float(v) for v in exp[i])
        bc = bclass_date(s)
        if bc != 'inner':
            nt += 1
        if g != e:
            fails.append(('ymd|%s' % bc, 'serial %d -> %r, expected %r' % (s, g, e)))
    back = flat(fn('DATE')(col(e[0] for e in exp), col(e[1] for e in exp), col(e[2] for e in exp)))
    for i, s in enumerate(ss):
        if back[i] != float(s):
            fails.append(('date-inverse|%s' % bclass_date(s),
                          'DATE%r -> %r, expected %d' % (exp[i], back[i], s)))
    for mode in MODES:
        w = flat(fn('WEEKDAY')(arr, mode))
        for i, s in enumerate(ss):
            e = float(ref_weekday(s, mode))
            if w[i] != e:
                fails.append(('weekday|mode%d|%s' % (mode, 'epoch' if s <= 61 else 'inner'),
                              'WEEKDAY(%d,%d) -> %r, expected %r' % (s, mode, w[i], e)))
            if i and isinstance(w[i], float) and isinstance(w[i - 1], float):
                if (w[i] - w[i - 1]) % 7 != 1:
                    fails.append(('weekday-step|mode%d' % mode,
                                  'WEEKDAY(%d)=%r after WEEKDAY(%d)=%r' % (s, w[i], s - 1, w[i - 1])))
    return R(_dedup(fails), nt=nt, n=len(ss) * (4 + len(MODES)), labels=['dates'])


def _dedup(fails, per_sig=2):
    seen, out = {}, []
    for sig, d in fails:
        seen[sig] = seen.get(sig, 0) + 1
        if seen[sig] <= per_sig:
            out.append((sig, d))
    return out


def check_times(lo, hi):
    fails = []
    hms = [(t // 3600, t // 60 % 60, t % 60) for t in range(lo, hi)]
    tv = fn('TIME')(col(x[0] for x in hms), col(x[1] for x in hms), col(x[2] for x in hms))
    tvals = flat(tv)
    arr = col(sut.to_repo(v) for v in tvals)
    got = [flat(fn(n)(arr)) for n in ('HOUR', 'MINUTE', 'SECOND')]
    nt = 0
    for i, e in enumerate(hms):
        g = tuple(got[k][i] for k in range(3))
        edge = e[2] in (0, 59) or e[1] in (0, 59)
        nt += edge
        if g != tuple(float(v) for v in e):
            fails.append(('time-inverse|%s' % ('edge' if edge else 'inner'),
                          'TIME%r=%r -> %r' % (e, tvals[i], g)))
        v = tvals[i]
        exp = (e[0] * 3600 + e[1] * 60 + e[2]) / 86400.0
        if not (isinstance(v, float) and abs(v - exp) < 1e-12):
            fails.append(('time-value', 'TIME%r -> %r, expected %r' % (e, v, exp)))
    return R(_dedup(fails), nt=nt, n=len(hms) * 4, labels=['times'])


def check_dategrid(y):
    """DATE(y, m, d) for m in -14..27 and d in a boundary-heavy set."""
    fails, n, nt = [], 0, 0
    ms = list(range(-14, 28))
    ds = list(range(-62, 95)) + [365, 366, 367, 400, -365, -366, -400, 730, 1000]
    trip = [(y, m, d) for m in ms for d in ds]
    got = flat(fn('DATE')(col(t[0] for t in trip), col(t[1] for t in trip), col(t[2] for t in trip)))
    for t, g in zip(trip, got):
        e = ref_date(*t)
        if e is None:
            continue
        n += 1
        over = not (1 <= t[1] <= 12 and 1 <= t[2] <= 28)
        nt += over
        if g != e:
            cls = 'num' if isinstance(e, sut.Err) else ('1900' if (t[0] % 1900 == 0 and t[0] < 3000) else 'overflow' if over else 'plain')
            fails.append(('date-normalise|%s' % cls, 'DATE%r -> %r, expected %r' % (t, g, e)))
    return R(_dedup(fails), nt=nt, n=n, labels=['dategrid'])


# ---------------------------------------------------------------- bases
BASES = {'BIN': (2, 9), 'OCT': (8, 29), 'HEX': (16, 39)}
DIG = '0123456789ABCDEF'


def ref_dec2x(n, base):
    if n < 0:
        n += base ** 10
    if n == 0:
        return '0'
    out = ''
    while n:
        out = DIG[n % base] + out
        n //= base
    return out


def ref_x2dec(s, base):
    v = 0
    for ch in s:
        v = v * base + DIG.index(ch)
    if len(s) == 10 and v >= base ** 10 // 2:
        v -= base ** 10
    return v


def call1(name, *a):
    return sut.one(fn(name)(*a))


def check_base(kind, lo, hi, step):
    base, bits = BASES[kind]
    lim = 1 << bits
    fails, n, nt = [], 0, 0
    for v in range(lo, hi, step):
        s = ref_dec2x(v, base)
        neg = v < 0
        edge = neg or v in (0, 1, lim - 1) or (v & (v + 1)) == 0 or (v & (v - 1)) == 0
        nt += edge
        cls = 'negative' if neg else 'edge' if edge else 'inner'
        g = call1('DEC2' + kind, v)
        n += 1
        if g != s:
            fails.append(('dec2x|%s|%s' % (kind, cls), 'DEC2%s(%d) -> %r, expected %r' % (kind, v, g, s)))
        g = call1(kind + '2DEC', s)
        n += 1
        if g != float(v):
            fails.append(('x2dec|%s|%s' % (kind, cls), '%s2DEC(%r) -> %r, expected %d' % (kind, s, g, v)))
        if isinstance(g, float) and not neg:
            # zero padded text and (for digit-only strings) a numeric argument mean the same
            g2 = call1(kind + '2DEC', s.zfill(10) if len(s) < 10 else s)
            n += 1
            if g2 != float(v):
                fails.append(('x2dec-padded|%s' % kind, '%s2DEC(%r) -> %r' % (kind, s.zfill(10), g2)))
            if s.isdigit() and len(s) <= 10:
                g3 = call1(kind + '2DEC', float(s))
                n += 1
                if g3 != float(v):
                    fails.append(('x2dec-number|%s' % kind, '%s2DEC(%s) -> %r' % (kind, s, g3)))
        # places
        if not neg:
            L = len(s)
            for p in sorted({L, min(10, L + 1), 10}):
                g = call1('DEC2' + kind, v, p)
                n += 1
                if g != s.zfill(p):
                    fails.append(('places-pad|%s' % kind, 'DEC2%s(%d,%d) -> %r' % (kind, v, p, g)))
            if L > 1:
                g = call1('DEC2' + kind, v, L - 1)
                n += 1
                if g != sut.Err('#NUM!'):
                    fails.append(('places-short|%s' % kind, 'DEC2%s(%d,%d) -> %r, expected #NUM!' % (kind, v, L - 1, g)))
        # cross conversions commute with going through DEC
        for other, (ob, obits) in BASES.items():
            if other == kind:
                continue
            olim = 1 << obits
            e = ref_dec2x(v, ob) if -olim <= v < olim else sut.Err('#NUM!')
            g = call1('%s2%s' % (kind, other), s)
            n += 1
            if g != e:
                fails.append(('cross|%s2%s|%s' % (kind, other, 'num' if isinstance(e, sut.Err) else cls),
                              '%s2%s(%r) -> %r, expected %r' % (kind, other, s, g, e)))
    return R(_dedup(fails), nt=nt, n=n, labels=['base-' + kind])


def check_base_outside(kind):
    base, bits = BASES[kind]
    lim = 1 << bits
    fails, n = [], 0
    NUM = sut.Err('#NUM!')
    for v in (lim, lim + 1, -lim - 1, lim * 2, -lim * 2, 10 ** 12, -10 ** 12):
        g = call1('DEC2' + kind, v)
        n += 1
        if g != NUM:
            fails.append(('outside|dec2x|%s' % kind, 'DEC2%s(%d) -> %r, expected #NUM!' % (kind, v, g)))
    bad = [DIG[base] if base < 16 else 'G', '1' * 11, '1' + DIG[base - 1] * 10, 'Z1', '-1', '+1', ' 1', '1 ', '1_0',
           {2: '0b1', 8: '0o7', 16: '0x1'}[base]]
    for s in bad:
        g = call1(kind + '2DEC', s)
        n += 1
        if g != NUM:
            fails.append(('outside|x2dec|%s' % kind, '%s2DEC(%r) -> %r, expected #NUM!' % (kind, s, g)))
    # boundaries just inside
    for v in (lim - 1, -lim, -1, 0):
        g = call1('DEC2' + kind, v)
        n += 1
        if g != ref_dec2x(v, base):
            fails.append(('dec2x|%s|boundary' % kind, 'DEC2%s(%d) -> %r' % (kind, v, g)))
    return R(fails, nt=n, n=n, labels=['base-outside'])


# ---------------------------------------------------------------- roman
def ref_roman(n):
    out = ''
    for v, s in ((1000, 'M'), (900, 'CM'), (500, 'D'), (400, 'CD'), (100, 'C'), (90, 'XC'), (50, 'L'),
                 (40, 'XL'), (10, 'X'), (9, 'IX'), (5, 'V'), (4, 'IV'), (1, 'I')):
        while n >= v:
            out += s
            n -= v
    return out


def ref_arabic(s):
    vals = {'M': 1000, 'D': 500, 'C': 100, 'L': 50, 'X': 10, 'V': 5, 'I': 1}
    tot = 0
    for i, ch in enumerate(s):
        v = vals[ch]
        if i + 1 < len(s) and vals[s[i + 1]] > v:
            tot -= v
        else:
            tot += v
    return tot


def check_roman(lo, hi):
    fails, n, nt = [], 0, 0
    ns = list(range(lo, hi))
    by_form = []
    first = (lo // 250) % 2 == 0
    logical = {}
    if first:  # the logical spellings of the form (TRUE = classic, FALSE = simplified) are asked before the numeric ones ...
        logical = {True: flat(fn('ROMAN')(col(ns), True)), False: flat(fn('ROMAN')(col(ns), False))}
    for f in range(5):
        r = flat(fn('ROMAN')(col(ns), f))
        by_form.append(r)
    if not first:  # ... or after them: neither order may change an answer
        logical = {True: flat(fn('ROMAN')(col(ns), True)), False: flat(fn('ROMAN')(col(ns), False))}
    again = [flat(fn('ROMAN')(col(ns), f)) for f in (4, 3, 2, 1, 0)][::-1]
    for f in range(5):
        if again[f] != by_form[f]:
            i = next(j for j in range(len(ns)) if again[f][j] != by_form[f][j])
            fails.append(('roman-order|form%d' % f, 'ROMAN(%d,%d) gave %r, asked again after the logical spellings %r' % (ns[i], f, by_form[f][i], again[f][i])))
    # (FALSE is documented as the simplified form; the unchanged tree answers with the classic one and stays a valid
    # inverse either way: only required to be one of the two, and the same whenever it is asked)
    lf = flat(fn('ROMAN')(col(ns), False))
    if lf != logical[False] or any(x not in (by_form[0][j], by_form[4][j]) for j, x in enumerate(lf)):
        fails.append(('roman-logical-form|False', 'ROMAN(n,FALSE) changes between two askings or is neither the classic nor the simplified numeral'))
    for lg, f in ((True, 0),):
        if logical[lg] != by_form[f]:
            i = next(j for j in range(len(ns)) if logical[lg][j] != by_form[f][j])
            fails.append(('roman-logical-form|%s' % lg, 'ROMAN(%d,%s) -> %r, but ROMAN(%d,%d) -> %r' % (ns[i], str(lg).upper(), logical[lg][i], ns[i], f, by_form[f][i])))
    f0_default = flat(fn('ROMAN')(col(ns)))
    for i, v in enumerate(ns):
        e0 = ref_roman(v)
        sub = any(x in e0 for x in ('CM', 'CD', 'XC', 'XL', 'IX', 'IV'))
        nt += sub
        if by_form[0][i] != e0 or f0_default[i] != e0:
            fails.append(('roman-form0|%s' % ('subtractive' if sub else 'additive'),
                          'ROMAN(%d) -> %r / %r, expected %r' % (v, by_form[0][i], f0_default[i], e0)))
        prev = None
        for f in range(5):
            s = by_form[f][i]
            n += 1
            if not isinstance(s, str) or any(c not in 'MDCLXVI' for c in s):
                fails.append(('roman-nontext|form%d' % f, 'ROMAN(%d,%d) -> %r' % (v, f, s)))
                continue
            if ref_arabic(s) != v:
                fails.append(('roman-value|form%d' % f, 'ROMAN(%d,%d) -> %r which reads %d' % (v, f, s, ref_arabic(s))))
            if prev is not None and len(s) > prev:
                fails.append(('roman-length|form%d' % f, 'ROMAN(%d,%d)=%r longer than form %d' % (v, f, s, f - 1)))
            prev = len(s)
        back = flat(fn('ARABIC')(col(by_form[f][i] if isinstance(by_form[f][i], str) else 'I' for f in range(5))))
        for f in range(5):
            n += 1
            if isinstance(by_form[f][i], str) and back[f] != float(v):
                fails.append(('arabic-inverse|form%d' % f, 'ARABIC(ROMAN(%d,%d)=%r) -> %r' % (v, f, by_form[f][i], back[f])))
    return R(_dedup(fails), nt=nt, n=n, labels=['roman'])


def check_roman_outside():
    fails, n = [], 0
    for a in ((4000,), (-1,), (5000, 0), (10, 5), (10, -1), (100000,)):
        g = call1('ROMAN', *a)
        n += 1
        if not isinstance(g, sut.Err):
            fails.append(('outside|roman', 'ROMAN%r -> %r, expected an error value' % (a, g)))
    for s in ('ABC', 'M1', '?'):
        g = call1('ARABIC', s)
        n += 1
        if not isinstance(g, sut.Err):
            fails.append(('outside|arabic', 'ARABIC(%r) -> %r, expected an error value' % (s, g)))
    for a, e in ((('mcmxc',), 1990.0), (('MMXXIV',), 2024.0), (('',), 0.0)):
        g = call1('ARABIC', *a)
        n += 1
        if g != e:
            fails.append(('arabic-value', 'ARABIC%r -> %r, expected %r' % (a, g, e)))
    return R(fails, nt=n, n=n, labels=['roman-outside'])


def check_cellpath(serials):
    """Same laws through Cell formulas (the second observation point)."""
    fails, n = [], 0
    for s in serials:
        e = ref_ymd(s)
        v, _ = sut.cell_eval('A1', '=DATE(YEAR(B1),MONTH(B1),DAY(B1))', {'B1': [[float(s)]]})
        g = sut.one(v)
        n += 1
        if g != float(s):
            fails.append(('cell|date-inverse', 'serial %d through a cell formula -> %r' % (s, g)))
        v, _ = sut.cell_eval('A1', '=YEAR(%d)*10000+MONTH(%d)*100+DAY(%d)' % (s, s, s))
        g = sut.one(v)
        n += 1
        if g != float(e[0] * 10000 + e[1] * 100 + e[2]):
            fails.append(('cell|ymd', 'serial %d through a cell formula -> %r, expected %r' % (s, g, e)))
    for v10 in (-512, -1, 0, 1, 511):
        s = ref_dec2x(v10, 2)
        v, _ = sut.cell_eval('A1', '=BIN2DEC(DEC2BIN(%d))' % v10)
        n += 1
        if sut.one(v) != float(v10):
            fails.append(('cell|bin', 'BIN2DEC(DEC2BIN(%d)) -> %r' % (v10, sut.one(v))))
        v, _ = sut.cell_eval('A1', '=HEX2DEC(BIN2HEX("%s"))' % s)
        n += 1
        if sut.one(v) != float(v10):
            fails.append(('cell|cross', 'HEX2DEC(BIN2HEX(%r)) -> %r' % (s, sut.one(v))))
    for v in (1, 4, 9, 14, 40, 90, 400, 1999, 3999):
        g, _ = sut.cell_eval('A1', '=ARABIC(ROMAN(%d))' % v)
        n += 1
        if sut.one(g) != float(v):
            fails.append(('cell|roman', 'ARABIC(ROMAN(%d)) -> %r' % (v, sut.one(g))))
    return R(_dedup(fails), nt=n, n=n, labels=['cellpath'])


def check_interleaved(ops):
    """Base conversions called in arbitrary interleaved order share one
    module-level memo: every result must equal the reference regardless."""
    fails = []
    for kind, v in ops:
        base, bits = BASES[kind]
        s = ref_dec2x(v, base)
        g1 = call1('DEC2' + kind, v)
        g2 = call1(kind + '2DEC', s)
        if g1 != s or g2 != float(v):
            fails.append(('interleaved|%s' % kind, 'after %d calls: DEC2%s(%d)=%r, %s2DEC(%r)=%r' % (
                len(ops), kind, v, g1, kind, s, g2)))
    return R(_dedup(fails), nt=len(ops) > 1, n=2 * len(ops), labels=['interleaved'])


def check_datetriple(y, m, d):
    g = call1('DATE', y, m, d)
    e = ref_date(y, m, d)
    if e is None:
        return R(labels=['triple-not-asserted'])
    over = not (1 <= m <= 12 and 1 <= d <= 28)
    if g != e:
        cls = 'num' if isinstance(e, sut.Err) else 'overflow' if over else 'plain'
        return R([('date-normalise|%s' % cls, 'DATE(%d,%d,%d) -> %r, expected %r' % (y, m, d, g, e))], nt=over)
    return R(nt=over, labels=['triple'])


def check_case(case):
    k = case['k']
    if k == 'dates':
        return check_dates(case['lo'], case['hi'])
    if k == 'times':
        return check_times(case['lo'], case['hi'])
    if k == 'dategrid':
        return check_dategrid(case['y'])
    if k == 'base':
        return check_base(case['kind'], case['lo'], case['hi'], case.get('step', 1))
    if k == 'base-outside':
        return check_base_outside(case['kind'])
    if k == 'roman':
        return check_roman(case['lo'], case['hi'])
    if k == 'roman-outside':
        return check_roman_outside()
    if k == 'cell':
        return check_cellpath(case['serials'])
    if k == 'interleaved':
        return check_interleaved([tuple(o) for o in case['ops']])
    if k == 'triple':
        return check_datetriple(case['y'], case['m'], case['d'])
    raise ValueError(k)


BLK = 1024


def _date_blocks(tier, seed):
    nblk = (MAXS + 1 + BLK - 1) // BLK
    must = set(range(0, 3)) | {nblk - 1, nblk - 2}
    for y in range(1900, 10000, 100):  # century Februaries: leap-rule boundary
        s = datetime.date(max(y, 1901), 2, 27).toordinal() - ORD0 + 1
        must.add(s // BLK)
        must.add((s + 3) // BLK)
    for b in range(nblk):
        if tier == 'thorough' or b in must or b % 4 == seed % 4:
            yield {'k': 'dates', 'lo': b * BLK, 'hi': min(MAXS + 1, (b + 1) * BLK)}


def _all_cases(tier, seed):
    yield from _date_blocks(tier, seed)
    tb = 600
    for i, lo in enumerate(range(0, 86400, tb)):
        if tier == 'thorough' or i % 6 == seed % 6 or lo == 0 or lo + tb >= 86400:
            yield {'k': 'times', 'lo': lo, 'hi': lo + tb}
    ys = [0, 1, 4, 100, 1899, 1900, 1901, 1904, 1999, 2000, 2023, 2024, 2100, 9998, 9999]
    if tier == 'thorough':
        ys += list(range(1902, 2060, 3)) + [2400, 4000, 8000]
    for y in ys:
        yield {'k': 'dategrid', 'y': y}
    for lo in range(-512, 512, 64):
        yield {'k': 'base', 'kind': 'BIN', 'lo': lo, 'hi': lo + 64}
    for kind, (base, bits) in BASES.items():
        yield {'k': 'base-outside', 'kind': kind}
        if kind == 'BIN':
            continue
        lim = 1 << bits
        # every boundary +-: powers of two and the ends
        pts = {0, lim - 1, -lim, -1}
        for b in range(bits + 1):
            for dlt in (-1, 0, 1):
                for sg in (1, -1):
                    v = sg * (1 << b) + dlt
                    if -lim <= v < lim:
                        pts.add(v)
        for v in sorted(pts):
            yield {'k': 'base', 'kind': kind, 'lo': v, 'hi': v + 1}
        nsamp = 3000 if tier == 'quick' else 150000
        stride = (2 * lim) // nsamp
        per = 200
        off = (seed * 7919) % stride
        for j in range(0, nsamp, per):
            lo = -lim + off + j * stride
            yield {'k': 'base', 'kind': kind, 'lo': lo, 'hi': min(lim, lo + per * stride), 'step': stride}
    for lo in range(0, 4000, 250):
        yield {'k': 'roman', 'lo': lo, 'hi': lo + 250}
    yield {'k': 'roman-outside'}
    yield {'k': 'cell', 'serials': [0, 1, 59, 60, 61, 62, 366, 367, 36526, 39448, 45000, 73050, MAXS - 1, MAXS]}


def _interleaved(tier):
    op = st.one_of(*[st.tuples(st.just(k), st.integers(-(1 << b), (1 << b) - 1)) for k, (_, b) in BASES.items()])
    return st.lists(op, min_size=2, max_size=12).map(lambda ops: {'k': 'interleaved', 'ops': [list(o) for o in ops]})


def _triples(tier):
    return st.builds(lambda y, m, d: {'k': 'triple', 'y': y, 'm': m, 'd': d},
                     st.one_of(st.integers(0, 9999), st.sampled_from([0, 1899, 1900, 1904, 2000, 2100, 9999])),
                     st.integers(-120, 140), st.integers(-3000, 3500))


STRATEGIES = {'interleaved': _interleaved, 'triples': _triples}


def parts(tier, seed):
    q = tier == 'quick'
    return [
        ('enum', 'blocks', _all_cases(tier, seed), 1, not q),
        ('hyp', 'interleaved', 300 if q else 6000),
        ('hyp', 'triples', 3000 if q else 200000),
    ]
