"""C05 - array evaluation is the scalar rule lifted element-wise and fitted."""
import os
import random
import itertools
from hypothesis import strategies as st

from .. import sut
from ..sut import Err, BLANK, Blank, Foreign
from ..runner import R
from ..xlref import core as X
from ..xlref import c05_lift as L

ID = 'C05'
RULE = ('FIT: every value shape in {scalar} + {1..4}^2 x every destination shape in {1..4}^2 (two origins) x 8 observation '
        'points (Cell(ref, f) with f an array literal / a range reference / an operator result / a scalar, and '
        'Ranges().push(ref, v).value with v an Array / ndarray / nested list / Ranges / bare scalar), elements of every kind. '
        'LIFT: 12 binary + 3 unary operators and ~60 element-wise functions x all Excel-compatible combinations of argument '
        'shapes from {scalar, 1x1, 1xn, mx1, mxn}, m,n<=4 (all 100 pairs for every operator; thorough: all pairs for every 2-argument function and all 484 triples for IF, quick: samples of them) x arguments given as array '
        'literals, range inputs or mixed x elements of every kind (numbers, numeric/other text, logicals, blanks, the 7 errors) '
        'x destinations (result shape, larger, repeated, truncating). MANY: CONCATENATE / IFS / SWITCH with 1..40 arguments, a '
        'core call padded with neutral arguments across the 31/32 boundary. Oracles: (a) the same function called once per '
        'element with scalar cells (=F(B10,G10,..) through a Dispatcher), (b) vf/xlref/c05_lift (own broadcasting, fit and '
        'scalar rules of operators, IF, IFS, SWITCH, IFERROR, IFNA, CONCATENATE, NOT, ABS, SIGN, INT, SQRT, LEN, UPPER, LOWER), '
        '(c) many-argument call == few-argument call. Non-trivial = >=2 non-scalar arguments of different orientation, or '
        'destination shape != result shape, or >=32 arguments; distinct by (function, argument shapes, destination, observation point).')
RULE += (' FIT-WHOLE-ROWS: value shapes that do not truncate x destinations 1:1, 1:2, 3:3, 2:4 (16384 columns) x 5 observation points: shape, first six and last column.')
ASSUMPTIONS = ['a 1x1 array or single-cell range behaves like a scalar in broadcasting and fitting',
               'incompatible shapes (two different non-1 row or column counts) are not generated: the repo raises BroadcastError '
               'and its own test_invalid pins that',
               'scalar rules of functions are taken from the repo itself (one call per element); the independent xlref rules are '
               'asserted only where Excel\'s rule is unambiguous (text conditions, IFERROR with blanks, SWITCH over mixed kinds, '
               'general-format number display are not asserted)',
               'Ranges().push(ref, plain list/ndarray/Ranges) whose element count equals the destination\'s but whose shape differs '
               'is not asserted (the repo re-flows it and its own tests feed inputs that way); a plain multi-cell value or range '
               'operand stored into a single cell is not asserted (implicit intersection)',
               'blank elements can only be supplied through range inputs (array literals cannot hold blanks); a formula result '
               'that is a blank shows as 0']
WATCHDOG_S = 60

# --------------------------------------------------------------------------
# values <-> JSON
# --------------------------------------------------------------------------
ERRS = [Err(e) for e in sut.ERRORS]
NUMS = [0.0, 1.0, -1.0, 2.0, 3.0, 0.5, -2.5, 10.0, 4.0, 100.0, 1e200, 7.0]
NUMTEXT = ['3', ' 3 ', '-1.5']
TEXT = ['abc', 'a', 'A', '', 'x y', 'B']
GEN = NUMS + NUMTEXT + TEXT + [True, False, BLANK] + ERRS
POOLS = {
    'any': GEN,
    'num': NUMS * 3 + NUMTEXT + ['abc', True, False, BLANK] + ERRS[:3] + [Err('#N/A')],
    'pos': [1.0, 2.0, 3.0, 0.5, 10.0, 4.0, 100.0, 7.0] * 3 + [0.0, -1.0, 'abc', True, BLANK, Err('#N/A'), Err('#DIV/0!')],
    'unit': [0.0, 0.5, -0.5, 1.0, -1.0, 0.25] * 3 + [2.0, 'abc', True, BLANK, Err('#N/A'), Err('#NUM!')],
    'digits': [0.0, 1.0, 2.0, -1.0, 3.0] * 3 + [True, BLANK, 'a', Err('#N/A'), Err('#VALUE!')],
    'count': [0.0, 1.0, 2.0, 3.0, 5.0] * 3 + [-1.0, True, BLANK, 'a', '2', Err('#N/A'), Err('#REF!')],
    'text': ['abc', 'a', 'A', '', 'x y', 'B', 'abcabc', ' pad ', 'Hello World'] * 2 + [1.0, -2.5, 12345.0, True, False, BLANK]
            + [Err('#N/A'), Err('#NAME?'), Err('#NULL!')],
    'cond': [True, False, 1.0, 0.0, 2.0, BLANK] * 3 + ['abc', 'TRUE', ''] + ERRS[:4] + [Err('#N/A')],
    'serial': [1.0, 59.0, 60.0, 61.0, 36526.0, 43831.5, 0.75, 2958465.0] * 2 + [-1.0, 'abc', True, BLANK, Err('#N/A'), Err('#NUM!')],
    'year': [1900.0, 1999.0, 2020.0, 2024.0, 0.0] * 2 + [10000.0, 'a', BLANK, Err('#N/A')],
    'month': [1.0, 2.0, 12.0, 13.0, 0.0, -1.0] * 2 + [True, 'a', BLANK, Err('#VALUE!')],
    'hms': [0.0, 1.0, 12.0, 59.0, 60.0, 23.0] * 2 + [-1.0, 40000.0, 'a', BLANK, Err('#N/A')],
    'code': [65.0, 97.0, 48.0, 32.0, 200.0] * 2 + [0.0, 256.0, 'a', BLANK, Err('#N/A')],
}

FUNCS = {}


def _f(names, fam, *pools, opt=0):
    """opt = number of trailing optional arguments"""
    for n in names.split():
        FUNCS[n] = {'fam': fam, 'pools': list(pools), 'opt': opt}


_f('ABS SIGN INT EVEN ODD EXP SIN COS TAN ATAN SINH ASINH DEGREES RADIANS', 'math1', 'num')
_f('SQRT LN LOG10 FACT', 'math1', 'pos')
_f('ACOS ASIN ATANH', 'math1', 'unit')
_f('ATAN2 MOD POWER', 'math2', 'num', 'num')
_f('CEILING FLOOR', 'math2', 'num', 'pos')
_f('ROUND ROUNDUP ROUNDDOWN', 'math2', 'num', 'digits')
_f('TRUNC', 'math2', 'num', 'digits', opt=1)
_f('LOG', 'math2', 'pos', 'pos', opt=1)
_f('LEN LOWER UPPER TRIM CODE', 'text1', 'text')
_f('VALUE', 'text1', 'num')
_f('CHAR', 'text1', 'code')
_f('LEFT RIGHT', 'text2', 'text', 'count', opt=1)
_f('FIND SEARCH', 'text3', 'text', 'text', 'count', opt=1)
_f('MID', 'text3', 'text', 'count', 'count')
_f('REPLACE', 'text3', 'text', 'count', 'count', 'text')
_f('SUBSTITUTE', 'text3', 'text', 'text', 'text', 'count', opt=1)
_f('NOT', 'logic', 'cond')
_f('IF', 'logic', 'cond', 'any', 'any', opt=1)
_f('IFERROR IFNA', 'logic', 'any', 'any')
_f('DAY MONTH YEAR HOUR MINUTE SECOND', 'date1', 'serial')
_f('WEEKDAY', 'date1', 'serial', 'count', opt=1)
_f('DATE', 'date3', 'year', 'month', 'hms')
_f('TIME', 'date3', 'hms', 'hms', 'hms')
VARIADIC = ('CONCATENATE', 'IFS', 'SWITCH')
FAM = {n: d['fam'] for n, d in FUNCS.items()}
FAM.update({n: 'variadic' for n in VARIADIC})
BIN = ['+', '-', '*', '/', '^', '&', '=', '<>', '<', '>', '<=', '>=']
UN = ['u-', 'u+', '%']
for _o in BIN:
    FAM[_o] = 'arith' if _o in '+-*/' else 'pow' if _o == '^' else 'concat' if _o == '&' else 'cmp'
for _o in UN:
    FAM[_o] = 'unary'
OPPOOL = {'arith': 'any', 'pow': 'num', 'concat': 'any', 'cmp': 'any', 'unary': 'any'}
NOMATCH = '~nomatch~'


def enc(v):
    if isinstance(v, Err):
        return {'e': v.t}
    if isinstance(v, Blank):
        return None
    if isinstance(v, list):
        return [[enc(x) for x in row] for row in v]
    return v


def dec(v):
    if v is None:
        return BLANK
    if isinstance(v, dict):
        return Err(v['e'])
    if isinstance(v, list):
        return [[dec(x) for x in row] for row in v]
    if isinstance(v, int) and not isinstance(v, bool):
        return float(v)
    return v


def kinds_of(v):
    if isinstance(v, list):
        return {X.kind(x) for row in v for x in row}
    return {X.kind(v)}


# --------------------------------------------------------------------------
# sheet layout and formula text
# --------------------------------------------------------------------------
COLS = 'ABCDEFGHIJKLMNOPQRSTUVWXYZ'


def cname(c):
    s = ''
    while c:
        c, r = divmod(c - 1, 26)
        s = COLS[r] + s
    return s


def ref(row, col, shp):
    r, c = shp
    a = '%s%d' % (cname(col), row)
    if (r, c) == (1, 1):
        return a
    return '%s:%s%d' % (a, cname(col + c - 1), row + r - 1)


def block(k, shp):
    """Range that holds argument k: rows 10.., a 4-column block every 5 columns."""
    return ref(10, 2 + 5 * k, shp)


def lit(v, top=False):
    if isinstance(v, list):
        return '{%s}' % ';'.join(','.join(X.literal(x, paren_negative=False) for x in row) for row in v)
    return X.literal(v, paren_negative=top)


def formula(f, texts):
    if f in BIN:
        return '=%s%s%s' % (texts[0], f, texts[1])
    if f == 'u-':
        return '=-%s' % texts[0]
    if f == 'u+':
        return '=+%s' % texts[0]
    if f == '%':
        return '=%s%%' % texts[0]
    return '=%s(%s)' % (f, ','.join(texts))


_DSP = {}


def run_cell(dest, text, inputs):
    """Cell(dest, text) evaluated through a Dispatcher -> matrix | None (no output)."""
    key = (dest, text)
    hit = _DSP.get(key)
    if hit is None:
        dsp = sut.sh.Dispatcher(raises=False)
        c = sut.Cell(dest, text).compile()
        if not c.add(dsp):
            raise RuntimeError('Cell.add returned nothing for %r' % text)
        hit = (dsp, c.output)
        if len(text) < 400:
            if len(_DSP) > 6000:
                _DSP.clear()
            _DSP[key] = hit
    dsp, out = hit
    sol = dsp({k: sut.rng(k, v if isinstance(v, list) else [[v]]) for k, v in inputs.items()})
    if out not in sol:
        return None
    return sut.matrix(sol[out])


def build(f, args, modes):
    """-> (formula text, inputs) for an array call; args are decoded values."""
    texts, inputs = [], {}
    for k, (a, m) in enumerate(zip(args, modes)):
        if m == 'lit':
            texts.append(lit(a, top=f in BIN or f in UN))
        else:
            nm = block(k, L.shape(a))
            texts.append(nm)
            inputs[nm] = a
    return formula(f, texts), inputs


def scalar_call(f, vals, modes, memo):
    """The scalar entry point: one call with single values, each spelled the way the array call spells
    that argument (a literal for a literal argument -- the repo's text rules tell 1 from 1.0 -- a single
    cell for a range argument; blanks exist only in cells)."""
    if len(vals) >= 32:
        # the >= 32-argument path mistreats scalar literals (F-C05-2): the reference call uses cells only
        modes = ['rng'] * len(vals)
    modes = ['rng' if isinstance(v, Blank) else m for v, m in zip(vals, modes)]
    key = repr((vals, modes))
    if key in memo:
        return memo[key]
    text, inputs = build(f, vals, modes)
    m = run_cell('A1', text, inputs)
    r = None if m is None else (m[0][0] if len(m) == 1 and len(m[0]) == 1 else Foreign('scalar-call-shape'))
    memo[key] = r
    return r


def dest_ref(shp, org=(1, 1)):
    return ref(org[0], org[1], tuple(shp))


# --------------------------------------------------------------------------
# FIT
# --------------------------------------------------------------------------
OBS = ['cell-lit', 'cell-rng', 'cell-op', 'push-array', 'push-nd', 'push-list', 'push-ranges', 'push-scalar']


def observe_fit(obs, v, dshape, org, d=None):
    d = d or dest_ref(dshape, org)
    scalar = not isinstance(v, list)
    vm = [[v]] if scalar else v
    if obs == 'cell-lit':
        return run_cell(d, '=' + lit(v, top=True), {})
    if obs == 'cell-rng':
        nm = block(0, L.shape(v))
        return run_cell(d, '=' + nm, {nm: v})
    if obs == 'cell-op':
        nm = block(0, L.shape(v))
        return run_cell(d, '=+' + nm, {nm: v})
    raw = [[sut.to_repo(x) for x in row] for row in vm]
    if obs == 'push-array':
        val = sut.get_functions()['ARRAY'](*raw)
    elif obs == 'push-nd':
        val = sut.np.asarray(raw, object)
    elif obs == 'push-list':
        val = raw
    elif obs == 'push-ranges':
        val = sut.Ranges().push(block(0, L.shape(v)), sut.np.asarray(raw, object))
    elif obs == 'push-scalar':
        val = raw[0][0]
    else:
        raise ValueError(obs)
    return sut.matrix(sut.Ranges().push(d, val).value)


def got_class(got, exp, value, dshape, ftag='truncate'):
    """Class of a wrong matrix (last component of signatures)."""
    if got is None:
        return 'no-output'
    R_, C_ = dshape
    if (len(got), len(got[0]) if got else 0) != (R_, C_) or any(len(g) != C_ for g in got):
        return 'shape'
    if ftag in ('equal-count', 'truncate') and value is not None and isinstance(value, list) \
            and L.same_matrix(got, L.reflow(value, R_, C_)) is None:
        return 'reflow'
    flat = [x for row in got for x in row]
    if all(x == X.VALUE for x in flat) and any(e != X.VALUE for row in exp for e in row if e is not None):
        return 'all:#VALUE!'
    pos = L.same_matrix(got, exp)
    if pos in (None, 'shape'):
        return 'shape'
    return X.cls(got[pos[0]][pos[1]])


def check_fit(case):
    obs, v, dshape, org = case['obs'], dec(case['v']), tuple(case['dest']), tuple(case.get('org', (1, 1)))
    scalar = not isinstance(v, list)
    vshape = L.shape(v)
    tag = L.fit_tag(vshape, dshape, scalar)
    shown = v
    if obs in ('cell-rng', 'cell-op'):  # a formula result that is blank shows as 0
        shown = [[0.0 if isinstance(x, Blank) else x for x in row] for row in v] if not scalar else (0.0 if isinstance(v, Blank) else v)
    if dshape == (1, 1) and vshape != (1, 1) and obs not in ('cell-lit', 'push-array'):
        # single-cell destination and a multi-cell range / plain value: implicit intersection in Excel
        # (the repo answers #VALUE!, which is what Excel shows when the cell is outside the range): not asserted
        return R(labels=['not-asserted:single-cell-with-range-operand'])
    if tag == 'equal-count' and obs in ('push-nd', 'push-list', 'push-ranges'):
        # Ranges().push(ref, plain value) with the right number of elements in another shape is re-flowed; the
        # repo's own tests supply inputs that way ({'A2:A5': [[EMPTY, 4, 3, 4]]} in test_cell): API convenience, not asserted
        return R(labels=['not-asserted:plain-push-equal-count'])
    exp = L.fit(shown, *dshape)
    got = observe_fit(obs, v, dshape, org)
    fails = []
    if got is None or L.same_matrix(got, exp) is not None:
        gc = got_class(got, exp, shown, dshape, tag)
        fails.append(('fit|%s|%s|%s' % (tag, obs, gc),
                      '%s of %r into %s: got %r, expected %r' % (obs, v, dest_ref(dshape, org), got, exp)))
    labels = ['part:fit', 'obs:' + obs, 'fit:' + tag] + ['kind:' + k for k in sorted(kinds_of(v))]
    return R(fails, nt=[['fit', obs, list(vshape), scalar, list(dshape), list(org)]] if tag != 'identity' else None, labels=labels)


NCOLS = 16384
OPEN_ROWS = {'1:1': 1, '1:2': 2, '3:3': 1, '2:4': 3}


def check_fit_rows(case):
    """Fitting into a destination that is a run of whole rows (1:2): the same rule as for a bounded rectangle, over all
    16384 columns - checked on the shape, the first 6 columns (values have at most 4) and the last column."""
    obs, v, d = case['obs'], dec(case['v']), case['dest']
    nrows = OPEN_ROWS[d]
    scalar = not isinstance(v, list)
    shown = v
    if obs in ('cell-rng', 'cell-op'):
        shown = [[0.0 if isinstance(x, Blank) else x for x in row] for row in v] if not scalar else (0.0 if isinstance(v, Blank) else v)
    exp = L.fit(shown, nrows, 7)
    got = observe_fit(obs, v, (nrows, NCOLS), (1, 1), d=d)
    fails = []
    if got is None or len(got) != nrows or any(len(g) != NCOLS for g in got):
        fails.append(('fit|whole-rows|%s|shape' % obs, '%s of %r into %s: got %s' % (
            obs, v, d, None if got is None else 'a matrix of %d rows x %s columns' % (len(got), sorted({len(g) for g in got})))))
    else:
        head = [g[:6] for g in got]
        last = [[g[-1]] for g in got]
        if L.same_matrix(head, [e[:6] for e in exp]) is not None or L.same_matrix(last, [[e[6]] for e in exp]) is not None:
            fails.append(('fit|whole-rows|%s|values' % obs, '%s of %r into %s: first columns %r, last column %r, expected %r .. %r' % (
                obs, v, d, head, last, [e[:6] for e in exp], [[e[6]] for e in exp])))
    return R(fails, nt=[['fit-rows', obs, list(L.shape(v)), scalar, d]], labels=['part:fit-rows', 'obs:' + obs, 'fit:whole-rows'])


def enum_fit_rows(tier, seed):
    rnd = __import__('random').Random(seed * 7919 + 5)
    for vs in [None, (1, 1), (1, 3), (2, 1), (2, 3), (3, 2), (1, 4)]:
        for d in OPEN_ROWS:
            for obs in ('cell-lit', 'cell-rng', 'push-array', 'push-nd', 'push-scalar'):
                if (obs == 'push-scalar') != (vs is None) and obs == 'push-scalar':
                    continue
                if vs is not None and vs[0] > OPEN_ROWS[d]:
                    continue  # truncation re-flows in the repo (listed finding, asserted on bounded rectangles by the 'fit' part)
                if vs is None:
                    v = rnd.choice([5.0, 'a', True, -2.5])
                else:
                    v = distinct_fill(rnd, vs, False)
                    if obs == 'push-nd' and L.shape(v)[0] * L.shape(v)[1] == OPEN_ROWS[d] * NCOLS:
                        continue
                yield {'k': 'fit-rows', 'obs': obs, 'v': enc(v), 'dest': d}


# --------------------------------------------------------------------------
# LIFT (and MANY)
# --------------------------------------------------------------------------
def padded(f, args, modes, npad, padpos, padmode):
    """Insert npad neutral arguments (CONCATENATE: "", IFS: FALSE,99 pairs, SWITCH: non-matching key,99 pairs)."""
    if not npad:
        return list(args), list(modes)
    if f == 'CONCATENATE':
        unit, step, lo, hi = [''], 1, 0, len(args)
    elif f == 'IFS':
        unit, step, lo, hi = [False, 99.0], 2, 0, len(args) // 2 * 2
    elif f == 'SWITCH':
        unit, step, lo, hi = [NOMATCH, 99.0], 2, 1, 1 + (len(args) - 1) // 2 * 2
    else:
        raise ValueError(f)
    n = max(1, npad // step)
    pos = {'front': lo, 'back': hi, 'mid': lo + ((hi - lo) // 2 // step) * step}[padpos]
    pads = unit * n
    pm = [('lit' if padmode == 'lit' else 'rng' if padmode == 'rng' else ('lit', 'rng')[i % 2]) for i in range(len(pads))]
    return list(args[:pos]) + pads + list(args[pos:]), list(modes[:pos]) + pm + list(modes[pos:])


def many_tag(f, args, modes):
    """Rule part of a `many` (>= 32 arguments) signature: `array:<shape class>` when any argument
    has more than one element, else `single:*` by what kind of scalar literal is present."""
    if any(L.shape(x) != (1, 1) for x in args):
        return 'array:' + L.shape_class(args)
    lits = [x for x, m in zip(args, modes) if m == 'lit' and not isinstance(x, list)]
    if any(isinstance(x, Err) for x in lits):
        return 'single:literal-error'
    if f in ('CONCATENATE', 'SWITCH') and any(isinstance(x, bool) for x in lits):
        return 'single:literal-bool'
    return 'single:plain'


def lift_tag(args, modes, pos, sc):
    """Rule part of a `lift` signature: the shape class of the arguments, unless
    the failing position reads a negative number written inside an array literal."""
    if isinstance(pos, tuple):
        for a, m in zip(args, modes):
            if m == 'lit' and isinstance(a, list):
                x = L.at(a, pos[0] % max(1, len(a)) if len(a) > 1 else 0, pos[1] % max(1, len(a[0])) if len(a[0]) > 1 else 0)
                if isinstance(x, float) and x < 0:
                    return 'negative-in-array-literal'
    return 'vs-scalar:' + sc


def argc_label(n):
    return 'argc:1' if n == 1 else 'argc:2-3' if n <= 3 else 'argc:4-31' if n <= 31 else 'argc:32-40'


def check_lift(case):
    f = case['f']
    args = [dec(a['v']) for a in case['args']]
    modes = [a['m'] for a in case['args']]
    npad = case.get('npad', 0)
    shapes = [L.shape(a) for a in args]
    rshape = L.bshape(shapes)
    if rshape is None:
        raise ValueError('generator produced incompatible shapes %r' % shapes)
    dshape = tuple(case.get('dest') or rshape)
    fam = FAM[f]
    if dshape == (1, 1) and rshape != (1, 1) and any(m == 'rng' and isinstance(a, list) and L.shape(a) != (1, 1)
                                                     for a, m in zip(args, modes)):
        # a single cell is an ordinary (non-array) formula: a multi-cell range operand is implicitly
        # intersected there (or spills, in dynamic-array Excel) -- outside the asserted domain
        return R(labels=['not-asserted:single-cell-with-range-operand'])
    memo = {}
    # (a) scalar entry point of the same function, once per element
    E2 = [[scalar_call(f, [L.at(a, i, j) for a in args], modes, memo) for j in range(rshape[1])] for i in range(rshape[0])]
    # (b) independent rules
    rule = L.RULES.get(f)
    E1 = T1 = None
    if rule:
        pairs, _ = L.lift(rule, args)
        E1 = [[p[0] for p in row] for row in pairs]
        T1 = [[p[1] for p in row] for row in pairs]
    all_scalar = all(not isinstance(a, list) for a in args)
    ftag = L.fit_tag(rshape, dshape, all_scalar)
    F2 = L.fit(E2 if not all_scalar else E2[0][0], *dshape)
    F1 = L.fit(E1 if not all_scalar else E1[0][0], *dshape) if E1 else None
    FT = L.fit(T1 if not all_scalar else T1[0][0], *dshape) if T1 else None
    d = dest_ref(dshape)
    sc = L.shape_class(args)
    fails = []
    labels = ['fam:' + fam, 'shapes:' + sc.replace('+scalar', ''), argc_label(len(args)), 'fit:' + ftag,
              'mode:' + (modes[0] if len(set(modes)) == 1 else 'mixed')]
    ks = set()
    for a in args:
        ks |= kinds_of(a)
    labels += ['kind:' + k for k in sorted(ks)]
    if any(x is None for row in E2 for x in row):
        labels.append('scalar-call-no-output')

    def judge(sub, got, text, inputs, tagger):
        """compare one array call with both oracles"""
        exp2, exp1, tags1, value, tag = F2, F1, FT, (E2 if not all_scalar else None), ftag
        if ftag in ('equal-count', 'truncate'):
            # separate lifting from fitting: the same call into a destination of exactly the result's shape
            # must equal the per-element results, and `got` must be the fit of *that* array
            plain = run_cell(dest_ref(rshape), text, inputs)
            if plain is not None and L.same_matrix(plain, L.fit(E2, *rshape)) is None:
                fexp = L.fit(plain, *dshape)
                if got is None or L.same_matrix(got, fexp) is not None:
                    fails.append(('fit|%s|cell-%s|%s' % (ftag, sub, got_class(got, fexp, plain, dshape, ftag)),
                                  '%s into %s: got %r, the same call into %s gives %r, which fits as %r' % (
                                      text, d, got, dest_ref(rshape), plain, fexp)))
                return
            # the unfitted result is already wrong: report it as a lifting failure on the identity destination
            got, exp2, tag = plain, L.fit(E2, *rshape), 'identity'
            exp1 = L.fit(E1, *rshape) if E1 else None
            tags1 = L.fit(T1, *rshape) if T1 else None
        bad = got is None or L.same_matrix(got, exp2) is not None
        if bad:
            gc = got_class(got, exp2, value, dshape if tag != 'identity' else rshape, tag)
            pos = None if got is None else L.same_matrix(got, exp2)
            tg = tagger(pos)
            if gc == 'all:#VALUE!' and sub == 'lift' and any(x == X.VALUE for row in E2 for x in row):
                # the scalar rule of at least one element is #VALUE! and the whole array became #VALUE!
                tg = 'element-exception-poisons-array'
            sig = '%s|%s|%s|%s' % (sub, tg, fam if sub == 'lift' else f, gc)
            fails.append((sig, '%s into %s: got %r, per-element scalar calls give %r%s' % (
                text, d if tag != 'identity' else dest_ref(rshape), got, exp2, (' (xlref: %r)' % (exp1,)) if exp1 else '')))
        elif exp1 is not None:
            pos = L.same_matrix(got, exp1)
            if pos is not None:
                tg = 'shape' if pos == 'shape' else tags1[pos[0]][pos[1]]
                gc = 'shape' if pos == 'shape' else X.cls(got[pos[0]][pos[1]])
                rt = ('xlref:%s' % tg) if sub == 'lift' else tagger(pos)
                fails.append(('%s|%s|%s|%s' % (sub, rt, fam if sub == 'lift' else f, gc),
                              '%s into %s: got %r (same as per-element scalar calls), reference rules give %r' % (text, d, got, exp1)))

    pargs, pmodes = padded(f, args, modes, npad, case.get('padpos', 'back'), case.get('padmode', 'lit'))
    if len(args) < 32 or not npad:
        text, inputs = build(f, args, modes)
        got = run_cell(d, text, inputs)
        judge('lift' if len(args) < 32 else 'many', got, text, inputs,
              (lambda pos: lift_tag(args, modes, pos, sc)) if len(args) < 32 else (lambda pos: many_tag(f, args, modes)))
    if npad:
        text, inputs = build(f, pargs, pmodes)
        got = run_cell(d, text, inputs)
        sub = 'many' if len(pargs) >= 32 else 'lift'
        judge(sub, got, text, inputs, (lambda pos: many_tag(f, pargs, pmodes)) if sub == 'many' else (lambda pos: lift_tag(args, modes, pos, sc)))
        labels += ['part:many', argc_label(len(pargs))]
        if sub == 'many':
            labels.append('many:' + many_tag(f, pargs, pmodes).replace('array:', 'array  ').split('  ')[0])
    total = len(pargs)
    nons = {L.orient(s) for a, s in zip(args, shapes) if isinstance(a, list) and s != (1, 1)}
    nt = len(nons) >= 2 or tuple(dshape) != tuple(rshape) or total >= 32
    if len(nons) >= 2:
        labels.append('nt:cross-orientation')
    if tuple(dshape) != tuple(rshape):
        labels.append('nt:dest!=result')
    if total >= 32:
        labels.append('nt:argc>=32')
    seen, out = set(), []
    for s, dt in fails:
        if s not in seen:
            seen.add(s)
            out.append((s, dt))
    key = [f, [list(s) if isinstance(a, list) else 0 for a, s in zip(args, shapes)], list(dshape), total]
    return R(out, nt=[key] if nt else None, labels=labels, n=1 + (1 if npad and len(args) < 32 else 0))


NEST_INNER = ['ISNUMBER', 'ISTEXT', 'ISERROR', 'ISNA', 'ISLOGICAL', 'ISNONTEXT', 'ISERR']
NEST_OUTER = ['NOT(%s)', '-%s', '--%s', '%s+{1;2}', '{1;2}+%s', '%s*{2,3}', 'IF(%s,"y","n")', '%s&"x"', '%s=TRUE', 'CONCATENATE(%s,"a")', '+%s',
              'IF({1,0},%s,"no")', 'AND(TRUE,TRUE)&%s']
NEST_ARRAYS = [[[1.0, 'a']], [[1.0], ['a'], [True]], [[1.0, 'a'], [Err('#N/A'), True]], [[Err('#DIV/0!'), 2.0, 'x']], 5.0]


def enum_nest():
    for inner in NEST_INNER:
        for oi, outer in enumerate(NEST_OUTER):
            for ai, arr in enumerate(NEST_ARRAYS):
                oshape = {'%s+{1;2}': (2, 1), '{1;2}+%s': (2, 1), '%s*{2,3}': (1, 2), 'IF({1,0},%s,"no")': (1, 2)}.get(outer, (1, 1))
                ashape = L.shape(arr) if isinstance(arr, list) else (1, 1)
                if not all(a == b or a == 1 or b == 1 for a, b in zip(ashape, oshape)):
                    continue  # shapes that do not broadcast are outside the asserted domain
                for mode in ('lit', 'rng'):
                    for dest in ((3, 3), (4, 2), (2, 4), (1, 1), None):
                        if (oi + ai + len(inner) + (dest or (0, 0))[0]) % 3 and dest not in ((3, 3), None):
                            continue  # thin out: the (3,3) and the identity destination for every combination
                        yield {'k': 'nest', 'inner': inner, 'outer': outer, 'v': enc(arr), 'm': mode, 'dest': list(dest) if dest else None}


def check_nest(case):
    """outer(inner(X)) into a destination == outer(<literal of inner(X)'s own result>) into the same destination: an
    intermediate array result is an ordinary array value (added after seed c05-b-r3)."""
    v, mode = dec(case['v']), case['m']
    inner_text, inputs = build(case['inner'], [v], [mode])
    ishape = L.shape(v) if isinstance(v, list) else (1, 1)
    iv = run_cell(dest_ref(ishape), inner_text, inputs)
    if iv is None or any(not isinstance(x, bool) for row in iv for x in row):
        return R([('nest|inner-not-logical|%s' % case['inner'], '%s gives %r' % (inner_text, iv))], nt=True)
    nested = '=' + case['outer'] % inner_text[1:]
    flat = '=' + case['outer'] % lit(iv if ishape != (1, 1) else iv[0][0])
    # shape of the whole result: from the identity run of the literal form
    probe = run_cell(dest_ref((4, 4)), flat, {})
    dshape = tuple(case['dest']) if case.get('dest') else None
    if dshape is None:
        # the smallest destination the result fills: rows/cols of the probe that are not all #N/A
        rows = max([i + 1 for i, row in enumerate(probe or []) if any(x != X.NA for x in row)] or [1])
        cols = max([j + 1 for row in (probe or []) for j, x in enumerate(row) if x != X.NA] or [1])
        dshape = (rows, cols)
    d = dest_ref(dshape)
    exp = run_cell(d, flat, {})
    got = run_cell(d, nested, inputs)
    fails = []
    if exp is None or got is None or L.same_matrix(got, exp) is not None:
        pos = None if (got is None or exp is None) else L.same_matrix(got, exp)
        cls = 'no-output' if got is None else ('shape' if pos == 'shape' or pos is None else X.cls(got[pos[0]][pos[1]]))
        fails.append(('nest|%s|%s|%s' % (case['outer'].replace('%s', 'X'), 'unreached' if (pos not in (None, 'shape') and exp[pos[0]][pos[1]] == X.NA) else 'reached', cls),
                      '%s into %s: got %r, but %s gives %r' % (nested, d, got, flat, exp)))
    return R(fails, nt=True, n=3, labels=['part:nest', 'nest-outer:' + case['outer'].replace('%s', 'X'), 'nest-inner:' + case['inner'], 'mode:' + mode,
                                           'nest-dest:' + ('identity' if not case.get('dest') else 'given')])


SHARED_INNER = ['TRANSPOSE(%s)', '%s', 'IF(TRUE,%s)', 'TRANSPOSE(TRANSPOSE(%s))']
SHARED_PAIRS = [('%s&"x"', '%s+1'), ('%s+1', '%s&"x"'), ('%s=""', '%s+0'), ('%s&""', '%s*1'), ('%s=0', '%s&"z"')]
SHARED_DATA = [[[None, 2.0], ['a', None]], [[None, None], [None, None]], [[1.0, None], [None, True]]]


def enum_shared():
    for inner in SHARED_INNER:
        for pi, pair in enumerate(SHARED_PAIRS):
            for di, data in enumerate(SHARED_DATA):
                for comb in ('&', '='):
                    yield {'k': 'shared', 'inner': inner, 'pair': list(pair), 'd': data, 'comb': comb}


def check_shared(case):
    """One sub-expression that passes blanks through, used twice in a formula by operators that read a blank differently
    (as text, as number): (f(T)) comb (g(T)) must equal the same combination of f(T) and g(T) evaluated in cells of their
    own (added after seed c05-a-r4)."""
    data = [[BLANK if v is None else v for v in row] for row in case['d']]
    inputs = {'B7:C8': data}
    t = case['inner'] % 'B7:C8'
    f1, f2 = case['pair'][0] % t, case['pair'][1] % t
    d = dest_ref((2, 2))
    e1, e2 = run_cell(d, '=' + f1, inputs), run_cell(d, '=' + f2, inputs)
    whole = run_cell(d, '=(%s)%s(%s)' % (f1, case['comb'], f2), inputs)
    after = run_cell(d, '=' + f1, inputs)  # and the first part again, after the combined formula ran on the same inputs
    fails = []
    if e1 is None or e2 is None or whole is None:
        return R([('shared|no-output|%s' % case['inner'].replace('%s', 'X'), 'no output: %r %r %r' % (e1, e2, whole))], nt=True)
    exp = [[X.binary(case['comb'], e1[i][j], e2[i][j])[0] for j in range(2)] for i in range(2)]
    pos = L.same_matrix(whole, exp)
    if pos is not None:
        fails.append(('shared|%s|%s|%s' % (case['inner'].replace('%s', 'X'), case['pair'][0].replace('%s', 'T') + case['comb'] + case['pair'][1].replace('%s', 'T'),
                                          'shape' if pos == 'shape' else X.cls(whole[pos[0]][pos[1]])),
                      '=(%s)%s(%s) gives %r, but the parts give %r and %r' % (f1, case['comb'], f2, whole, e1, e2)))
    if after is None or L.same_matrix(after, e1) is not None:
        fails.append(('shared|%s|inputs-changed' % case['inner'].replace('%s', 'X'), '=%s gave %r before and %r after the combined formula' % (f1, e1, after)))
    return R(fails, nt=True, n=4, labels=['part:shared', 'shared-inner:' + case['inner'].replace('%s', 'X')])


# --------------------------------------------------------------------------
# criteria arrays (added after seed c05-b-r5): COUNTIF/SUMIF/AVERAGEIF lifted over an array of criteria
# --------------------------------------------------------------------------
CRIT_POOL = [5.0, '>50', '7', '<zz', '<>abc', 'abc', 'a*', '>=7', '<>7', True, '=60', '<>']
CRIT_DATA = [[[5.0], ['60'], ['7'], ['abc'], ['zz']],
             [['7'], [7.0], [None], ['ABC'], [True]],
             [[60.0], ['60'], ['5'], ['a7'], [100.0]]]


def enum_criteria():
    for fn in ('COUNTIF', 'SUMIF', 'AVERAGEIF'):
        for di, _ in enumerate(CRIT_DATA):
            for a, b in itertools.permutations(range(len(CRIT_POOL)), 2):
                yield {'k': 'criteria', 'fn': fn, 'd': di, 'crit': [a, b], 'mode': 'lit' if (a + b) % 2 else 'rng'}
            for trip in ((0, 3, 1), (2, 4, 7), (1, 5, 0), (6, 0, 3), (9, 3, 2), (10, 4, 8)):
                yield {'k': 'criteria', 'fn': fn, 'd': di, 'crit': list(trip), 'mode': 'lit'}


def check_criteria(case):
    """F(range, {c1, c2, ..}) is [F(range, c1), F(range, c2), ..]: the criteria argument is lifted element by element and
    no element sees what an earlier one computed.  Scalar oracle: the same function with one criterion (the repo itself)."""
    fn, crits = case['fn'], [CRIT_POOL[i] for i in case['crit']]
    data = [[BLANK if v is None else v for v in row] for row in CRIT_DATA[case['d']]]
    inputs = {'D1:D5': data}
    acc = '' if fn == 'COUNTIF' else ',E1:E5'
    if acc:
        inputs['E1:E5'] = [[1.0], [10.0], [100.0], [1000.0], [10000.0]]
    n = len(crits)
    if case['mode'] == 'lit':
        ctext = '{%s}' % ','.join(X.literal(c, paren_negative=False) for c in crits)
    else:
        ctext = 'G1:%s1' % 'GHI'[n - 1]
        inputs[ctext] = [list(crits)]
    whole = run_cell(dest_ref((1, n)), '=%s(D1:D5,%s%s)' % (fn, ctext, acc), inputs)
    singles = []
    for c in crits:
        if case['mode'] == 'lit':
            m = run_cell('A1', '=%s(D1:D5,%s%s)' % (fn, X.literal(c, paren_negative=False), acc), {k: v for k, v in inputs.items() if k[0] != 'G'})
        else:
            m = run_cell('A1', '=%s(D1:D5,G1%s)' % (fn, acc), dict({k: v for k, v in inputs.items() if k[0] != 'G'}, G1=[[c]]))
        singles.append(None if m is None else m[0][0])
    fails = []
    if whole is None or None in singles:
        fails.append(('criteria|%s|no-output' % fn, 'no output: %r %r' % (whole, singles)))
    else:
        pos = L.same_matrix(whole, [singles])
        if pos is not None:
            k_ = 'shape' if pos == 'shape' else '%s-after-%s' % (X.cls(crits[pos[1]]), '+'.join(sorted({X.cls(c) for c in crits[:pos[1]]})) or 'none')
            fails.append(('criteria|%s|%s|%s' % (fn, case['mode'], k_), '=%s(D1:D5,%s%s) gives %r, one criterion at a time %r (range %r)' % (
                fn, ctext if case['mode'] == 'lit' else crits, acc, whole, singles, data)))
    return R(fails, nt=True, n=1 + n, labels=['part:criteria', 'criteria-fn:' + fn, 'criteria-mode:' + case['mode']])


def check_case(case):
    if case['k'] == 'criteria':
        return check_criteria(case)
    if case['k'] == 'shared':
        return check_shared(case)
    if case['k'] == 'nest':
        return check_nest(case)
    if case['k'] == 'fit':
        return check_fit(case)
    if case['k'] == 'fit-rows':
        return check_fit_rows(case)
    if case['k'] == 'lift':
        return check_lift(case)
    raise ValueError(case['k'])


# --------------------------------------------------------------------------
# generators
# --------------------------------------------------------------------------
SHAPES = [(r, c) for r in (1, 2, 3, 4) for c in (1, 2, 3, 4)]


def compatible(shapes):
    return L.bshape(shapes) is not None


PAIRS = [p for p in itertools.product(SHAPES, repeat=2) if compatible(p)]
TRIPLES = [p for p in itertools.product(SHAPES, repeat=3) if compatible(p)]


def fill(rnd, pool, shp, mode, scalar=False):
    """A value of the given shape drawn from a pool (no blanks in literals)."""
    def one():
        while True:
            v = rnd.choice(pool)
            if mode == 'lit' and isinstance(v, Blank):
                continue
            return v
    if scalar:
        return one()
    return [[one() for _ in range(shp[1])] for _ in range(shp[0])]


def distinct_fill(rnd, shp, blanks):
    """Matrix of pairwise different elements of mixed kinds, so that every
    position of a fitted result identifies the element it came from."""
    r, c = shp
    base = rnd.choice([1, 20, 300])
    out = []
    for i in range(r):
        row = []
        for j in range(c):
            k = base + i * c + j
            t = rnd.randrange(10)
            if t < 6:
                row.append(float(k))
            elif t < 8:
                row.append('t%d' % k)
            elif t == 8:
                row.append(float(k) + 0.5)
            else:
                row.append(-float(k))
        out.append(row)
    # sprinkle one element of a special kind
    if r * c > 1:
        i, j = rnd.randrange(r), rnd.randrange(c)
        out[i][j] = rnd.choice([True, False, Err('#DIV/0!'), Err('#N/A'), Err('#VALUE!'), ''] + ([BLANK] if blanks else []))
    return out


def dests_for(rnd, rshape, n, trunc=False):
    """destination shapes: the result shape first, then others (no truncation unless asked)."""
    r, c = rshape
    ok = [s for s in SHAPES if trunc or ((s[0] >= r or r == 1) and (s[1] >= c or c == 1))]
    out = [None]
    while len(out) < n:
        out.append(list(rnd.choice(ok)))
    return out[:n]


def mk_lift(f, vals, modes, dest=None, **kw):
    case = {'k': 'lift', 'f': f, 'args': [{'m': m, 'v': enc(v)} for v, m in zip(vals, modes)]}
    if dest:
        case['dest'] = list(dest)
    case.update(kw)
    return case


def pick_modes(rnd, n):
    t = rnd.randrange(4)
    if t == 0:
        return ['lit'] * n
    if t == 1:
        return ['rng'] * n
    return [rnd.choice(['lit', 'rng']) for _ in range(n)]


def arg_value(rnd, pool, shp, mode):
    """shape (1,1) is given as a true scalar half of the time"""
    if shp == (1, 1) and rnd.random() < 0.5:
        return fill(rnd, pool, shp, mode, scalar=True)
    return fill(rnd, pool, shp, mode)


def enum_fit(tier, seed):
    rnd = random.Random(seed * 1000 + 5)
    reps = 1 if tier == 'quick' else 8
    for rep in range(reps):
        for vs in [None] + SHAPES:
            for ds in SHAPES:
                for obs in OBS:
                    if obs == 'push-scalar' and vs is not None:
                        continue
                    blanks = obs in ('cell-rng', 'cell-op')
                    if vs is None:
                        v = rnd.choice([5.0, 'a', True, Err('#N/A'), Err('#DIV/0!'), -2.5, ''] + ([BLANK] if blanks else []))
                    else:
                        v = distinct_fill(rnd, vs, blanks)
                    org = rnd.choice([(1, 1), (1, 1), (3, 3), (2, 27)])
                    yield {'k': 'fit', 'obs': obs, 'v': enc(v), 'dest': list(ds), 'org': list(org)}


def enum_ops(tier, seed):
    rnd = random.Random(seed * 1000 + 6)
    reps = 1 if tier == 'quick' else 24
    for rep in range(reps):
        for op in BIN:
            pool = POOLS[OPPOOL[FAM[op]]]
            for sa, sb in PAIRS:
                modes = pick_modes(rnd, 2)
                vals = [arg_value(rnd, pool, s, m) for s, m in zip((sa, sb), modes)]
                rs = L.bshape([sa, sb])
                dest = None if rnd.random() < 0.5 else dests_for(rnd, rs, 2, trunc=rnd.random() < 0.15)[1]
                yield mk_lift(op, vals, modes, dest)
        for op in UN:
            for s in SHAPES:
                for m in ('lit', 'rng'):
                    v = arg_value(rnd, POOLS['any'], s, m)
                    dest = None if rnd.random() < 0.5 else dests_for(rnd, s, 2)[1]
                    yield mk_lift(op, [v], [m], dest)


def shape_tuples(rnd, n, k):
    if n == 1:
        return [(s,) for s in SHAPES]
    if n == 2:
        return PAIRS if k is None else rnd.sample(PAIRS, k)
    if n == 3:
        return TRIPLES if k is None else rnd.sample(TRIPLES, k)
    out = []
    while len(out) < (k or 40):
        rs = L.bshape([rnd.choice(SHAPES)])
        t = tuple(rnd.choice([(1, 1), (1, rs[1]), (rs[0], 1), rs, (1, 1)]) for _ in range(n))
        out.append(t)
    return out


def enum_funcs(tier, seed):
    rnd = random.Random(seed * 1000 + 7)
    q = tier == 'quick'
    for name in sorted(FUNCS):
        d = FUNCS[name]
        full = len(d['pools'])
        for n in range(full - d['opt'], full + 1):
            if n == 1:
                k = None
            elif name == 'IF':
                k = (160 if n == 3 else 40) if q else None
            else:
                k = (16 if q else None) if n == 2 else (16 if q else 300)
            for rep in range(1 if q else 4):
                for shapes in shape_tuples(rnd, n, k):
                    modes = pick_modes(rnd, n)
                    vals = [arg_value(rnd, POOLS[p], s, m) for p, s, m in zip(d['pools'], shapes, modes)]
                    rs = L.bshape(shapes)
                    dest = dests_for(rnd, rs, 2, trunc=rnd.random() < 0.1)[rnd.randrange(2)]
                    yield mk_lift(name, vals, modes, dest)


def variadic_core(rnd, f, n, rshape, col_only, pure=False):
    """n core arguments for a variadic function whose non-scalar shapes all fit rshape.
    pure: single values are scalar literals (never single-cell ranges or 1x1 arrays)."""
    r, c = rshape
    options = [(1, 1), (1, 1), (r, 1)] if col_only else [(1, 1), (1, 1), (1, c), (r, 1), (r, c)]
    shapes = [rnd.choice(options) for _ in range(n)]
    modes = pick_modes(rnd, n)
    if pure:
        modes = ['lit' if s == (1, 1) else m for s, m in zip(shapes, modes)]
    if f == 'CONCATENATE':
        pools = ['text'] * n
    elif f == 'IFS':
        pools = ['cond', 'any'] * (n // 2)
    else:
        pools = ['switchkey'] + ['switchkey', 'any'] * ((n - 1) // 2) + (['any'] if (n - 1) % 2 else [])
    vals = []
    for p, s, m in zip(pools, shapes, modes):
        pool = POOLS[p] if p != 'switchkey' else SWITCHKEYS
        if pure and s == (1, 1):
            vals.append(fill(rnd, [x for x in pool if not isinstance(x, (Err, bool))], s, m, scalar=True))
        else:
            vals.append(arg_value(rnd, pool, s, m))
    return vals, modes


SWITCHKEYS = [1.0, 2.0, 3.0, 1.0, 2.0, 'a', 'b', 'a', True, False, BLANK, Err('#N/A'), Err('#REF!')]


def enum_many(tier, seed):
    rnd = random.Random(seed * 1000 + 8)
    reps = 1 if tier == 'quick' else 12
    for rep in range(reps):
        for f in VARIADIC:
            for total in ((1, 3, 8, 30, 31, 32, 33, 40) if tier == 'quick' else (1, 2, 3, 5, 8, 16, 29, 30, 31, 32, 33, 34, 39, 40)):
                for rshape in [(1, 1), (3, 1), (2, 1), (1, 3), (2, 2), (3, 2), (4, 4), (2, 4), (1, 2)]:
                    for col_only in ((True, 'pure', 'pure', False) if rshape[1] == 1 else (False,)):
                        # core size
                        step = 1 if f == 'CONCATENATE' else 2
                        base = 0 if f != 'SWITCH' else 1
                        ncore = rnd.choice([1, 2, 3, 4, 6]) * step + base + (rnd.randrange(2) if f == 'SWITCH' else 0)
                        if f == 'SWITCH' and ncore < 3:
                            ncore = 3
                        ncore = min(ncore, total)
                        if f == 'IFS':
                            ncore = max(2, ncore // 2 * 2)
                        if f == 'SWITCH' and ncore < 3:
                            ncore = 3
                        npad = max(0, total - ncore)
                        if step == 2:
                            npad = npad // 2 * 2
                        pure = col_only == 'pure'
                        vals, modes = variadic_core(rnd, f, ncore, rshape, bool(col_only), pure)
                        rs = L.bshape([L.shape(v) for v in vals])
                        dest = dests_for(rnd, rs, 2)[rnd.randrange(2)]
                        yield mk_lift(f, vals, modes, dest, npad=npad, padpos=rnd.choice(['front', 'back', 'mid']),
                                      padmode='lit' if pure else rnd.choice(['lit', 'lit', 'rng', 'mix']))
            # long cores without padding (every argument matters)
            for total in (31, 32, 33, 40):
                for rshape in [(1, 1), (3, 1), (1, 3), (2, 2)]:
                    n = total if f == 'CONCATENATE' else (total // 2 * 2 if f == 'IFS' else total)
                    for pure in (False, True):
                        vals, modes = variadic_core(rnd, f, n, rshape, rshape[1] == 1, pure and rshape[1] == 1)
                        yield mk_lift(f, vals, modes, None)


def enum_many_kinds():
    """One non-scalar argument whose elements are equal as Python values but of different Excel kinds (1 / TRUE, 0 / FALSE,
    "1" / 1), all other arguments scalar: every position must still be evaluated on its own (added after seed c05-a-r3)."""
    kinds = [[[1.0, True, 0.0, False]], [[True], [1.0], [False], [0.0]], [[1.0, True], [False, 0.0]], [[0.0, False, 1.0, True, '1']]]
    for total in (8, 31, 32, 33, 40):
        for arr in kinds:
            for mode in ('lit', 'rng'):
                for f, core in (('CONCATENATE', [arr, '-']), ('SWITCH', [arr, 1.0, 'one', True, 'true', 0.0, 'zero', 'other']),
                                ('IFS', [True, arr]), ('IFS', [arr, 'first', True, 'else'])):
                    step = 1 if f == 'CONCATENATE' else 2
                    npad = max(0, total - len(core))
                    if step == 2:
                        npad = npad // 2 * 2
                    modes = [mode if isinstance(v, list) else 'lit' for v in core]
                    yield mk_lift(f, core, modes, None, npad=npad, padpos='back', padmode='lit')


# --- Hypothesis: random function / shapes / values / modes / destination -------
def _rand(tier):
    names = sorted(FUNCS) + BIN + UN

    @st.composite
    def case(draw):
        f = draw(st.sampled_from(names))
        if f in BIN:
            pools = [OPPOOL[FAM[f]]] * 2
        elif f in UN:
            pools = ['any']
        else:
            d = FUNCS[f]
            n = draw(st.integers(len(d['pools']) - d['opt'], len(d['pools'])))
            pools = d['pools'][:n]
        r = draw(st.integers(1, 4))
        c = draw(st.integers(1, 4))
        vals, modes = [], []
        for p in pools:
            shp = draw(st.sampled_from([(1, 1), (1, c), (r, 1), (r, c)]))
            m = draw(st.sampled_from(['lit', 'rng']))
            pool = [v for v in POOLS[p] if not (m == 'lit' and isinstance(v, Blank))]
            if shp == (1, 1) and draw(st.booleans()):
                v = draw(st.sampled_from(pool))
            else:
                v = [[draw(st.sampled_from(pool)) for _ in range(shp[1])] for _ in range(shp[0])]
            vals.append(v)
            modes.append(m)
        rs = L.bshape([L.shape(v) for v in vals])
        dest = draw(st.one_of(st.none(), st.tuples(st.integers(1, 4), st.integers(1, 4))))
        if dest is not None and not draw(st.integers(0, 9)) == 0:
            # mostly non-truncating destinations: the truncating ones are the fit part's job
            dest = (dest[0] if (dest[0] >= rs[0] or rs[0] == 1) else rs[0], dest[1] if (dest[1] >= rs[1] or rs[1] == 1) else rs[1])
        return mk_lift(f, vals, modes, dest)
    return case()


STRATEGIES = {'rand': _rand}

FLOORS = {
    'part:fit': ('count', {'quick': 1500, 'thorough': 10000}),
    'part:many': ('count', {'quick': 200, 'thorough': 3000}),
    'argc:32-40': ('count', {'quick': 150, 'thorough': 1500}),
    'many:single:plain': ('count', {'quick': 30, 'thorough': 300}),
    'nt:cross-orientation': ('count', {'quick': 100, 'thorough': 1000}),
    'kind:blank': ('count', {'quick': 200, 'thorough': 3000}),
    'kind:err': ('count', {'quick': 300, 'thorough': 3000}),
    'mode:mixed': ('count', {'quick': 150, 'thorough': 2000}),
}


def parts(tier, seed):
    q = tier == 'quick'
    only = os.environ.get('VF_C05_PARTS')  # development aid: run a subset of the parts
    return [p for p in _parts(tier, seed, q) if not only or p[1] in only.split(',')]


def _parts(tier, seed, q):
    return [
        ('enum', 'fit', enum_fit(tier, seed), 100, False),
        ('enum', 'fit-whole-rows', enum_fit_rows(tier, seed), 10, False),
        ('enum', 'operators', enum_ops(tier, seed), 60, False),
        ('enum', 'functions', enum_funcs(tier, seed), 60, False),
        ('enum', 'many', enum_many(tier, seed), 20, False),
        ('enum', 'many-kinds', enum_many_kinds(), 20, False),
        ('enum', 'nested', enum_nest(), 40, False),
        ('enum', 'shared-subexpression', enum_shared(), 20, False),
        ('enum', 'criteria-arrays', enum_criteria(), 40, False),
        ('hyp', 'rand', 800 if q else 40000),
    ]
