"""C09 - JSON export and import preserve every value and are a fixed point."""
import json
from hypothesis import strategies as st

from .. import sut
from ..runner import R
from ..xlref import wb as W
from ..xlref import core as X
from ..gen import workbooks as G

ID = 'C09'
RULE = ('Hypothesis workbook specs loaded from xlsx files (and, for plain constants, from dicts) with the full constant '
        'alphabet: text that looks like a formula (=x, =a"b, {=x}), like an error (#N/A as text), like the blank marker '
        '(#EMPTY), with quotes/apostrophes/newlines; numbers incl. -0.0, 1e-7, > 2^53; logicals; errors; blanks; sheet names '
        'of every class incl. ones that need quoting; a dictionary-path part whose numeric constants are arbitrary IEEE doubles (more than 15 decimals, subnormal, > 1e300); all reference forms, array formulas, names. Oracle: d1 = to_dict(m); '
        'm2 = from_dict(json round trip of d1): (a) calculate() of m and m2 agree on every cell, and m2 agrees with the '
        'independent evaluator; (b) to_dict(m2) == d1 and a third trip equals the second; (c) every exported formula string '
        'parses and its expr equals the exported text. Non-trivial = workbook has a tricky constant or sheet name or an array '
        'formula or a name; distinct by exported dict.')
ASSUMPTIONS = ['cell values are compared through the flattened solution (every node); formulas use the restricted grammar of the workbook generator',
               'formula-tree level round trip (C01 trees) is checked by C01 (O4); here only exported model formulas are re-parsed']
WATCHDOG_S = 120

TRICKY = ['=x', '=1+1', '=a"b', '="q"', '{=x}', '{=SUM(1)}', '#N/A', '#REF!', '#DIV/0!', '#EMPTY', '#empty', 'a"b', '""', "it's", "'lead",
          'two\nlines', ' lead', 'trail ', 'TRUE', 'true', '1e3', '007', '=', '==x', '@x',
          # the special spellings again, padded with blanks: text that merely resembles a marker, a formula, an error or a logical
          ' #EMPTY', '#empty ', '\t#EMPTY', ' =x', '=x ', ' #N/A', '#N/A ', ' TRUE', ' 1e3', ' {=x}']
PADDED = {' #EMPTY': 'text-padded-empty-marker', '#empty ': 'text-padded-empty-marker', '\t#EMPTY': 'text-padded-empty-marker', ' =x': 'text-padded-formula-like',
          '=x ': 'text-formula-like', ' #N/A': 'text-padded-error-like', '#N/A ': 'text-padded-error-like', ' TRUE': 'text-padded-logical-like',
          ' 1e3': 'text-padded-number-like', ' {=x}': 'text-padded-formula-like'}
TRICKY_CLASS = {
    '=x': 'text-formula-like', '=1+1': 'text-formula-like', '=a"b': 'text-formula-quote', '="q"': 'text-formula-quote',
    '{=x}': 'text-array-formula-like', '{=SUM(1)}': 'text-array-formula-like', '#N/A': 'text-error-like', '#REF!': 'text-error-like',
    '#DIV/0!': 'text-error-like', '#EMPTY': 'text-empty-marker', '#empty': 'text-empty-marker', 'a"b': 'text-quote', '""': 'text-quote',
    "it's": 'text-apostrophe', "'lead": 'text-apostrophe', 'two\nlines': 'text-newline', ' lead': 'text-space', 'trail ': 'text-space',
    'TRUE': 'text-logical-like', 'true': 'text-logical-like', '1e3': 'text-number-like', '007': 'text-number-like', '=': 'text-equals-only',
    '==x': 'text-formula-like', '@x': 'text-at'}
TRICKY_CLASS.update(PADDED)
# -1e-300 is excluded by construction: a constant below 5e-16 is rounded to 0 on load (listed finding F36, whose
# example stays in the replay tier); its knock-on effects (0/x = #DIV/0!) would otherwise need a broad signature
NUMS = [-0.0, 1e-7, 1.5e-10, 2.0 ** 53 + 2, 1e15, 1e22, 123456789.123456789, 0.1, 1 / 3.0, 1e300]


import re
_SIGNRUN = re.compile(r'[-+]\s*[-+]')  # a binary/unary sign directly followed by a unary sign (the repo folds such runs)


def const_class(v):
    if isinstance(v, str):
        return TRICKY_CLASS.get(v, 'text')
    if isinstance(v, bool):
        return 'logical'
    if isinstance(v, list):
        return 'error'
    if isinstance(v, float):
        if v == 0 and str(v).startswith('-'):
            return 'num-negzero'
        if v != 0 and (abs(v) < 1e-4 or abs(v) >= 1e15):
            return 'num-extreme'
        return 'num'
    return 'other'


def tricky_const():
    return st.one_of(st.sampled_from(TRICKY), st.sampled_from(TRICKY), st.sampled_from(NUMS),
                     st.sampled_from(G.NUM_CONST), st.sampled_from(G.TXT_CONST), st.booleans(),
                     st.sampled_from(G.ERR_CONST).map(lambda e: ['E', e]))


def sheet_class_of(spec, b, s):
    nm = spec['books'][b]['sheets'][s]
    for cls, lst in dict(G.SHEET_NAMES, **G.SHEET_NAMES_EXTRA).items():
        if nm in lst:
            return cls
    return 'plain'


def classify_key(spec, flatkey):
    """(SHEET_ID, r, c) -> signature class: the constant class of that cell, or
    'formula', refined by the sheet-name class when that needs quoting."""
    sid, r, c = flatkey
    for cell in spec['cells']:
        b, s = cell['at'][0], cell['at'][1]
        if G.sheet_id(spec, b, s) != sid:
            continue
        if (r, c) in [(k[2], k[3]) for k in W.cell_keys(cell)]:
            sc = sheet_class_of(spec, b, s)
            base = const_class(cell['v']) if 'f' not in cell else ('array-formula' if 'arr' in cell else 'formula')
            return base if sc != 'apostrophe' else 'sheet-%s/%s' % (sc, 'const' if 'f' not in cell else 'formula')
    return 'other-cell'


def key_class(spec, dict_key):
    sheets = [(sheet_class_of(spec, b, s), spec['books'][b]['sheets'][s]) for b, bk in enumerate(spec['books']) for s in range(len(bk['sheets']))]
    for cls, nm in sheets:
        if cls == 'apostrophe' and nm.upper() in dict_key.upper():
            return 'sheet-' + cls
    return 'plain'


def check_spec(case):
    spec = case['spec']
    fails = []
    expected = W.evaluate(spec)
    if case.get('path', 'file') == 'file':
        with G.workdir() as d:
            paths = G.write_files(spec, d)
            m = sut.ExcelModel().loads(*paths).finish()
    else:
        m = sut.ExcelModel().from_dict(G.to_dict(spec))
    flat0, _ = G.flatten(m.calculate())
    d1 = m.to_dict()
    try:
        d1j = json.loads(json.dumps(d1))
    except (TypeError, ValueError) as ex:
        return R([('json|not-serialisable', repr(ex))], nt=True)
    # the export of a copy of the model is the export of the model
    import copy as _copy
    try:
        dc = _copy.deepcopy(m).to_dict()
        if _norm(dc) != _norm(d1):
            diff = [k for k in sorted(set(d1) | set(dc), key=str) if _n1(d1.get(k, '<absent>')) != _n1(dc.get(k, '<absent>'))]
            fails.append(('export|deepcopy-differs', 'to_dict() of a deep copy differs at %s: %r vs %r' % (
                diff[:3], [d1.get(k, '<absent>') for k in diff[:3]], [dc.get(k, '<absent>') for k in diff[:3]])))
    except sut.Watchdog:
        raise
    except Exception as ex:
        fails.append(('export|deepcopy-raised:%s' % type(ex).__name__, repr(ex)[:200]))
    tricky_sheet = any(sheet_class_of(spec, b, s) == 'apostrophe'
                       for b, bk in enumerate(spec['books']) for s in range(len(bk['sheets'])))
    # (c) every exported formula parses back to the same expr
    for k, v in d1.items():
        if isinstance(v, str) and v.startswith('=') and v.strip() != '=':
            try:
                e = sut.expr(v)
            except sut.FormulaError:
                fails.append(('expr|unparsable|%s' % _fclass(spec, k, v), '%s: exported %r does not parse' % (k, v)))
                continue
            if e != v[1:]:
                fails.append(('expr|changed|%s' % _fclass(spec, k, v), '%s: exported %r re-parses to %r' % (k, v, e)))
    # (a) import and compare values
    try:
        m2 = sut.ExcelModel().from_dict(d1j)
        flat2, _ = G.flatten(m2.calculate())
    except sut.Watchdog:
        raise
    except Exception as ex:
        fails.append(('import|raised:%s|%s' % (type(ex).__name__, 'tricky-sheet' if tricky_sheet else _first_tricky(spec)), repr(ex)[:300]))
        return R(_uniq(fails), nt=True, labels=_labels(spec))
    for k in sorted(set(flat0) | set(flat2)):
        a, b = flat0.get(k, sut.BLANK), flat2.get(k, sut.BLANK)
        if not X.same(a, b, 0) and not (isinstance(a, sut.Blank) and isinstance(b, sut.Blank)):
            kc = classify_key(spec, k)
            if kc in ('formula', 'array-formula') and any(isinstance(v, str) and v.startswith('=') and _SIGNRUN.search(v) for v in d1.values()):
                kc = 'sign-run'  # the cell itself or a precedent of it has a folded sign run (listed finding F2)
            fails.append(('value|%s' % kc, '%s: before %r, after import %r' % (k, a, b)))
    # the original model itself against the reference (wiring of the tricky alphabet)
    fails += G.compare(spec, flat0, expected, sub='load-apostrophe' if tricky_sheet else 'load')
    # (b) fixed point
    d2 = m2.to_dict()
    sure = guaranteed_placeholders(spec)
    absent = sorted(k for k in sure if k not in {str(x).upper() for x in d1})
    if absent and not tricky_sheet:
        fails.append(('fixpoint|blank-placeholder-due-in-first-export', '%s: no placeholder in the first export although its rectangle has one blank left' % absent[:3]))
    if _norm(d2) != _norm(d1):
        diff = [k for k in sorted(set(d1) | set(d2), key=str) if _n1(d1.get(k, '<absent>')) != _n1(d2.get(k, '<absent>'))]
        for k in diff[:4]:
            if {repr(d1.get(k, '<absent>')), repr(d2.get(k, '<absent>'))} == {repr('<absent>'), repr('#EMPTY')}:
                if str(k).upper() in sure and k not in d1:
                    # not the listed drift (F37): this placeholder is due in the first model already
                    fails.append(('fixpoint|blank-placeholder-due-in-first-export', '%s: absent from the first export, %r in the second' % (k, d2.get(k))))
                    continue
                fails.append(('fixpoint|blank-placeholder', '%s: first export %r, second export %r' % (k, d1.get(k, '<absent>'), d2.get(k, '<absent>'))))
                continue
            fails.append(('fixpoint|%s' % _dclass(spec, k, d1.get(k, d2.get(k))), '%s: first export %r, second export %r' % (k, d1.get(k, '<absent>'), d2.get(k, '<absent>'))))
    else:
        try:
            d3 = sut.ExcelModel().from_dict(json.loads(json.dumps(d2))).to_dict()
            if _norm(d3) != _norm(d2):
                fails.append(('fixpoint|third-trip', 'third export differs from the second'))
        except Exception as ex:  # noqa
            fails.append(('fixpoint|third-trip-raised', repr(ex)[:200]))
    labels = _labels(spec)
    nt = tricky_sheet or any(l.startswith('const:text-') or l.startswith('const:num-') or l in ('form:array-formula', 'names') for l in labels)
    return R(_uniq(fails), nt=nt, n=4, labels=labels)


def guaranteed_placeholders(spec):
    """Blank cells that certainly get a placeholder in the FIRST model, whatever the iteration order: referenced rectangles
    are handled in order of their number of unpopulated cells, and a rectangle with at most one unpopulated cell left
    (placeholders of rectangles with strictly fewer blanks count as populated) materialises it.  -> set of upper-case node ids"""
    pop = W.populated(spec)
    names = spec.get('names', [])
    rects = set()
    for cell in spec['cells']:
        if 'f' in cell:
            for kind, x in W.refs_of(cell['f'], names):
                if kind == 'cell':
                    rects.add(tuple(x) + (x[2], x[3]))
                elif kind == 'rect':
                    rects.add(tuple(x))
    for nm in names:
        rects.add(tuple(nm['rect']))
    miss = {}
    for (b, s_, r1, c1, r2, c2) in rects:
        m = {(b, s_, r, c) for r in range(r1, r2 + 1) for c in range(c1, c2 + 1)} - pop
        if m:
            miss[(b, s_, r1, c1, r2, c2)] = m
    sure = set()
    for n in sorted({len(m) for m in miss.values()}):
        lower = set(sure)
        for rect, m in miss.items():
            if len(m) == n and len(m - lower) <= 1:
                sure |= m - lower
    return {G.node_id(spec, k) for k in sure}


def _n1(v):
    return repr(v)


def _norm(d):
    return {k: _n1(v) for k, v in d.items()}


def _uniq(fails):
    seen, out = set(), []
    for s, d in fails:
        if s not in seen:
            seen.add(s)
            out.append((s, d))
    return out


def _labels(spec):
    lb = set(G.features_of(spec))
    for cell in spec['cells']:
        if 'f' not in cell:
            lb.add('const:' + const_class(cell['v']))
    return sorted(lb)


def _first_tricky(spec):
    for cell in spec['cells']:
        if 'f' not in cell and const_class(cell['v']) not in ('text', 'num', 'logical', 'error'):
            return const_class(cell['v'])
    return 'plain'


def _cell_of_key(spec, k):
    ku = str(k).upper()
    for cell in spec['cells']:
        if G.node_id(spec, tuple(cell['at'])) == ku or (
                'arr' in cell and ku.startswith(G.node_id(spec, tuple(cell['at'])) + ':')):
            return cell
    return None


def _signrun_at(spec, d1, flatkey):
    sid, r, c = flatkey
    for k, v in d1.items():
        if isinstance(v, str) and v.startswith('=') and _SIGNRUN.search(v):
            cell = _cell_of_key(spec, k)
            if cell is not None and G.sheet_id(spec, cell['at'][0], cell['at'][1]) == sid and (r, c) in [(x[2], x[3]) for x in W.cell_keys(cell)]:
                return True
    return False


def _dclass(spec, k, v):
    cell = _cell_of_key(spec, k)
    kc = key_class(spec, str(k))
    if kc != 'plain':
        return kc
    if isinstance(v, str) and v.startswith('=') and _SIGNRUN.search(v) and (cell is None or 'f' in cell):
        return 'sign-run'
    if cell is not None and 'f' not in cell:
        return const_class(cell['v'])
    return 'formula'


def _fclass(spec, k, v):
    """class of an exported formula string for signatures"""
    cell = _cell_of_key(spec, k)
    if cell is not None and 'f' not in cell:
        return 'const-' + const_class(cell['v'])
    kc = key_class(spec, v)
    if kc != 'plain':
        return kc
    kc = key_class(spec, str(k))
    if kc != 'plain':
        return kc
    if _SIGNRUN.search(v):
        return 'sign-run'
    return 'formula'


HEX_VALUES = ['_x0001_', '_x0007_', '_x001F_', '_x007F_']
HEX_LOOKALIKES = ['_x0001', 'x0001_', '_xZZZZ_', '_x1_', 'a_x0001_']


def hexvalue_cases():
    """Fixed shapes (added after seed c09-b-r5): control-character constants in the documented dictionary form
    {'type': 'HexValue', 'value': '_xHHHH_'} (what the workbook reader delivers for such shared strings; openpyxl cannot write
    them, so the file path is out of reach), next to texts that only look similar, with formulas that tell them apart."""
    S = "'[b.xlsx]S'!"
    for hv in HEX_VALUES:
        for la in HEX_LOOKALIKES:
            d = {S + 'A1': {'type': 'HexValue', 'value': hv}, S + 'A2': la, S + 'A3': 7.0}
            for r in ('1', '2'):
                d[S + 'B' + r] = '=CODE(A%s)' % r
                d[S + 'C' + r] = '=A%s=CHAR(%d)' % (r, int(hv[2:6], 16))
                d[S + 'D' + r] = '=LEN(A%s)&"|"&A%s' % (r, r)
                d[S + 'E' + r] = '=IF(ISTEXT(A%s),A3+1,0)' % r
            yield {'k': 'rawdict', 'd': d, 'tag': 'hexvalue'}


def check_rawdict(case):
    """Round trip of a model given as a dictionary: same values after to_dict -> JSON -> from_dict, constants of the same
    type, and the export is a fixed point."""
    fails = []
    m = sut.ExcelModel().from_dict(case['d'])
    sol0 = m.calculate()
    flat0, _ = G.flatten(sol0)
    d1 = m.to_dict()
    try:
        d1j = json.loads(json.dumps(d1))
    except (TypeError, ValueError) as ex:
        return R([('json|not-serialisable|%s' % case['tag'], repr(ex))], nt=True)
    m2 = sut.ExcelModel().from_dict(d1j)
    sol2 = m2.calculate()
    flat2, _ = G.flatten(sol2)
    for k in sorted(set(flat0) | set(flat2)):
        a, b = flat0.get(k, sut.BLANK), flat2.get(k, sut.BLANK)
        if not X.same(a, b, 0) and not (isinstance(a, sut.Blank) and isinstance(b, sut.Blank)):
            fails.append(('value|%s' % case['tag'], '%s: before %r, after import %r' % (k, a, b)))

    def kinds(sol):
        out = {}
        for k, v in sol.items():
            if isinstance(k, str) and hasattr(v, 'value'):
                out[k] = [type(x).__name__ for x in sut.np.ravel(v.value)]
        return out
    k0, k2 = kinds(sol0), kinds(sol2)
    for k in sorted(k0):
        if k in k2 and k0[k] != k2[k] and any('HexValue' in (a, b) for a, b in zip(k0[k], k2[k])):
            fails.append(('type|%s' % case['tag'], '%s: element types %r before, %r after import' % (k, k0[k], k2[k])))
    d2 = m2.to_dict()
    if _norm(d2) != _norm(d1):
        diff = [k for k in sorted(set(d1) | set(d2), key=str) if _n1(d1.get(k, '<absent>')) != _n1(d2.get(k, '<absent>'))]
        fails.append(('fixpoint|%s' % case['tag'], 'first export %r, second export %r' % ([d1.get(k, '<absent>') for k in diff[:3]], [d2.get(k, '<absent>') for k in diff[:3]])))
    return R(_uniq(fails), nt=True, n=3, labels=['rawdict:' + case['tag']])


def check_case(case):
    if case['k'] == 'rawdict':
        return check_rawdict(case)
    if case['k'] == 'spec':
        spec = case['spec']
        apos = any(sheet_class_of(spec, b, s) == 'apostrophe' for b, bk in enumerate(spec['books']) for s in range(len(bk['sheets'])))
        if not apos:
            return check_spec(case)
        try:
            return check_spec(case)
        except sut.Watchdog:
            raise
        except Exception as ex:
            import traceback
            fr = [f for f in traceback.extract_tb(ex.__traceback__) if f.filename.startswith(sut.REPO)]
            if not fr:
                raise
            # listed finding F11 (apostrophe in a sheet name): whatever the repository raises on such a book is that finding
            return R([('crash-sheet-apostrophe|%s' % type(ex).__name__, '%s at %s:%s: %s' % (type(ex).__name__, fr[-1].filename, fr[-1].name, str(ex)[:200]))],
                     nt=True, labels=_labels(spec))
    raise ValueError(case['k'])


def _tricky(tier):
    return G.specs(tier, max_books=2, wholecols=False, const=tricky_const(), max_cells=10,
                   sheet_classes=['plain', 'plain', 'space', 'mixed', 'nonascii', 'plain', 'plain', 'digit', 'punct', 'apostrophe']
                   ).map(lambda spec: {'k': 'spec', 'spec': spec, 'path': 'file'})


# file names that start with a digit are file names, not numbered external links ([1]Sheet)
BOOK_NAMES = ['b%d.xlsx', 'b%d.xlsx', '2024_%d.xlsx', '%dq.xlsx', 'Book %d.xlsx']


def _plain(tier):
    return st.builds(lambda spec, path: {'k': 'spec', 'spec': spec, 'path': path},
                     G.specs(tier, max_books=2, wholecols=False, book_names=BOOK_NAMES), st.sampled_from(['file', 'dict']))


# floats that never passed through the xlsx reader (which keeps 15 decimals): the dictionary path must keep every bit
RAWFLOATS = [0.1 + 0.2, 4e-17, 1.2345678901234567e-05, 1.0 + 2.0 ** -52, 1.0 - 2.0 ** -53, 2.0 / 3.0, 1e-300, 5e-324, 1.7976931348623157e308,
             123456.78901234568, -7.000000000000001, 0.30000000000000004, 2.0 ** -40, 1e-16, 9007199254740993.0]


def _dictnums(tier):
    const = st.one_of(st.sampled_from(RAWFLOATS), st.sampled_from(RAWFLOATS).map(lambda x: -x),
                      st.floats(allow_nan=False, allow_infinity=False, width=64),
                      st.floats(min_value=-1.0, max_value=1.0, allow_nan=False), st.sampled_from(G.NUM_CONST))
    return G.specs(tier, max_books=1, wholecols=False, const=const, max_cells=8).map(lambda spec: {'k': 'spec', 'spec': spec, 'path': 'dict'})


def placeholder_shapes():
    """Fixed shapes around blank placeholders: rectangle P with two or three unpopulated cells, rectangle Q (and R) sharing
    one of them and having fewer blanks; every order of the reading formulas; dict and file path."""
    S = [0, 0]
    geoms = {
        # name: (populated cells, rectangles in 'more blanks first' order)
        'col-row': ([(1, 1), (2, 2), (2, 3)], [[1, 1, 3, 1], [2, 1, 2, 3]]),                      # P=A1:A3 {A2,A3}; Q=A2:C2 {A2}
        'col-longrow': ([(1, 1), (2, 2), (2, 3), (2, 4), (2, 5), (2, 6)], [[1, 1, 3, 1], [2, 1, 2, 6]]),
        'block-col': ([(1, 1), (2, 2), (3, 1), (4, 1)], [[1, 1, 2, 2], [2, 1, 4, 1]]),            # P=A1:B2 {B1,A2}; Q=A2:A4 {A2}
        'chain3': ([(1, 1), (2, 2), (3, 3), (4, 2)], [[1, 1, 3, 1], [3, 1, 3, 2], [3, 2, 4, 2]]),  # P {A2,A3}; Q=A3:B3 {A3,B3}; R=B3:B4 {B3}
        'three-blanks': ([(1, 1), (2, 2), (3, 2), (3, 3)], [[1, 1, 4, 1], [2, 1, 2, 2], [3, 1, 3, 3]]),
    }
    import itertools
    for gname, (pop, rects) in geoms.items():
        for order in itertools.permutations(range(len(rects))):
            cells = [{'at': S + [r, c], 'v': float(r * 10 + c)} for r, c in pop]
            for j, i in enumerate(order):
                r1, c1, r2, c2 = rects[i]
                cells.append({'at': S + [6, 1 + j], 'f': ['fn', 'SUM', ['rng', S + [r1, c1, r2, c2]]]})
            spec = {'books': [{'name': 'b0.xlsx', 'sheets': ['S1']}], 'cells': cells, 'names': []}
            for path in ('dict', 'file'):
                yield {'k': 'spec', 'spec': spec, 'path': path, 'shape': gname}


STRATEGIES = {'tricky': _tricky, 'plain': _plain, 'dictnums': _dictnums}


def parts(tier, seed):
    q = tier == 'quick'
    return [
        ('hyp', 'tricky', 800 if q else 8000, 10),
        ('hyp', 'plain', 480 if q else 5000, 10),
        ('hyp', 'dictnums', 480 if q else 5000, 10),
        ('enum', 'placeholder-shapes', list(placeholder_shapes()), 4, False),
        ('enum', 'hexvalue-constants', list(hexvalue_cases()), 4, False),
    ]
