"""C08 - compiled functions agree with interpretation for every argument."""
import copy
from hypothesis import strategies as st

from .. import sut
from ..runner import R
from ..xlref import wb as W
from ..xlref import core as X
from ..gen import workbooks as G
from ..gen import wbops as O

ID = 'C08'
RULE = ('Model level: Hypothesis workbook specs (dict and file path) x input lists drawn from constant cells, formula cells, '
        'single- and multi-cell defined names and referenced ranges x output lists mixing formula cells downstream of the inputs '
        'with ones that are not x 1-3 argument tuples of every value kind (chosen to differ from the stored values: errors, text, '
        'blanks, logicals, numbers that flip IF branches). Oracle: model.compile(ins, outs)(*args) == a FRESH model\'s '
        'calculate(dict(zip(ins, args)), outs) node by node == the independent evaluator with those cells overridden. '
        'Formula level: random scalar formula trees over cells A1..C3 compiled with Parser: arguments are taken in the order of '
        'list(func.inputs) and the result must equal the same formula with the arguments written in as literals, and the reference '
        'evaluator. Non-trivial = >= 1 output depends on an input and >= 1 does not, and an argument differs in kind from the '
        'stored value; distinct by (spec, ins, outs, args).')
ASSUMPTIONS = ['precondition (by construction): >= 1 output lies downstream of the inputs and no output is itself an input - '
               'compile() refuses other lists loudly at compile time, which is not a wrong value',
               'array-formula cells are never inputs']
WATCHDOG_S = 120


def kindname(v):
    return X.cls(W.const(v)) if v is not None else 'blank'


def check_model(case):
    spec, ins, outs, argsets, path = case['spec'], case['ins'], case['outs'], case['args'], case['path']
    fails, labels = [], ['path:' + path]
    with G.workdir() as d:
        m = O.build(spec, path, d)
        in_ids, in_ovs = [], []
        for ov in ins:
            nid = O.node_of(m, O.target_id(spec, ov))
            if nid is not None:
                in_ids.append(nid)
                in_ovs.append(ov)
        out_keys = [tuple(k) for k in outs]
        out_ids = [O.node_of(m, G.node_id(spec, k)) for k in out_keys]
        if not ins or not outs:
            return R(labels=['skipped:no-inputs-or-outputs'])
        if not in_ids or None in out_ids or not out_ids:
            return R(labels=['skipped:node-missing'])
        in_cells = set()
        for ov in in_ovs:
            b, s, r1, c1, r2, c2 = O.target_rect(spec, ov)
            in_cells |= {(b, s, r, c) for r in range(r1, r2 + 1) for c in range(c1, c2 + 1)}
        down = W.downstream(spec, in_cells)
        dep = [k for k in out_keys if k in down and k not in in_cells]
        if not dep or any(k in in_cells for k in out_keys):
            return R(labels=['skipped:precondition'])
        try:
            func = m.compile(in_ids, out_ids)
        except sut.Watchdog:
            raise
        except Exception as ex:
            # a loud refusal at compile time is outside the asserted contract (DESIGN C08 "Not asserted"); an AttributeError,
            # TypeError, KeyError ... is not a refusal but the compiler falling over
            if isinstance(ex, (AttributeError, TypeError, KeyError, IndexError, NameError, RecursionError, ArithmeticError)):
                return R([('compile-raised|%s' % type(ex).__name__, 'compile(%s, %s) raised %r' % (in_ids, out_ids, ex))], nt=True,
                         labels=['compile-raised:%s' % type(ex).__name__])
            return R(labels=['compile-refused:%s' % type(ex).__name__])
        fresh = O.build(spec, path, d + '_f') if path == 'file' else O.build(spec, path)
        base = W.evaluate(spec)
        ntk = []
        for ai, args in enumerate(argsets):
            ovs = []
            for ov, a in zip(in_ovs, args):
                o2 = list(ov)
                o2[2] = a if ov[0] == 'cell' else _shape_like(spec, ov, a)
                ovs.append(o2)
            vals = [O.repo_value(spec, o) for o in ovs]
            expected = W.evaluate(spec, O.to_cells(spec, ovs))
            if case.get('whatif') and ai > 0:
                # a calculation with other supplied values on the model the function was compiled from, between two
                # calls: the function is a value of its own and must not see it
                prev = argsets[ai - 1]
                povs = []
                for ov, a in zip(in_ovs, prev):
                    o2 = list(ov)
                    o2[2] = a if ov[0] == 'cell' else _shape_like(spec, ov, a)
                    povs.append(o2)
                m.calculate(inputs={nid: O.repo_value(spec, o) for nid, o in zip(in_ids, povs)})
                wins, _ = O.to_inputs(m, spec, case.get('whatif_ovs') or [])
                if wins:
                    m.calculate(inputs=wins)
                    labels += ['whatif:' + l for l in O.ov_labels(spec, case['whatif_ovs'])]
                labels.append('whatif-between-calls')
            try:
                res = func(*vals)
            except sut.Watchdog:
                raise
            except Exception as ex:
                fails.append(('compiled|raised:%s|%s' % (type(ex).__name__, '+'.join(O.ov_labels(spec, ovs))), 'compiled call raised %r for args %r' % (ex, args)))
                continue
            if len(out_ids) == 1:
                res = [res]
            inputs = {nid: O.repo_value(spec, o) for nid, o in zip(in_ids, ovs)}
            sol = fresh.calculate(inputs=inputs, outputs=list(out_ids))
            for k, oid, rv in zip(out_keys, out_ids, res):
                got = sut.one(rv)
                interp = sut.one(sol[oid]) if oid in sol else sut.Foreign('no-output')
                exp = expected.get(k)
                cls = 'downstream' if k in down else 'independent'
                tag = '+'.join(O.ov_labels(spec, ovs))
                if not X.same(got, interp, 1e-12):
                    fails.append(('frozen|%s|%s|vs-calculate' % (tag, cls), '%s: compiled %r, calculate %r (args %r)' % (G.node_id(spec, k), got, interp, args)))
                elif not isinstance(exp, W.Unsure) and not X.same(got, 0.0 if isinstance(exp, sut.Blank) else exp, 1e-9):
                    fails.append(('frozen|%s|%s|vs-reference' % (tag, cls), '%s: compiled %r, reference %r (args %r)' % (G.node_id(spec, k), got, exp, args)))
            differs = any(kindname(_first(a)) != kindname(W.unconst(base.get(tuple(O.target_rect(spec, o)[:2]) + tuple(O.target_rect(spec, o)[2:4]), sut.BLANK)))
                          for o, a in zip(ovs, args))
            if len(dep) < len(out_keys) and differs:
                ntk.append(('m', G.to_dict(spec) and sorted(G.to_dict(spec).items(), key=str).__repr__(), repr(ins), repr(outs), repr(args)))
            labels += O.ov_labels(spec, ovs)
        labels += ['outs:mixed' if len(dep) < len(out_keys) else 'outs:all-downstream']
        # ---- compile again with the SAME lists after the model was edited: nothing of the first compilation may survive
        ed = case.get('edit')
        consts = [c for c in spec['cells'] if 'f' not in c and not isinstance(c['v'], list) and tuple(c['at']) not in in_cells]
        if ed and consts and argsets:
            import copy as _copy
            spec2 = _copy.deepcopy(spec)
            cell = [c for c in spec2['cells'] if 'f' not in c and not isinstance(c['v'], list) and tuple(c['at']) not in in_cells][ed[0] % len(consts)]
            cell['v'] = ed[1]
            b_, s_, r_, c_ = cell['at']
            m.from_dict({G.qual_full(spec2, b_, s_) + G.a1(r_, c_): G.const_out(ed[1])})
            try:
                func2 = m.compile(in_ids, out_ids)
            except sut.Watchdog:
                raise
            except Exception as ex:
                func2 = None
                labels.append('recompile-refused:%s' % type(ex).__name__)
            if func2 is not None:
                args = argsets[0]
                ovs = []
                for ov, a in zip(in_ovs, args):
                    o2 = list(ov)
                    o2[2] = a if ov[0] == 'cell' else _shape_like(spec2, ov, a)
                    ovs.append(o2)
                expected = W.evaluate(spec2, O.to_cells(spec2, ovs))
                res = func2(*[O.repo_value(spec2, o) for o in ovs])
                if len(out_ids) == 1:
                    res = [res]
                for k, rv in zip(out_keys, res):
                    got, exp = sut.one(rv), expected.get(k)
                    if not isinstance(exp, W.Unsure) and not X.same(got, 0.0 if isinstance(exp, sut.Blank) else exp, 1e-9):
                        fails.append(('recompiled|%s|%s' % ('+'.join(O.ov_labels(spec2, ovs)), 'downstream' if k in down else 'independent'),
                                      '%s: after editing %s to %r and compiling the same lists again: %r, reference %r (args %r)' % (
                                          G.node_id(spec2, k), G.node_id(spec2, tuple(cell['at'])), ed[1], got, exp, args)))
                labels.append('recompiled-after-edit')
    seen, out = set(), []
    for s_, d_ in fails:
        if s_ not in seen:
            seen.add(s_)
            out.append((s_, d_))
    return R(out, nt=ntk, n=len(argsets) * len(out_ids), labels=labels)


def _first(a):
    while isinstance(a, list) and a and not (len(a) == 2 and a[0] == 'E'):
        a = a[0]
    return a


def _shape_like(spec, ov, a):
    """argument for a name/range input: a 2-D list shaped like the target; `a` may be a scalar const (filled) or rows"""
    b, s, r1, c1, r2, c2 = O.target_rect(spec, ov)
    if isinstance(a, list) and a and isinstance(a[0], list) and not (len(a) == 2 and a[0] == 'E'):
        return a
    return [[a for _ in range(c1, c2 + 1)] for _ in range(r1, r2 + 1)]


# ------------------------------------------------------------------ formula level
CELLS = [(r, c) for r in (1, 2, 3) for c in (1, 2, 3)]


def f_render(t, env=None):
    """tree over ['cell', r, c] leaves; env: substitute literals"""
    k = t[0]
    if k == 'cell':
        if env is not None:
            return X.literal(W.const(env['%s%d' % (G.col(t[2]), t[1])]))
        return '%s%d' % (G.col(t[2]), t[1])
    if k == 'num':
        return G._lit_num(t[1])
    if k == 'str':
        return '"%s"' % t[1]
    if k == 'bin':
        return '(%s%s%s)' % (f_render(t[2], env), t[1], f_render(t[3], env))
    if k == 'neg':
        return '-(%s)' % f_render(t[1], env)
    if k == 'fn':
        return '%s(%s)' % (t[1], ','.join(f_render(a, env) for a in t[2:]))
    raise ValueError(k)


def f_to_wbtree(t):
    k = t[0]
    if k == 'cell':
        return ['ref', [0, 0, t[1], t[2]]]
    if k in ('num', 'str'):
        return t
    if k == 'bin':
        return ['bin', t[1], f_to_wbtree(t[2]), f_to_wbtree(t[3])]
    if k == 'neg':
        return ['neg', f_to_wbtree(t[1])]
    return ['fn', t[1]] + [f_to_wbtree(a) for a in t[2:]]


def check_formula(case):
    tree, env = case['tree'], case['env']
    text = '=' + f_render(tree)
    func = sut.compile_formula(text)
    names = list(func.inputs)
    fails = []
    missing = [n for n in names if n not in env]
    if missing:
        return R([('formula|inputs-unknown', '%s reports inputs %s' % (text, names))], nt=True)
    args = [sut.rng(n, [[W.const(env[n])]]) for n in names]
    got = sut.one(func(*args))
    lit_text = '=' + f_render(tree, env)
    lit = sut.one(sut.compile_formula(lit_text)())
    spec = {'books': [{'name': 'b.xlsx', 'sheets': ['S']}], 'names': [],
            'cells': [{'at': [0, 0, r, c], 'v': env['%s%d' % (G.col(c), r)]} for (r, c) in CELLS if '%s%d' % (G.col(c), r) in env] +
                     [{'at': [0, 0, 9, 9], 'f': f_to_wbtree(tree)}]}
    exp = W.evaluate(spec)[(0, 0, 9, 9)]
    kinds = sorted({kindname(env[n]) for n in names})
    if not X.same(got, lit, 1e-12):
        fails.append(('formula|vs-literal|%s' % _root(tree), '%s with %r -> %r but %s -> %r' % (text, {n: env[n] for n in names}, got, lit_text, lit)))
    elif not isinstance(exp, W.Unsure) and not X.same(got, exp, 1e-9):
        fails.append(('formula|vs-reference|%s' % _root(tree), '%s with %r -> %r, reference %r' % (text, {n: env[n] for n in names}, got, exp)))
    # argument order is the order of func.inputs: permuting the values must permute the meaning
    if len(names) >= 2 and env[names[0]] != env[names[1]]:
        env2 = dict(env)
        env2[names[0]], env2[names[1]] = env[names[1]], env[names[0]]
        args2 = [sut.rng(n, [[W.const(env2[n])]]) for n in names]
        got2 = sut.one(func(*args2))
        lit2 = sut.one(sut.compile_formula('=' + f_render(tree, env2))())
        if not X.same(got2, lit2, 1e-12):
            fails.append(('formula|arg-order|%s' % _root(tree), '%s: swapped first two arguments -> %r, literal form %r' % (text, got2, lit2)))
    return R(fails, nt=len(names) >= 2 and len(kinds) >= 2, n=3, labels=['formula', 'ninputs:%d' % len(names)] + ['argkind:' + k for k in kinds])


def _root(t):
    return t[1] if t[0] in ('bin', 'fn') else t[0]


def sparse_cases():
    """Fixed shapes: rectangles most of whose cells are unpopulated (the repository assembles them from the *solution*),
    read by two overlapping aggregates and a defined name; sequences that interleave compile / call / what-if calculations."""
    vals = [[10.0, 20.0, 30.0, 40.0, 50.0, 60.0, 70.0, 80.0, 90.0], [1.5, -2.0, 3.0, 'zz', True, 6.0, 7.0, 0.0, 9.0]]
    shapes = {
        'col': dict(full=[0, 0, 1, 1, 6, 1], sub=[0, 0, 2, 1, 5, 1], pop=[(1, 1), (2, 1)]),
        'row': dict(full=[0, 0, 1, 1, 1, 6], sub=[0, 0, 1, 2, 1, 5], pop=[(1, 1), (1, 2)]),
        'block': dict(full=[0, 0, 1, 1, 3, 3], sub=[0, 0, 2, 1, 3, 3], pop=[(1, 1), (2, 2), (1, 3)]),
    }
    for sname, sh_ in shapes.items():
        full, sub = sh_['full'], sh_['sub']
        cells = [{'at': [0, 0, r, c], 'v': float(r * 3 + c)} for r, c in sh_['pop']]
        cells.append({'at': [0, 0, 1, 8], 'v': 5.0})
        cells.append({'at': [0, 0, 8, 1], 'f': ['bin', '+', ['fn', 'SUM', ['rng', full]], ['ref', [0, 0, 1, 8]]]})
        cells.append({'at': [0, 0, 8, 2], 'f': ['fn', 'SUM', ['rng', sub]]})
        cells.append({'at': [0, 0, 8, 3], 'f': ['bin', '*', ['fn', 'COUNT', ['name', 0]], ['num', 2.0]]})
        spec = {'books': [{'name': 'b0.xlsx', 'sheets': ['S1']}], 'cells': cells, 'names': [{'name': 'TOTAL_IN', 'rect': full}]}
        nr, nc = full[4] - full[2] + 1, full[5] - full[3] + 1

        def rows(v):
            return [[v[(i * nc + j) % len(v)] for j in range(nc)] for i in range(nr)]
        snr, snc = sub[4] - sub[2] + 1, sub[5] - sub[3] + 1

        def subrows(v):
            return [[v[(i * snc + j + 3) % len(v)] for j in range(snc)] for i in range(snr)]
        outs = [[0, 0, 8, 1], [0, 0, 8, 2], [0, 0, 8, 3]]
        x = ['cell', [0, 0, sh_['pop'][0][0], sh_['pop'][0][1]]]  # a populated cell inside the sparse rectangle
        rect, name = ['rect', full], ['name', 0]
        seqs = {
            'compile-call-whatif-call': [['compile', 'f', [x], outs], ['call', 'f', [7.0]], ['calc', [rect + [rows(vals[0])]]], ['call', 'f', [7.0]], ['plain']],
            'whatif-compile-call': [['calc', [rect + [rows(vals[0])]]], ['compile', 'f', [x], outs], ['call', 'f', [7.0]], ['call', 'f', [-1.0]]],
            'whatif-name-compile-call': [['calc', [name + [rows(vals[1])]]], ['compile', 'f', [x], outs], ['call', 'f', [2.0]], ['plain']],
            'whatif-compile-noinput': [['calc', [rect + [rows(vals[0])]]], ['compile', 'f', [], outs], ['call', 'f', []], ['plain']],
            'rect-fn-calls-then-plain': [['compile', 'f', [rect], outs], ['call', 'f', [rows(vals[0])]], ['call', 'f', [rows(vals[1])]], ['plain'],
                                         ['calc', [rect + [rows(vals[1])]]], ['call', 'f', [rows(vals[0])]]],
            'name-fn-and-cell-fn': [['compile', 'f', [name], outs], ['compile', 'g', [x], outs], ['call', 'f', [rows(vals[0])]], ['call', 'g', [3.0]],
                                    ['call', 'f', [rows(vals[1])]], ['call', 'g', [4.0]], ['plain']],
            'two-whatifs-then-plain': [['calc', [rect + [rows(vals[0])]]], ['calc', [rect + [rows(vals[1])]]], ['plain'], ['calc', [x + [9.0]]]],
            'sub-then-full-then-plain': [['calc', [['rect', sub, subrows(vals[0])]]], ['plain'], ['calc', [rect + [rows(vals[1])]]], ['plain'],
                                         ['calc', [['rect', sub, subrows(vals[1])]]], ['calc', [x + [2.0]]]],
            'name-whatif-then-cell-whatif': [['calc', [name + [rows(vals[0])]]], ['calc', [x + [4.0]]], ['plain']],
        }
        pop = {tuple(p_) for p_ in sh_['pop']}
        blank = [(r, c) for r in range(full[2], full[4] + 1) for c in range(full[3], full[5] + 1) if (r, c) not in pop][1]
        bc = ['blankcell', [0, 0, blank[0], blank[1]]]
        # a value for ONE unpopulated cell of the rectangle (it has no node of its own), before and after a compile
        seqs['blank-cell-whatif'] = [['calc', [bc + [10.0]]], ['plain'], ['calc', [bc + [-4.0], x + [2.0]]], ['plain']]
        seqs['compile-then-blank-cell-whatif'] = [['compile', 'f', [x], outs], ['call', 'f', [7.0]], ['calc', [bc + [10.0]]], ['plain'],
                                                  ['call', 'f', [3.0]], ['calc', [bc + [5.0], x + [1.0]]]]
        # on copies (C17): the copy takes the what-ifs, the original stays what it was
        for how in ('deepcopy', 'dill'):
            seqs['copy-%s-whatif-rect' % how] = [['copy', how], ['calc', [rect + [rows(vals[0])]]], ['orig-plain'], ['plain'],
                                                 ['calc', [name + [rows(vals[1])]]], ['orig-plain']]
            seqs['copy-%s-blank-cell' % how] = [['copy', how], ['calc', [bc + [10.0]]], ['orig-plain'], ['plain'], ['calc', [bc + [-4.0], x + [2.0]]]]
            seqs['calc-copy-%s-whatif' % how] = [['calc', [rect + [rows(vals[1])]]], ['copy', how], ['plain'], ['calc', [rect + [rows(vals[0])]]],
                                                  ['orig-plain']]
        for qname, seq in seqs.items():
            for path in ('dict', 'file'):
                yield {'k': 'sparse', 'shape': sname, 'seq': qname, 'spec': spec, 'ops': seq, 'path': path}


def alias_cases():
    """Fixed shapes (added after seed c08-a-r2): compile inputs that are names defined as other names (2 and 3 links to the
    cells), outputs that read the underlying cells directly, through the base name and through the alias."""
    for path in ('dict', 'file'):
        # two links: ALIAS = BASE, BASE = A1:A2
        cells = [{'at': [0, 0, 1, 1], 'v': 3.0}, {'at': [0, 0, 2, 1], 'v': 4.0}, {'at': [0, 0, 1, 4], 'v': 5.0},
                 {'at': [0, 0, 1, 2], 'f': ['bin', '+', ['ref', [0, 0, 1, 1]], ['ref', [0, 0, 2, 1]]]},
                 {'at': [0, 0, 2, 2], 'f': ['fn', 'SUM', ['name', 1]]},
                 {'at': [0, 0, 3, 2], 'f': ['bin', '*', ['ref', [0, 0, 1, 1]], ['num', 2.0]]},
                 {'at': [0, 0, 4, 2], 'f': ['fn', 'SUM', ['name', 0]]},
                 {'at': [0, 0, 5, 2], 'f': ['bin', '*', ['ref', [0, 0, 1, 4]], ['num', 10.0]]},
                 {'at': [0, 0, 6, 2], 'f': ['bin', '+', ['name', 2], ['num', 1.0]]}]
        names = [{'name': 'TOTAL_IN', 'rect': [0, 0, 1, 1, 2, 1]}, {'name': 'my_name', 'rect': [0, 0, 1, 1, 2, 1], 'alias': 0},
                 {'name': 'Rate.x', 'rect': [0, 0, 1, 4, 1, 4]}, {'name': 'XNAME', 'rect': [0, 0, 1, 4, 1, 4], 'alias': 2}]
        spec = {'books': [{'name': 'b0.xlsx', 'sheets': ['S1']}], 'cells': cells, 'names': names}
        outs = [[0, 0, r, 2] for r in (1, 2, 3, 4)]
        for ins, o, args in ((['name', 1, [[0.0], [0.0]]], outs, [[[[10.0], [20.0]]], [[[1.5], ['zz']]]]),
                             (['name', 0, [[0.0], [0.0]]], outs, [[[[10.0], [20.0]]], [[[True], [7.0]]]]),
                             (['name', 3, [[0.0]]], [[0, 0, 5, 2], [0, 0, 6, 2]], [[[[2.0]]], [[[-1.0]]]]),
                             (['name', 2, [[0.0]]], [[0, 0, 5, 2], [0, 0, 6, 2]], [[[[2.0]]], [[[9.0]]]])):
            yield {'k': 'model', 'spec': spec, 'ins': [ins], 'outs': o, 'args': args, 'path': path, 'edit': None, 'whatif': True, 'whatif_ovs': []}


def constname_cases():
    """Fixed shapes (added after seeds c07-a-r5 / c08-b-r5): a constant defined name (RATE), a name defined as that name
    (PCT = RATE), cells reading either, and a formula cell that depends on constant names only, lying inside a range that
    is supplied directly (through a name it is the listed finding F38: the cell's own formula wins the race).  `mode` 'compile' compares the compiled function, 'calc' a calculation."""
    rate = ['fname', 0, ['num', 0.25]]
    pct = ['fname', 1, rate]
    cells = [{'at': [0, 0, 1, 1], 'v': 100.0}, {'at': [0, 0, 2, 1], 'v': 250.0},
             {'at': [0, 0, 1, 2], 'f': ['bin', '*', ['ref', [0, 0, 1, 1]], rate]},
             {'at': [0, 0, 2, 2], 'f': ['bin', '+', ['bin', '*', ['fn', 'SUM', ['rng', [0, 0, 1, 1, 2, 1]]], rate], ['num', 1.0]]},
             {'at': [0, 0, 3, 2], 'f': ['bin', '*', ['ref', [0, 0, 1, 1]], pct]},
             {'at': [0, 0, 4, 2], 'f': ['bin', '*', rate, ['num', 100.0]]},
             {'at': [0, 0, 5, 2], 'v': 7.0},
             {'at': [0, 0, 4, 3], 'f': ['bin', '+', ['ref', [0, 0, 4, 2]], ['num', 1.0]]},
             {'at': [0, 0, 5, 3], 'f': ['fn', 'SUM', ['rng', [0, 0, 4, 2, 5, 2]]]},
             {'at': [0, 0, 1, 5], 'v': 2.0},
             {'at': [0, 0, 1, 6], 'f': ['bin', '*', ['fn', 'SUM', ['rng', [0, 0, 1, 1, 2, 1]]], ['ref', [0, 0, 1, 5]]]},
             {'at': [0, 0, 2, 6], 'f': ['bin', '+', ['ref', [0, 0, 2, 1]], ['ref', [0, 0, 1, 5]]]}]
    spec = {'books': [{'name': 'b0.xlsx', 'sheets': ['S1']}], 'cells': cells, 'names': [{'name': 'TOTAL_IN', 'rect': [0, 0, 4, 2, 5, 2]}],
            'fnames': [{'name': G.FNAME_POOL[0], 'f': rate[2], 'book': 0, 'raw': True}, {'name': G.FNAME_POOL[1], 'f': rate, 'book': 0}]}
    bs = [[0, 0, r, 2] for r in (1, 2, 3, 4)]
    cs = [[0, 0, 4, 3], [0, 0, 5, 3]]
    plans = [('alias-of-constant', [['fname', 1]], bs, [[0.5], [2.0], [0.0], [0.5]]),
             ('constant', [['fname', 0]], bs, [[0.5], [3.0]]),
             ('both', [['fname', 1], ['fname', 0]], bs, [[0.5, 3.0], [1.0, 1.0]]),
             ('repeated-output', [['fname', 0]], [bs[0], bs[1], bs[0]], [[0.5], [3.0]]),
             ('same-output-twice', [['cell', [0, 0, 1, 1]]], [bs[0], bs[0]], [[4.0], [-1.0]]),
             ('range-over-constant-formula', [['rect', [0, 0, 4, 2, 5, 2]]], cs, [[[[11.0], [12.0]]], [[[0.0], [-1.0]]]]),
             ('alias+range', [['fname', 1], ['rect', [0, 0, 4, 2, 5, 2]]], bs[:3] + cs, [[0.5, [[11.0], [12.0]]], [2.0, [[1.0], [2.0]]]])]
    for path in ('dict', 'file'):
        for mode in ('compile', 'calc', 'calc-outputs'):
            for pname, ins, outs, args in plans:
                yield {'k': 'constname', 'spec': spec, 'plan': pname, 'ins': ins, 'outs': outs, 'args': args, 'path': path, 'mode': mode}
        # a range the outputs read but the inputs do not feed is a compile-time constant of the function: what-ifs on the
        # model between two calls (other values for the cells of that range) must not reach it (added after seed c08-a-r6)
        for bname, between in (('cell-of-frozen-range', [['cell', [0, 0, 1, 1], 50.0]]),
                               ('frozen-range', [['rect', [0, 0, 1, 1, 2, 1], [[50.0], [60.0]]]]),
                               ('two-cells', [['cell', [0, 0, 1, 1], -1.0], ['cell', [0, 0, 2, 1], 0.0]])):
            yield {'k': 'constname', 'spec': spec, 'plan': 'whatif-between-calls:' + bname, 'ins': [['cell', [0, 0, 1, 5]]],
                   'outs': [[0, 0, 1, 6], [0, 0, 2, 6]], 'args': [[2.0], [3.0], [2.0]], 'path': path, 'mode': 'compile', 'between': between}


def check_constname(case):
    spec, path, mode = case['spec'], case['path'], case['mode']
    fails, n = [], 0
    with G.workdir() as d:
        m = O.build(spec, path, d)
        in_ids = [O.node_of(m, O.target_id(spec, t + [None])) for t in case['ins']]
        out_ids = [O.node_of(m, G.node_id(spec, tuple(k))) for k in case['outs']]
        if None in in_ids or None in out_ids:
            return R(labels=['skipped:node-missing'])
        func = m.compile(in_ids, out_ids) if mode == 'compile' else None
        for args in case['args']:
            ovs = [t + [a] for t, a in zip(case['ins'], args)]
            vals = [O.repo_value(spec, o) for o in ovs]
            expected = W.evaluate(spec, O.to_cells(spec, ovs), fname_over=O.to_fnames(spec, ovs))
            if mode == 'compile':
                res = func(*vals)
                res = [res] if len(out_ids) == 1 else (list(res) if isinstance(res, (list, tuple)) else [res])
                if len(res) != len(out_ids):
                    fails.append(('constname|%s|output-count' % case['plan'], 'compile(%s, %s) returns %d value(s) for %d requested outputs' % (
                        in_ids, out_ids, len(res), len(out_ids))))
                    continue
            else:
                sol = m.calculate(inputs=dict(zip(in_ids, vals)), **({'outputs': list(out_ids)} if mode == 'calc-outputs' else {}))
                res = [sol[o] if o in sol else sut.Foreign('no-output') for o in out_ids]
            n += 1
            if case.get('between'):
                binp, _ = O.to_inputs(m, spec, case['between'])
                m.calculate(inputs=binp)
            for k, rv in zip(case['outs'], res):
                got = rv if isinstance(rv, sut.Foreign) else sut.one(rv)
                exp = expected.get(tuple(k))
                if not isinstance(exp, W.Unsure) and not X.same(got, 0.0 if isinstance(exp, sut.Blank) else exp, 1e-9):
                    fails.append(('constname|%s|%s' % (case['plan'], mode), '%s: %s with %r gives %r, reference %r' % (
                        G.node_id(spec, tuple(k)), mode, args, got, exp)))
    seen, out = set(), []
    for s_, d_ in fails:
        if s_ not in seen:
            seen.add(s_)
            out.append((s_, d_))
    return R(out, nt=True, n=n, labels=['constname:' + case['plan'], 'mode:' + mode, 'path:' + path])


def check_sparse(case):
    spec, path = case['spec'], case['path']
    fails, funcs, n = [], {}, 0
    tagbase = '%s|%s' % (case['shape'], case['seq'])

    def compare(what, got_of, expected, keys):
        for k in keys:
            exp = expected.get(tuple(k))
            got = got_of(tuple(k))
            if not isinstance(exp, W.Unsure) and not X.same(got, 0.0 if isinstance(exp, sut.Blank) else exp, 1e-9):
                fails.append(('sparse|%s|%s' % (tagbase, what), '%s: %s gives %r, reference %r' % (G.node_id(spec, tuple(k)), what, got, exp)))
    from ..gen import history as H
    with G.workdir() as d:
        m = orig = O.build(spec, path, d)
        for op in case['ops']:
            if op[0] == 'compile':
                in_ids = [O.node_of(m, O.target_id(spec, t + [None])) for t in op[2]]
                out_ids = [O.node_of(m, G.node_id(spec, tuple(k))) for k in op[3]]
                if None in in_ids or None in out_ids:
                    return R(labels=['skipped:node-missing'])
                funcs[op[1]] = (m.compile(in_ids, out_ids), op[2], op[3])
            elif op[0] == 'call':
                f, ins, outs = funcs[op[1]]
                ovs = [t + [a] for t, a in zip(ins, op[2])]
                res = f(*[O.repo_value(spec, o) for o in ovs])
                res = [res] if len(outs) == 1 else list(res)
                got = {tuple(k): sut.one(rv) for k, rv in zip(outs, res)}
                compare('compiled:' + op[1], got.get, W.evaluate(spec, O.to_cells(spec, ovs)), outs)
                n += 1
            elif op[0] == 'copy':
                orig = m
                m = H.do_copy(m, op[1])
            elif op[0] in ('calc', 'plain', 'orig-plain'):
                ovs = op[1] if op[0] == 'calc' else []
                obj = orig if op[0] == 'orig-plain' else m
                blanks = [o for o in ovs if o[0] == 'blankcell']
                ovs_n = [o for o in ovs if o[0] != 'blankcell']
                inputs, missing = O.to_inputs(obj, spec, ovs_n)
                if missing:
                    return R(labels=['skipped:node-missing'])
                for o in blanks:
                    # an unpopulated cell of a sparse rectangle has no node: its id is spelled like its populated neighbours'
                    nb_ = O.node_of(obj, G.node_id(spec, (o[1][0], o[1][1]) + tuple(spec['cells'][0]['at'][2:])))
                    inputs[str(nb_).rsplit('!', 1)[0] + '!' + G.a1(o[1][2], o[1][3])] = sut.override_value(W.const(o[2]))
                ovs = ovs_n + [['cell', o[1], o[2]] for o in blanks]
                sol = obj.calculate(inputs=inputs) if inputs else obj.calculate()
                flat, _ = G.flatten(sol, supplied=set(inputs))
                outs = [c['at'] for c in spec['cells'] if 'f' in c]
                compare(('calculate' if ovs else 'plain-calculate') if op[0] != 'orig-plain' else 'original-after-copy-whatif',
                        lambda k: flat.get((G.sheet_id(spec, k[0], k[1]), k[2], k[3]), sut.BLANK), W.evaluate(spec, O.to_cells(spec, ovs)), outs)
                n += 1
    seen, out = set(), []
    for s_, d_ in fails:
        if s_ not in seen:
            seen.add(s_)
            out.append((s_, d_))
    return R(out, nt=True, n=n, labels=['sparse:' + case['shape'], 'sparse-seq:' + case['seq'], 'path:' + path])


def check_case(case):
    if case['k'] == 'sparse':
        return check_sparse(case)
    if case['k'] == 'constname':
        return check_constname(case)
    if case['k'] == 'model':
        return check_model(case)
    if case['k'] == 'formula':
        return check_formula(case)
    raise ValueError(case['k'])


@st.composite
def _model_cases(draw, tier):
    spec = draw(G.specs(tier, max_books=2, wholecols=False, name_rate=2, alias_rate=3, fname_rate=5))
    path = draw(st.sampled_from(['dict', 'dict', 'file']))
    ins = draw(O.overrides(spec, max_n=3, values=st.just(0.0), kinds=('cell', 'formula', 'name', 'name', 'rect', 'rect'), min_n=1))
    forms = [c for c in spec['cells'] if 'f' in c and 'arr' not in c]
    if not ins or not forms:
        return {'k': 'model', 'spec': spec, 'ins': [], 'outs': [], 'args': [], 'path': path}
    in_cells = set()
    for ov in ins:
        b, s, r1, c1, r2, c2 = O.target_rect(spec, ov)
        in_cells |= {(b, s, r, c) for r in range(r1, r2 + 1) for c in range(c1, c2 + 1)}
    down = W.downstream(spec, in_cells)
    dep = [tuple(c['at']) for c in forms if tuple(c['at']) in down and tuple(c['at']) not in in_cells]
    indep = [tuple(c['at']) for c in forms if tuple(c['at']) not in down]
    outs = []
    if dep:
        outs += draw(st.lists(st.sampled_from(dep), min_size=1, max_size=3, unique=True))
    if indep and draw(st.booleans()):
        outs += draw(st.lists(st.sampled_from(indep), min_size=1, max_size=2, unique=True))
    nsets = draw(st.integers(1, 3))
    args = [[draw(O.VALS if ov[0] == 'cell' else O.VALS_NOBLANK) for ov in ins] for _ in range(nsets)]
    edit = None
    if draw(st.booleans()):
        edit = [draw(st.integers(0, 30)), draw(st.sampled_from([11.0, -7.0, 2.5, 'edited', True, 0.0]))]
    return {'k': 'model', 'spec': spec, 'ins': ins, 'outs': [list(k) for k in outs], 'args': args, 'path': path, 'edit': edit, 'whatif': draw(st.booleans()),
            'whatif_ovs': draw(O.overrides(spec, max_n=2, kinds=('rect', 'rect', 'name', 'cell')))}


def _models(tier):
    return _model_cases(tier)


@st.composite
def _ftree(draw, depth=0):
    k = draw(st.integers(0, 99))
    if depth >= 3 or k < 35:
        if k % 6 == 0:
            return draw(st.one_of(st.sampled_from(G.NUM_CONST).map(lambda x: ['num', x]), st.sampled_from(G.TXT_CONST).map(lambda x: ['str', x])))
        r, c = draw(st.sampled_from(CELLS))
        return ['cell', r, c]
    if k < 65:
        return ['bin', draw(st.sampled_from(['+', '-', '*', '/', '&', '=', '<', '>', '<>', '<=', '>='])), draw(_ftree(depth + 1)), draw(_ftree(depth + 1))]
    if k < 75:
        return ['fn', 'IF', ['bin', draw(st.sampled_from(['=', '<', '>'])), draw(_ftree(depth + 1)), draw(_ftree(depth + 1))], draw(_ftree(depth + 1)), draw(_ftree(depth + 1))]
    if k < 83:
        return ['fn', 'IFERROR', draw(_ftree(depth + 1)), draw(_ftree(depth + 1))]
    if k < 90:
        return ['fn', draw(st.sampled_from(['ISERROR', 'ISNA'])), draw(_ftree(depth + 1))]
    # aggregations are deliberately absent: SUM(B2) with text in B2 skips it while SUM("zz") is #VALUE! -
    # reference and literal semantics coincide only for operators and element-wise functions
    return ['neg', draw(_ftree(depth + 1))]


_FVAL = st.one_of(st.sampled_from([0.0, 1.0, -2.0, 3.5, 10.0, 0.5]), st.sampled_from(['zz', 'Hello', 'ab', 'x']),
                  st.booleans(), st.sampled_from(['#N/A', '#DIV/0!', '#VALUE!', '#REF!']).map(lambda e: ['E', e]))


def _formulas(tier):
    return st.builds(lambda t, vals: {'k': 'formula', 'tree': t, 'env': {'%s%d' % (G.col(c), r): v for (r, c), v in zip(CELLS, vals)}},
                     _ftree(), st.lists(_FVAL, min_size=9, max_size=9))


STRATEGIES = {'models': _models, 'formulas': _formulas}


def parts(tier, seed):
    q = tier == 'quick'
    return [
        ('hyp', 'models', 1200 if q else 12000, 10),
        ('hyp', 'formulas', 4000 if q else 60000),
        ('enum', 'sparse-range-histories', [c for c in sparse_cases() if not any(op[0] == 'copy' for op in c['ops'])], 3, False),
        ('enum', 'alias-chains', list(alias_cases()), 2, False),
        ('enum', 'constant-names', [c for c in constname_cases() if c['mode'] == 'compile'], 2, False),
    ]
