"""Child process of the C10 hash-seed part.

stdin : JSON list of C10 cases ('wb' or 'cyc');  stdout: JSON list of
{'fails', 'labels', 'nt', 'n', 'obs'} in the same order, where 'obs' holds the
raw observations of a workbook case (compared between hash seeds by the
parent).  Run as `PYTHONHASHSEED=<n> VF_REPO=<repo> python -m vf.props.c10_child`."""
import sys
import json
import traceback


def main():
    from .. import sut
    from .. import runner
    from . import c10
    cases = json.loads(sys.stdin.read())
    out = []
    for case in cases:
        obs = None
        try:
            with runner.alarm(40):
                if case['k'] == 'wb':
                    res, obs = c10.check_wb(case, want_obs=True)
                else:
                    res = c10.check_case(case)
        except sut.Watchdog:
            res = runner.R(labels=['inconclusive:watchdog'])
        except Exception as ex:  # noqa
            frame, in_vf = runner._innermost_repo_frame(ex.__traceback__)
            if frame and not in_vf:
                res = runner.R(fails=[('crash|%s|%s' % (type(ex).__name__, frame), '%s: %s' % (type(ex).__name__, str(ex)[:300]))],
                               labels=['crash'])
            else:
                res = runner.R(labels=['harness-error'])
                res['harness_error'] = traceback.format_exc()[-3000:]
        res['nt'] = bool(res.get('nt'))
        res['obs'] = obs
        out.append(res)
    sys.stdout.write(json.dumps(out, default=repr))
    sys.stdout.flush()


if __name__ == '__main__':
    main()
