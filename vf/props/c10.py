"""C10 - circular references: termination, isolation and exact marking."""
import os
import sys
import json
import shutil
import random
import importlib
import signal
import itertools
import subprocess

from hypothesis import strategies as st

from .. import sut
from ..sut import Err, CIRC, Foreign
from ..runner import R
from .. import runner as _runner
from ..xlref import core as X
from ..xlref import c10_lazy as L
from ..gen import c10_wb as G

ID = 'C10'
RULE = ('E1 (exhaustive, both tiers): simple_cycles on every digraph with <= 4 labelled nodes incl. self-loops (66 066 '
        'graphs, integer and string node ids) against a brute-force DFS enumeration, as sets of rotation-normalised cycles, '
        'each exactly once; Hypothesis: random digraphs with 5-9 nodes, three node-id styles, skip_nodes, copy=True/False. '
        'E2: workbooks on random digraphs of 2-7 cells over 1-3 sheets / 1-2 books; every edge is a reference in a strict '
        'position (arithmetic, SUM over a rectangle, defined name, name of a rectangle, IF condition, first or later '
        'condition of IFS behind TRUE/FALSE earlier conditions, first argument of IFERROR) or in a guarded position (value branch of IF / IFS / IFERROR / IFNA, plain, through a rectangle, through a '
        'name, nested) whose guard is a constant, a guard cell or a comparison of a non-circular cell, selected or not; plus '
        'observers (ISERROR, IFERROR, +1, SUM) and upstream constants. Each workbook is built through from_dict (2-3 '
        'insertion orders) and/or as an xlsx file written with openpyxl (sheet order permuted) and calculated with '
        'finish(circular=True); a custom part re-runs batches in child processes with PYTHONHASHSEED 0..3 and compares. '
        'Oracle: own lazy evaluator + own cycle enumeration on the static reference graph -> per cell MUST_CIRC '
        '(exactly ERR_CIRCULAR on an active cycle, an error downstream of one), MUST_VALUE (all reachable cycles harmless: '
        'exactly the lazy value), EITHER (error, or exactly the lazy value), or nothing (behind an error-absorbing function '
        'applied to an EITHER cell, behind an active cycle whose own cells absorb errors). Non-trivial = the static graph has a cycle of '
        'length >= 2 and a cell outside every cycle, and the workbook has a MUST_CIRC cell and a MUST_VALUE cell that is '
        'downstream of a guarded edge; distinct by (cells, names). For cycle cases: the graph has a cycle of length >= 2.')
ASSUMPTIONS = ['a reference is "guarded" when it sits in a value branch of IF/IFS/IFERROR/IFNA; "selected" is decided by my own '
               'lazy evaluator; guards never depend on circular cells (by construction)',
               'which error value a dependent of a circular cell shows is not asserted (any error value is accepted)',
               'cycles with both selected and unselected guarded edges (and everything downstream of them or of an active '
               'cycle that lazy evaluation does not reach) are EITHER: an error, or exactly the lazy value',
               'an active cycle one of whose cells absorbs errors or has another error operand (IFERROR(x,..) on the cycle) is '
               'asserted only on the cycle itself (finding F-C10-2), nothing is asserted behind it',
               'hash seeds are sampled (0..3), orders are sampled (2-3 insertion orders + file order)',
               'a watchdog trip (30 s per workbook / block of 1024 graphs) is recorded as inconclusive, not as non-termination']
WATCHDOG_S = 600   # a 'hs' case runs four child interpreters one after the other
SHRINK = False  # cases come from st.randoms(): Hypothesis' shrinker gains little on them; the runner keeps the smallest failing case per signature
FLOORS = {
    'cell:circ': ('count', {'quick': 300, 'thorough': 5000}),
    'cell:err': ('count', {'quick': 100, 'thorough': 2000}),
    'cell:value/outside': ('count', {'quick': 300, 'thorough': 5000}),
    'cell:value/on-harmless': ('count', {'quick': 50, 'thorough': 1000}),
    'cell:either': ('count', {'quick': 50, 'thorough': 1000}),
    'path:file': ('count', {'quick': 50, 'thorough': 1000}),
    'path:dict': ('count', {'quick': 100, 'thorough': 2000}),
    'edge:name': ('count', {'quick': 20, 'thorough': 400}),
    'edge:range': ('count', {'quick': 50, 'thorough': 1000}),
    'edge:ifs-late-cond': ('count', {'quick': 100, 'thorough': 2000}),
    'hashseeds:4': ('count', {'quick': 1, 'thorough': 8}),
}

_cycle_mod = importlib.import_module(sut.formulas.__name__ + '.excel.cycle')  # observe_at: formulas.excel.cycle.simple_cycles


class CycTimeout(BaseException):
    pass


def _vt_handler(signum, frame):
    raise CycTimeout()


def simple_cycles_list(cpu_s, *a, **kw):
    """list(simple_cycles(...)) under a limit on the CPU time of this process (ITIMER_VIRTUAL: independent of
    machine load).  A graph of <= 9 nodes needs microseconds to milliseconds; a trip is recorded as inconclusive
    for that graph only, the other graphs of the block are still checked."""
    old = signal.signal(signal.SIGVTALRM, _vt_handler)
    signal.setitimer(signal.ITIMER_VIRTUAL, cpu_s)
    try:
        return list(_cycle_mod.simple_cycles(*a, **kw))
    finally:
        signal.setitimer(signal.ITIMER_VIRTUAL, 0)
        signal.signal(signal.SIGVTALRM, old)


# ==========================================================================
# E1: simple_cycles against brute force
# ==========================================================================
def _dedup(fails, per_sig=2):
    seen, out = {}, []
    for sig, d in fails:
        seen[sig] = seen.get(sig, 0) + 1
        if seen[sig] <= per_sig:
            out.append((sig, d))
    return out


def check_graph(nodes, edges, skip=(), copy=True, aslist=False, tag='', cpu_s=1.0):
    """-> (fails, number of elementary cycles, has a cycle of length >= 2); fails is None if simple_cycles did
    not return within cpu_s seconds of CPU time (inconclusive)"""
    g = {v: set() for v in nodes}
    for a, b in edges:
        g[a].add(b)
    sk = set(skip)
    ref = {v: {w for w in s if w not in sk} for v, s in g.items() if v not in sk}
    exp = set(L.brute_cycles(ref))
    try:
        if copy or sk:
            inp = {v: (sorted(s) if aslist else set(s)) for v, s in g.items()}
            got = simple_cycles_list(cpu_s, inp, copy=copy, skip_nodes=list(skip))
        else:
            inp = {v: set(s) for v, s in g.items()}
            got = simple_cycles_list(cpu_s, inp, copy=False)
    except CycTimeout:
        return None, len(exp), any(len(c) >= 2 for c in exp)
    fails = []
    norm = []
    for c in got:
        c = list(c)
        ok = len(set(c)) == len(c) and c and all(v in ref for v in c) and \
            all(c[(i + 1) % len(c)] in ref[c[i]] for i in range(len(c)))
        if not ok:
            fails.append(('cycles|invalid%s' % tag, 'graph %r skip %r: %r is not an elementary cycle' % (sorted(map(list, edges)), sorted(sk), c)))
            continue
        norm.append(L.rot(c))
    if len(norm) != len(set(norm)):
        dup = sorted({c for c in norm if norm.count(c) > 1})
        fails.append(('cycles|duplicate%s' % tag, 'graph %r skip %r: reported more than once: %r' % (sorted(map(list, edges)), sorted(sk), dup[:3])))
    miss = exp - set(norm)
    if miss:
        fails.append(('cycles|missing%s' % tag, 'graph %r skip %r: not reported: %r' % (sorted(map(list, edges)), sorted(sk), sorted(miss)[:3])))
    extra = set(norm) - exp
    if extra:
        fails.append(('cycles|extra%s' % tag, 'graph %r skip %r: %r' % (sorted(map(list, edges)), sorted(sk), sorted(extra)[:3])))
    return fails, len(exp), any(len(c) >= 2 for c in exp)


def _label(n, lab):
    if lab == 'int':
        return list(range(n))
    return ["'[b.xlsx]S'!%s%d" % ('BA'[i % 2], 3 - i if i < 3 else i) for i in range(n)]


def check_cycblock(case):
    n, lab = case['n'], case['lab']
    nodes = _label(n, lab)
    pairs = [(a, b) for a in range(n) for b in range(n)]
    fails, labels, nt = [], [], 0
    for mask in range(case['lo'], case['hi']):
        edges = [(nodes[a], nodes[b]) for i, (a, b) in enumerate(pairs) if mask >> i & 1]
        f, ncyc, long_ = check_graph(nodes, edges, tag='|n%d' % n, cpu_s=0.25)
        if f is None:
            labels.append('inconclusive:cycles-cpu-limit')
            continue
        fails += f
        nt += long_
        labels.append('cyc:%s' % ('0' if ncyc == 0 else '1' if ncyc == 1 else '2-5' if ncyc <= 5 else '6+'))
    return R(_dedup(fails), nt=nt, n=case['hi'] - case['lo'], labels=labels + ['cycblock:%s' % lab])


def check_cyc(case):
    nodes = case['nodes']
    if len(set(map(str, nodes))) != len(nodes):
        return R(labels=['cyc:bad-case'])
    f, ncyc, long_ = check_graph(nodes, [tuple(e) for e in case['edges']], case.get('skip', ()),
                                 case.get('copy', True), case.get('aslist', False), tag='|random')
    if f is None:
        return R(labels=['cycrand', 'inconclusive:cycles-cpu-limit'])
    lb = ['cycrand', 'cycrand:%s' % ('0' if ncyc == 0 else '1-5' if ncyc <= 5 else '6-50' if ncyc <= 50 else '51+')]
    if case.get('skip'):
        lb.append('cycrand:skip_nodes')
    if not case.get('copy', True):
        lb.append('cycrand:copy=False')
    return R(f, nt=long_, labels=lb)


# ==========================================================================
# E2: workbooks
# ==========================================================================
COLS = 'ABCDEFGHIJKLMNOP'


def a1(c, r):
    return '%s%d' % (COLS[c - 1], r)


def key_of(k):
    return "'[%s]%s'!%s" % (k[0], k[1].upper(), a1(k[2], k[3]))


def render(e, mode, here):
    """Expression -> formula text (without '=').  mode 'dict': every reference
    fully qualified; mode 'file': sheet-qualified unless on the same sheet."""
    def q(b, s):
        if mode == 'dict':
            return "'[%s]%s'!" % (b, s)
        return '' if (b, s) == (here[0], here[1]) else '%s!' % s

    def r(x):
        return render(x, mode, here)
    if isinstance(e, bool):
        return 'TRUE' if e else 'FALSE'
    if isinstance(e, (int, float)):
        return X.num_literal(float(e)) if e >= 0 else '(-%s)' % X.num_literal(-float(e))
    op = e[0]
    if op == 'E':
        return {'#N/A': 'NA()', '#DIV/0!': '(1/0)'}[e[1]]
    if op == 'R':
        return q(e[1], e[2]) + a1(e[3], e[4])
    if op == 'RG':
        return q(e[1], e[2]) + a1(e[3], e[4]) + ':' + a1(e[5], e[6])
    if op == 'N':
        return ("'[%s]'!%s" % (e[1], e[2])) if mode == 'dict' else e[2]
    if op == '+':
        return '+'.join(r(x) for x in e[1:])
    if op == '>':
        return '%s>%s' % (r(e[1]), r(e[2]))
    if op in ('IF', 'IFERROR', 'SUM', 'ISERROR'):
        return '%s(%s)' % (op, ','.join(r(x) for x in e[1:]))
    if op in ('IFS', 'IFNA'):
        return '%s%s(%s)' % ('_xlfn.' if mode == 'file' else '', op, ','.join(r(x) for x in e[1:]))
    raise ValueError(op)


def content(e, mode, here):
    if isinstance(e, bool):
        return e
    if isinstance(e, (int, float)):
        return float(e)
    return '=' + render(e, mode, here)


def _obs(sol, keys):
    out = {}
    for k in keys:
        nk = key_of(k)
        v = sol.get(nk, None)
        out[nk] = Foreign('missing') if v is None else sut.one(v)
    return out


def observe_dict(case, order):
    items = []
    for b, s, c, r, e in case['cells']:
        items.append((key_of((b, s, c, r)), content(e, 'dict', (b, s))))
    for b, nm, t in case.get('names', ()):
        items.append(("'[%s]'!%s" % (b, nm), '=' + render(t, 'dict', (b, None))))
    d = {}
    for i in order:
        k, v = items[i]
        d[k] = v
    m = sut.ExcelModel().from_dict(d, assemble=False).finish(complete=False, circular=True)
    sol = m.calculate()
    return _obs(sol, [tuple(c[:4]) for c in case['cells']])


def observe_dict_roundtrip(case, order):
    """The model finished with circular=True, exported, sent through JSON, imported and finished the same way."""
    import json
    items = []
    for b, s, c, r, e in case['cells']:
        items.append((key_of((b, s, c, r)), content(e, 'dict', (b, s))))
    for b, nm, t in case.get('names', ()):
        items.append(("'[%s]'!%s" % (b, nm), '=' + render(t, 'dict', (b, None))))
    d = {}
    for i in order:
        k, v = items[i]
        d[k] = v
    m = sut.ExcelModel().from_dict(d, assemble=False).finish(complete=False, circular=True)
    d1 = json.loads(json.dumps(m.to_dict()))
    m2 = sut.ExcelModel().from_dict(d1, assemble=False).finish(complete=False, circular=True)
    return _obs(m2.calculate(), [tuple(c[:4]) for c in case['cells']])


_COUNTER = itertools.count()


def workdir():
    d = os.path.join(_runner.ROOT, '.work', str(os.getpid()), 'w%d' % next(_COUNTER))
    os.makedirs(d, exist_ok=True)
    return d


def observe_file(case):
    import openpyxl
    from openpyxl.workbook.defined_name import DefinedName
    book = G.BOOK
    d = workdir()
    try:
        wb = openpyxl.Workbook()
        wb.remove(wb.active)
        sheets = list(case.get('sheet_order') or [])
        for c in case['cells']:
            if c[1] not in sheets:
                sheets.append(c[1])
        ws = {s: wb.create_sheet(s) for s in sheets}
        for b, s, c, r, e in case['cells']:
            ws[s][a1(c, r)] = content(e, 'file', (b, s))
        for b, nm, t in case.get('names', ()):
            if t[0] == 'R':
                txt = '%s!$%s$%d' % (t[2], COLS[t[3] - 1], t[4])
            else:
                txt = '%s!$%s$%d:$%s$%d' % (t[2], COLS[t[3] - 1], t[4], COLS[t[5] - 1], t[6])
            wb.defined_names[nm] = DefinedName(nm, attr_text=txt)
        path = os.path.join(d, book)
        wb.save(path)
        m = sut.ExcelModel().loads(path).finish(circular=True)
        sol = m.calculate()
        return _obs(sol, [tuple(c[:4]) for c in case['cells']])
    finally:
        shutil.rmtree(d, ignore_errors=True)
        try:
            os.rmdir(os.path.dirname(d))
        except OSError:
            pass


def _guarded(fn, *a):
    """Run one observation; an exception from inside the repo is a failure of
    that path only (same signature scheme as runner.safe_check)."""
    try:
        return fn(*a), None
    except Exception as ex:  # noqa
        frame, in_vf = _runner._innermost_repo_frame(ex.__traceback__)
        if frame and not in_vf:
            return None, ('crash|%s|%s' % (type(ex).__name__, frame), '%s: %s' % (type(ex).__name__, str(ex)[:300]))
        raise


def enc(v):
    if isinstance(v, Err):
        return ['E', v.t]
    if isinstance(v, Foreign):
        return ['F', v.what]
    if isinstance(v, sut.Blank):
        return ['B']
    if isinstance(v, str):
        return ['s', v]
    return v


def show(v):
    return repr(v)


# A cell on an all-strict cycle whose circular reference sits in a later IFS condition behind a TRUE one, in a
# workbook where a second (shorter / rectangle) circular cycle feeds it: HEAD may compute it (31 instead of #CIRC!)
# before its own mark arrives -- same family as F-C10-2 (ordinary value on an unavoidable cycle; for IFERROR on
# strict cycles it already is counted there).  Reported under F-C10-2's tag until a separate finding is listed;
# set to 'late-cond-race' to give it its own signature.
RACE_SIG_TAG = 'impure'


def judge(case, an, obs, where):
    fails = []
    for k in an['wb'].keys:
        info = an['info'][k]
        nk = key_of(k)
        got = obs[nk]
        cls_, sub, v = info['cls'], info['sub'], info['v']
        g = X.cls(got)
        if isinstance(got, Foreign):
            fails.append(('mark|foreign|%s' % g, '%s %s: %s (class %s/%s)' % (where, nk, show(got), cls_, sub)))
            continue
        if cls_ == 'circ':
            if got != CIRC:
                fails.append(('mark|on-active-cycle:%s|%s' % (RACE_SIG_TAG if sub == 'late-cond-race' else sub, g),
                              '%s %s lies on a cycle of strict/selected references (%s) but is %s, expected #CIRC!' % (where, nk, sub, show(got))))
        elif cls_ == 'err':
            if not isinstance(got, Err):
                fails.append(('mark|%s|%s' % (sub, g), '%s %s depends on a circular cell through selected branches but is %s, expected an error value' % (where, nk, show(got))))
        elif cls_ == 'value':
            if isinstance(v, L.AnyErr):
                ok = isinstance(got, Err) and got.t in v.cands
            else:
                ok = X.same(got, v)
            if not ok:
                tag = sub if sub == 'outside' else '%s:%s' % (sub, 'rect-veto' if L.rect_veto(an, k) else 'plain')
                fails.append(('mark|%s|%s' % (tag, g), '%s %s is %s, expected %s (%s; every cycle it touches closes only through unselected branches)' % (
                    where, nk, show(got), show(v), sub)))
        elif cls_ == 'either' and case.get('strict_either') and sub == 'on-harmless+' and not isinstance(v, L.AnyErr):
            # fixed shapes only: the cell's own cycle closes only through unselected branches and nothing it reads through a
            # SELECTED branch is circular, so the statement ("does resolve to ordinary values") fixes the value
            if not X.same(got, v):
                fails.append(('mark|on-harmless-strict|%s' % g, '%s %s is %s, expected %s: its cycle closes only through unselected branches' % (
                    where, nk, show(got), show(v))))
        elif cls_ == 'either':
            if not isinstance(got, Err) and not (not isinstance(v, L.AnyErr) and X.same(got, v)):
                # (a cell that absorbs the #CIRC! of a vetoed harmless cycle - listed finding F-C10-3 - carries its tag)
                tag = '%s:rect-veto' % sub if L.rect_veto(an, k) else sub
                fails.append(('mark|either-wrong-value:%s|%s' % (tag, g), '%s %s is %s: an ordinary value must be the lazy value %s' % (where, nk, show(got), show(v))))
    return fails


def _is_errval(v):
    return isinstance(v, Err) or (isinstance(v, list) and len(v) == 2 and v[0] == 'E')


def order_tag(an, diff_keys, pairs=()):
    """Root-cause tag of an order / hash-seed dependence: which kind of cells differ."""
    if pairs and all(_is_errval(a) and _is_errval(b) for a, b in pairs):
        return 'error-kind'
    if L.rect_veto(an):
        return 'rect-shared'
    byname = {key_of(k): k for k in an['wb'].keys}
    subs = {(an['info'][byname[n]]['cls'], an['info'][byname[n]]['sub']) for n in diff_keys if n in byname}
    if subs and subs <= {('circ', 'impure'), ('circ', 'late-cond-race'), ('unk', 'after-impure')}:
        return 'impure-cycle'
    if subs and {c for c, _ in subs} <= {'either', 'unk'}:
        return 'undetermined-cells'
    return 'plain'


def wb_labels(case, an, obs_list):
    lb = []
    kinds = set(an['ckind'])
    for k in ('active', 'harmless', 'mixed'):
        if k in kinds:
            lb.append('cycle:%s' % k)
    if not kinds:
        lb.append('cycle:none')
    if any(len(c) >= 2 for c in an['cycles']):
        lb.append('cycle:len>=2')
    if any(len(c) == 1 for c in an['cycles']):
        lb.append('cycle:self-loop')
    vias = set()
    for i, lst in an['occ'].items():
        for (t, guarded, live, via, gk, ab, rect, ig) in lst:
            if t in an['node_cycles'] and (an['node_cycles'][t] or (an['node_cycles'][i] and not via.startswith('ifs-'))):
                vias.add(('edge:%s' % ('name' if via.startswith('name') else via)))
                if via in ('range', 'name-range'):
                    vias.add('edge:range')
                if guarded:
                    vias.add('guard:%s:%s' % (gk, 'selected' if live else 'unselected'))
                    if via != 'cell':
                        vias.add('guard-via:%s' % via)
                else:
                    vias.add('strict:%s' % via)
    lb += sorted(vias)
    o0 = obs_list[0] if obs_list else {}
    for k in an['wb'].keys:
        info = an['info'][k]
        lb.append('cell:%s' % info['cls'])
        if info['cls'] in ('value', 'either', 'err', 'circ', 'unk'):
            lb.append('cell:%s/%s' % (info['cls'], info['sub']))
        if info['cls'] == 'either' and o0:
            lb.append('cell:either->%s' % ('circ' if o0.get(key_of(k)) == CIRC else 'error' if isinstance(o0.get(key_of(k)), Err) else 'value'))
    books = {c[0] for c in case['cells']}
    sheets = {(c[0], c[1]) for c in case['cells']}
    lb.append('books:%d' % len(books))
    lb.append('sheets:%d' % len(sheets))
    return lb


def nontrivial(an):
    infos = an['info']
    has_long = any(len(c) >= 2 for c in an['cycles'])
    outside = any(not an['node_cycles'][k] for k in infos)
    circ = any(i['cls'] in ('circ', 'err') for i in infos.values())
    val = any(i['cls'] == 'value' and i['after_guard'] for i in infos.values())
    return bool(has_long and outside and circ and val)


def check_wb(case, want_obs=False):
    try:
        an = L.analyse(case['cells'], case.get('names', ()))
    except L.OutOfDomain as ex:
        r = R(labels=['wb:out-of-domain'])
        return (r, None) if want_obs else r
    fails, obs_all, labels, n = [], [], [], 0
    first = None
    for path in case.get('paths', ['dict']):
        if path == 'dict':
            prev = None
            for oi, order in enumerate(case.get('orders') or [list(range(len(case['cells']) + len(case.get('names', ()))))]):
                obs, crash = _guarded(observe_dict, case, order)
                n += 1
                if crash:
                    sig = crash[0] + ('|dict+names' if case.get('names') else '|dict')
                    fails.append((sig, crash[1]))
                    break
                labels.append('path:dict')
                obs_all.append(('dict%d' % oi, obs))
                if oi == 0:
                    fails += judge(case, an, obs, 'dict')
                    if not case.get('names'):
                        # C09 meets C10: the export of a model with cycles describes the same workbook
                        obs_rt, crash_rt = _guarded(observe_dict_roundtrip, case, order)
                        n += 1
                        if crash_rt:
                            fails.append(('roundtrip|' + crash_rt[0], crash_rt[1]))
                        elif obs_rt != obs:
                            diff = sorted(k for k in obs if obs[k] != obs_rt.get(k))
                            fails.append(('roundtrip|values|%s' % order_tag(an, diff, [(obs[k], obs_rt.get(k)) for k in diff]),
                                          'after to_dict -> json -> from_dict -> finish(circular=True): %s' % [(k, show(obs[k]), show(obs_rt.get(k))) for k in diff[:4]]))
                elif obs != prev:
                    diff = sorted(k for k in obs if obs[k] != prev[k])
                    fails.append(('order|dict-insertion|%s' % order_tag(an, diff, [(prev[k], obs[k]) for k in diff]), 'insertion order %r vs %r: %s' % (order, case['orders'][0], [
                        (k, show(prev[k]), show(obs[k])) for k in diff[:4]])))
                    fails += judge(case, an, obs, 'dict(order %d)' % oi)
                prev = obs if prev is None else prev
        else:
            obs, crash = _guarded(observe_file, case)
            n += 1
            if crash:
                fails.append((crash[0] + '|file', crash[1]))
                continue
            labels.append('path:file')
            obs_all.append(('file', obs))
            fails += judge(case, an, obs, 'file')
    # the same workbook through different routes (file order vs dict order) must agree
    base = None
    for tag, obs in obs_all:
        if base is None:
            base = (tag, obs)
        elif tag == 'file' and base[0] != 'file' and obs != base[1]:
            diff = sorted(k for k in obs if obs[k] != base[1][k])
            fails.append(('order|file-vs-dict|%s' % order_tag(an, diff, [(base[1][k], obs[k]) for k in diff]), 'file vs dict: %s' % [(k, show(base[1][k]), show(obs[k])) for k in diff[:4]]))
    labels += wb_labels(case, an, [o for _, o in obs_all])
    if case.get('names'):
        labels.append('wb:names')
    res = R(_dedup(fails), nt=[{'cells': case['cells'], 'names': case.get('names', [])}] if nontrivial(an) else None,
            labels=labels, n=max(n, 1))
    if want_obs:
        return res, [[tag, {k: enc(v) for k, v in sorted(obs.items())}] for tag, obs in obs_all]
    return res


# ==========================================================================
# hash seeds: child processes
# ==========================================================================
def run_child(cases, hashseed, timeout):
    env = dict(os.environ)
    env['PYTHONHASHSEED'] = str(hashseed)
    env['VF_REPO'] = sut.REPO
    env['PYTHONDONTWRITEBYTECODE'] = '1'
    p = subprocess.Popen([sys.executable, '-W', 'ignore', '-m', 'vf.props.c10_child'], cwd=_runner.ROOT, env=env,
                         stdin=subprocess.PIPE, stdout=subprocess.PIPE, stderr=subprocess.PIPE)
    try:
        out, err = p.communicate(json.dumps(cases).encode(), timeout=timeout)
    except subprocess.TimeoutExpired:
        p.kill()
        p.communicate()
        return None, 'timeout'
    if p.returncode != 0:
        raise RuntimeError('c10_child failed (rc %s): %s' % (p.returncode, err.decode(errors='replace')[-1500:]))
    return json.loads(out.decode()), None


def check_hs(case):
    """The same batch of cases in fresh interpreters with different hash seeds:
    every result must satisfy the oracle and all must be identical."""
    cases = case['cases']
    seeds = case['hashseeds']
    results = {}
    labels = ['hashseeds:%d' % len(seeds)]
    for hs in seeds:
        res, why = run_child(cases, hs, (WATCHDOG_S - 40.0) / len(seeds))
        if res is None:
            return R(labels=['inconclusive:child-%s' % why])
        results[hs] = res
    fails = []
    nt = []
    n = 0
    for i, c in enumerate(cases):
        base = results[seeds[0]][i]
        n += base.get('n', 1) * len(seeds)
        if base.get('nt'):
            nt.append(c)
        for hs in seeds:
            r = results[hs][i]
            if r.get('harness_error'):
                raise RuntimeError('child harness error: %s' % r['harness_error'])
            for sig, detail in r['fails']:
                fails.append((sig, 'PYTHONHASHSEED=%s case %d: %s' % (hs, i, detail)))
            labels += ['hs:' + lb for lb in r['labels'] if lb.startswith(('inconclusive', 'path:', 'cycrand'))][:3]
            if r['obs'] != base['obs']:
                d = []
                for (t1, o1), (t2, o2) in zip(base['obs'] or [], r['obs'] or []):
                    d += [(t1, k, o1[k], o2.get(k)) for k in o1 if o1[k] != o2.get(k)]
                try:
                    tag = order_tag(L.analyse(c['cells'], c.get('names', ())), [x[1] for x in d], [(x[2], x[3]) for x in d]) if c['k'] == 'wb' else 'graph'
                except L.OutOfDomain:
                    tag = 'out-of-domain'
                fails.append(('order|hashseed|%s' % tag, 'case %d differs between PYTHONHASHSEED=%s and %s: %r' % (i, seeds[0], hs, d[:4])))
    return R(_dedup(fails), nt=nt, labels=labels, n=max(n, 1))


def run_hashseed(arg, tier, seed, stats, known):
    """custom part: batch `arg` of generated workbooks / graphs under 4 hash seeds."""
    mod = sys.modules[__name__]
    rnd = random.Random(seed * 100003 + arg * 7 + (0 if tier == 'quick' else 1))
    nwb, ng = (8, 16) if tier == 'quick' else (30, 40)
    cases = []
    for _ in range(nwb):
        c = G.gen_wb(rnd, tier)
        c['orders'] = c['orders'][:2]
        cases.append(c)
    for _ in range(ng):
        cases.append(G.gen_graph(rnd, tier))
    case = {'k': 'hs', 'cases': cases, 'hashseeds': [0, 1, 2, 3]}
    res = _runner.safe_check(mod, case)
    unknown = _runner._account(stats, case, res, known)
    if unknown:
        # look for a single-case reproduction (smaller replay file)
        for c in cases:
            small = {'k': 'hs', 'cases': [c], 'hashseeds': [0, 1, 2, 3]}
            r2 = _runner.safe_check(mod, small)
            if any(not known.match(s) for s, _ in r2['fails']):
                _runner._account(stats, small, r2, known, keep_sample=False)
                break


# ==========================================================================
# runner interface
# ==========================================================================
def check_case(case):
    k = case['k']
    if k == 'hs':
        return check_hs(case)  # under the module's long WATCHDOG_S (four child interpreters)
    # everything else gets the framework's normal 30 s watchdog (a trip is inconclusive, not a violation)
    with _runner.alarm(_runner.WATCHDOG_S):
        if k == 'cycblock':
            return check_cycblock(case)
        if k == 'cyc':
            return check_cyc(case)
        if k == 'wb':
            return check_wb(case)
        if k == 'wb2':
            return check_wb2(case)
        if k == 'wbov':
            return check_wbov(case)
        if k == 'namecycle':
            return check_namecycle(case)
    raise ValueError(k)


def _blocks():
    for n in (0, 1, 2, 3):
        for lab in ('int', 'str'):
            yield {'k': 'cycblock', 'n': n, 'lab': lab, 'lo': 0, 'hi': 1 << (n * n)}
    for lab in ('int', 'str'):
        for lo in range(0, 1 << 16, 1024):
            yield {'k': 'cycblock', 'n': 4, 'lab': lab, 'lo': lo, 'hi': lo + 1024}


def _fixed_wbs():
    """Hand-written workbooks: the shapes the statement names, always run."""
    S = (G.BOOK, 'S')

    def Rr(c, r, s=S):
        return ['R', s[0], s[1], c, r]

    def wb(cells, names=(), paths=('dict', 'file')):
        m = len(cells) + len(names)
        return {'k': 'wb', 'cells': [list(S) + c for c in cells], 'names': [list(x) for x in names],
                'orders': [list(range(m)), list(range(m))[::-1]], 'paths': list(paths), 'sheet_order': ['S']}
    out = []
    # two-cell strict cycle, a dependent, an absorber and a bystander
    out.append(wb([[1, 1, ['+', Rr(1, 2), 1]], [1, 2, ['+', Rr(1, 1), 1]], [1, 3, ['+', Rr(1, 1), 1]],
                   [1, 4, ['IFERROR', Rr(1, 1), 5]], [1, 5, ['ISERROR', Rr(1, 2)]], [2, 1, 7], [2, 2, ['+', Rr(2, 1), 1]]]))
    # cycle through an IF branch, not selected / selected
    for g in (False, True):
        out.append(wb([[1, 1, ['+', ['IF', Rr(7, 1), Rr(1, 2), 0], 1]], [1, 2, ['+', Rr(1, 1), 2]], [7, 1, g],
                       [1, 3, ['+', Rr(1, 2), 1]]]))
    # IFS / IFERROR / IFNA guards
    out.append(wb([[1, 1, ['+', ['IFS', Rr(7, 1), Rr(1, 2), True, 4], 1]], [1, 2, ['+', Rr(1, 1), 2]], [7, 1, False]]))
    out.append(wb([[1, 1, ['+', ['IFERROR', Rr(7, 1), Rr(1, 2)], 1]], [1, 2, ['+', Rr(1, 1), 2]], [7, 1, 3]]))
    out.append(wb([[1, 1, ['+', ['IFNA', Rr(7, 1), Rr(1, 2)], 1]], [1, 2, ['+', Rr(1, 1), 2]], [7, 1, ['E', '#N/A']]]))
    # self loop; cycle through a rectangle; through a name (file path only, see F-C10-1)
    out.append(wb([[1, 1, ['+', Rr(1, 1), 1]], [1, 2, ['+', ['SUM', ['RG', S[0], S[1], 1, 2, 1, 3]], 1]], [1, 3, 4]]))
    out.append(wb([[1, 1, ['+', ['N', G.BOOK, 'NM_A'], 1]], [1, 2, ['+', Rr(1, 1), 1]], [1, 3, 2]],
                  names=[[G.BOOK, 'NM_A', Rr(1, 2)]], paths=('file',)))
    out.append(wb([[1, 1, ['+', ['IF', False, ['SUM', ['RG', S[0], S[1], 1, 2, 1, 3]], 0], 1]], [1, 2, ['+', Rr(1, 1), 2]], [1, 3, 5]]))
    # a cycle through a LATER condition of IFS is strict, whether or not an earlier condition is TRUE
    for a1 in (1, 0):
        out.append(wb([[1, 1, a1], [2, 1, ['IFS', ['>', Rr(1, 1), 0], 5, ['>', Rr(3, 1), 0], 3]], [3, 1, ['+', Rr(2, 1), 1]],
                       [4, 1, ['+', Rr(3, 1), Rr(3, 1)]], [5, 1, 7]]))
    out.append(wb([[7, 1, True], [1, 1, ['+', 100, ['IFS', False, 1, Rr(7, 1), 2, Rr(1, 2), 3, True, 4]]], [1, 2, ['+', Rr(1, 1), 1]],
                   [1, 3, ['ISERROR', Rr(1, 2)]]]))
    return out


def _two_cycle_wbs():
    """Fixed family (added after seed c10-a-r3): an upstream cycle X avoidable through its own guard, and a downstream cycle Y
    whose guarded back edge is a rectangle that also holds a cell of X; every guard combination, three cell orders.  Their
    failures carry signatures of their own (twocycles|...), so no listed finding can hide them."""
    S = (G.BOOK, 'S')

    def Rr(c, r):
        return ['R', S[0], S[1], c, r]
    out = []
    for a1 in (False, True):
        for a2 in (False, True):
            for shape in ('y-reads-x', 'shared-bystander'):  # (the mirrored shape, X reading the rectangle, is listed finding F-C10-3)
                if shape == 'y-reads-x':
                    rg = ['RG', S[0], S[1], 1, 3, 2, 3]     # C1:C2 in the demo's terms: cells (1,3) of Y and (2,3) of X
                    cells = [[7, 1, a1], [7, 2, a2],
                             [1, 2, ['IF', Rr(7, 1), ['SUM', rg], 1]], [1, 3, ['+', Rr(1, 2), 1]],
                             [2, 3, ['IF', Rr(7, 2), Rr(1, 5), 5]], [1, 5, ['+', Rr(2, 3), 1]],
                             [1, 4, ['+', Rr(1, 3), Rr(1, 3)]], [1, 6, 10], [1, 7, ['+', Rr(1, 6), 1]]]
                elif shape == 'x-reads-y':
                    rg = ['RG', S[0], S[1], 1, 3, 2, 3]
                    cells = [[7, 1, a1], [7, 2, a2],
                             [1, 2, ['IF', Rr(7, 1), Rr(1, 3), 1]], [1, 3, ['+', Rr(1, 2), 1]],
                             [2, 3, ['IF', Rr(7, 2), ['+', ['SUM', rg], Rr(1, 5)], 5]], [1, 5, ['+', Rr(2, 3), 1]],
                             [1, 6, 10], [1, 7, ['+', Rr(1, 6), 1]]]
                else:
                    rg = ['RG', S[0], S[1], 1, 3, 3, 3]     # the rectangle also holds a bystander constant (3,3)
                    cells = [[7, 1, a1], [7, 2, a2], [3, 3, 4],
                             [1, 2, ['IF', Rr(7, 1), ['SUM', rg], 1]], [1, 3, ['+', Rr(1, 2), 1]],
                             [2, 3, ['IF', Rr(7, 2), Rr(1, 5), 5]], [1, 5, ['+', Rr(2, 3), 1]], [1, 4, ['+', Rr(1, 3), Rr(1, 3)]]]
                m = len(cells)
                rot = list(range(m))[3:] + list(range(m))[:3]
                out.append({'k': 'wb2', 'variant': '%s|a1=%s|a2=%s' % (shape, a1, a2),
                            'wb': {'k': 'wb', 'cells': [list(S) + c for c in cells], 'names': [],
                                   'orders': [list(range(m)), list(range(m))[::-1], rot], 'paths': ['dict', 'file'], 'sheet_order': ['S']}})
    # a guarded cycle whose guarding formula mentions, in another branch, a rectangle holding a cell of an unrelated
    # unavoidable cycle (added after seed c10-b-r5): the rectangle is not the way the guarded cycle enters the formula
    for a1 in (False, True):
        for a3 in (False, True):
            rg = ['RG', S[0], S[1], 4, 1, 4, 2]
            cells = [[7, 1, a1], [7, 3, a3], [4, 2, 3],
                     [2, 1, ['IF', Rr(7, 1), Rr(3, 1), ['IF', Rr(7, 3), ['SUM', rg], 7]]], [3, 1, ['+', Rr(2, 1), 1]],
                     [4, 1, ['+', Rr(5, 1), 1]], [5, 1, ['+', Rr(4, 1), 0]]]
            m = len(cells)
            out.append({'k': 'wb2', 'variant': 'guard-mentions-other-cycle|a1=%s|a3=%s' % (a1, a3),
                        'wb': {'k': 'wb', 'cells': [list(S) + c for c in cells], 'names': [], 'strict_either': True,
                               'orders': [list(range(m)), list(range(m))[::-1], list(range(m))[3:] + list(range(m))[:3]],
                               'paths': ['dict', 'file'], 'sheet_order': ['S']}})
    # one cycle, two cells that can each break it (both guard their back edge), guards set differently; the two cells at
    # many different addresses, because which of them the analysis meets first follows the iteration order of a set of node
    # ids (added after seed c10-a-r6: under one pinned hash seed, other addresses are other orders)
    spots = [((2, 1), (3, 1)), ((3, 1), (2, 1)), ((2, 2), (2, 3)), ((5, 9), (4, 2)), ((1, 7), (9, 1)), ((6, 6), (6, 7)),
             ((3, 4), (8, 2)), ((9, 9), (1, 2)), ((4, 4), (5, 5)), ((2, 8), (3, 3)), ((7, 1), (1, 9)), ((8, 8), (2, 6))]
    for si, (pb, pc) in enumerate(spots):
        for a1, a2 in ((False, True), (True, False)):
            cells = [[10, 1, a1], [10, 2, a2],
                     [pb[0], pb[1], ['IF', Rr(10, 1), Rr(pc[0], pc[1]), 1]], [pc[0], pc[1], ['IF', Rr(10, 2), Rr(pb[0], pb[1]), 2]],
                     [11, 5, ['+', Rr(pc[0], pc[1]), 1]]]
            m = len(cells)
            out.append({'k': 'wb2', 'variant': 'two-guards-one-cycle|spot=%d|a1=%s|a2=%s' % (si, a1, a2),
                        'wb': {'k': 'wb', 'cells': [list(S) + c for c in cells], 'names': [], 'strict_either': True,
                               'orders': [list(range(m)), list(range(m))[::-1]], 'paths': ['dict'], 'sheet_order': ['S']}})
    # an unavoidable cycle through a rectangle one of whose OTHER members is the end of a long ordinary chain
    # (added after seed c10-a-r4): the chain and that member keep their ordinary values
    for depth in (3, 6, 10, 14):
        for order_kind in ('asis', 'chain-last'):
            rg = ['RG', S[0], S[1], 1, 1, 1, 3]
            cells = [[1, 1, 1], [1, 3, Rr(2, 1)], [2, 1, ['+', ['SUM', rg], 0]]]
            chain = [[3, 1, 1]] + [[3, 1 + k, ['+', Rr(3, k), 1]] for k in range(1, depth)]
            member = [[1, 2, ['+', Rr(3, depth), Rr(3, depth)]], [4, 1, ['+', Rr(1, 2), 1]]]
            cells = cells + chain + member if order_kind == 'asis' else member + cells + chain
            m = len(cells)
            out.append({'k': 'wb2', 'variant': 'range-cycle-deep-member|depth=%d|%s' % (depth, order_kind),
                        'wb': {'k': 'wb', 'cells': [list(S) + c for c in cells], 'names': [],
                               'orders': [list(range(m)), list(range(m))[::-1]], 'paths': ['dict', 'file'], 'sheet_order': ['S']}})
    return out


def _override_wbs():
    """A value supplied for ONE cell of an unavoidable cycle breaks the cycle: the other cells are ordinary formulas of that value
    (added after seed c07-b-r4); the expectation is the analysis of the workbook with that cell typed in as a constant."""
    S = (G.BOOK, 'S')

    def Rr(c, r):
        return ['R', S[0], S[1], c, r]
    out = []
    for depth in (1, 2, 4, 8):
        chain = [[3, 1, 1]] + [[3, 1 + k, ['+', Rr(3, k), 1]] for k in range(1, depth)]
        cells = [[1, 1, ['+', Rr(1, 2), Rr(3, depth)]], [1, 2, ['+', Rr(1, 1), 1]], [1, 4, ['+', Rr(1, 1), Rr(1, 1)]], [1, 5, ['+', Rr(1, 2), 18]]] + chain
        for target, val in (((1, 2), 10), ((1, 1), 7)):
            for order_kind in (0, 1):
                cs = cells if not order_kind else cells[::-1]
                out.append({'k': 'wbov', 'variant': 'break-cycle|depth=%d|%s%d|o%d' % (depth, 'AB'[target[1] - 1], target[0], order_kind),
                            'cells': [list(S) + c for c in cs], 'target': list(target), 'value': val})
    return out


def check_wbov(case):
    cells = case['cells']
    t = tuple(case['target'])
    typed = [c if tuple(c[2:4]) != t else c[:4] + [case['value']] for c in cells]
    an = L.analyse(typed, ())
    d = {key_of(tuple(c[:4])): content(c[4], 'dict', (c[0], c[1])) for c in cells}
    m = sut.ExcelModel().from_dict(d, assemble=False).finish(complete=False, circular=True)
    tk = key_of((cells[0][0], cells[0][1]) + t)
    fails = []
    sol = m.calculate(inputs={tk: float(case['value'])})
    obs = _obs(sol, [tuple(c[:4]) for c in cells])
    obs[tk] = float(case['value'])  # (the supplied cell is what was supplied)
    for s_, d_ in judge({'cells': typed}, an, obs, 'override'):
        fails.append(('override-cycle|%s|%s' % (case['variant'].split('|o')[0], s_.split('|', 1)[1]), d_))
    plain = _obs(m.calculate(), [tuple(c[:4]) for c in cells])
    an0 = L.analyse(cells, ())
    for s_, d_ in judge({'cells': cells}, an0, plain, 'plain-after-override'):
        fails.append(('override-cycle|%s|after|%s' % (case['variant'].split('|o')[0], s_.split('|', 1)[1]), d_))
    seen, out = set(), []
    for s_, d_ in fails:
        if s_ not in seen:
            seen.add(s_)
            out.append((s_, d_))
    return R(out, nt=True, n=3, labels=['part:override-cycle'])


def _namecycle_cases():
    """Cycles that close through defined names only, in a workbook that is loaded on demand (only the book that links to
    it is given to loads()): finish(circular=True) must return and mark / resolve them (added after seed c10-b-r4)."""
    out = []
    for kind in ('unguarded', 'guard-off', 'guard-on', 'self'):
        for route in ('linked', 'direct'):
            out.append({'k': 'namecycle', 'kind': kind, 'route': route})
    return out


def check_namecycle(case):
    import openpyxl
    from openpyxl.workbook.defined_name import DefinedName
    kind, route = case['kind'], case['route']
    d = workdir()
    try:
        wb = openpyxl.Workbook()
        ws = wb.active
        ws.title = 'S'
        ws['A1'] = kind == 'guard-on'
        ws['A2'] = 5.0
        if kind == 'self':
            defs = {'NX': 'NX+1', 'NY': 'S!$A$2'}
        elif kind == 'unguarded':
            defs = {'NX': 'NY+1', 'NY': 'NX*2'}
        else:
            defs = {'NX': 'NY+1', 'NY': 'IF(S!$A$1,NX,S!$A$2)'}
        for k, v in defs.items():
            wb.defined_names[k] = DefinedName(k, attr_text=v)
        ws['E1'] = '=NX'
        ws['E2'] = '=A2*3'
        wb.save(os.path.join(d, 'book.xlsx'))
        wb = openpyxl.Workbook()
        ws = wb.active
        ws.title = 'M'
        ws['A1'] = "='[book.xlsx]S'!E1+1"
        ws['A2'] = "='[book.xlsx]S'!E2+1"
        wb.save(os.path.join(d, 'main.xlsx'))
        files = [os.path.join(d, 'main.xlsx')] + ([os.path.join(d, 'book.xlsx')] if route == 'direct' else [])
        try:
            with _runner.alarm(20):
                m = sut.ExcelModel().loads(*files).finish(circular=True)
                sol = m.calculate()
        except sut.Watchdog:
            return R([('termination|name-cycle|%s|%s' % (kind, route), 'loads(%s).finish(circular=True).calculate() did not return within 20 s on a 6-cell workbook' % (
                [os.path.basename(f) for f in files],))], nt=True, labels=['part:namecycle'])
        get = lambda k: next((sut.one(v) for kk, v in sol.items() if isinstance(kk, str) and kk.upper() == k.upper()), Foreign('missing'))
        a1, a2 = get("'[main.xlsx]M'!A1"), get("'[main.xlsx]M'!A2")
        fails = []
        if a2 != 16.0:
            fails.append(('namecycle|bystander|%s|%s' % (kind, route), 'M!A2 = %r, expected 16.0 (it does not touch the cycle)' % (a2,)))
        if kind == 'guard-off' and a1 != 7.0:
            fails.append(('namecycle|resolved|%s|%s' % (kind, route), 'M!A1 = %r, expected 7.0 (the cycle closes only through the unselected branch)' % (a1,)))
        if kind in ('unguarded', 'self', 'guard-on') and not isinstance(a1, Err):
            fails.append(('namecycle|marked|%s|%s' % (kind, route), 'M!A1 = %r, expected an error value (it depends on an unavoidable cycle)' % (a1,)))
        return R(fails, nt=True, n=2, labels=['part:namecycle', 'namecycle:' + kind])
    finally:
        shutil.rmtree(d, ignore_errors=True)


def check_wb2(case):
    r = check_wb(case['wb'])
    if 'wb:out-of-domain' in r['labels']:
        raise RuntimeError('a fixed two-cycle workbook is outside the oracle\'s domain: %s' % case['variant'])
    r['fails'] = [('twocycles|%s|%s' % (case['variant'], s_.split('|', 1)[1] if s_.startswith('mark|') else s_), d_) for s_, d_ in r['fails']]
    r['labels'] = list(r['labels']) + ['part:twocycles']
    return r


def _wb_strategy(tier):
    return st.randoms(use_true_random=False).map(lambda r: G.gen_wb(r, tier))


def _graph_strategy(tier):
    return st.randoms(use_true_random=False).map(lambda r: G.gen_graph(r, tier))


STRATEGIES = {'workbooks': _wb_strategy, 'graphs': _graph_strategy}


def parts(tier, seed):
    q = tier == 'quick'
    return [
        ('enum', 'digraphs<=4', _blocks(), 2, True),
        ('enum', 'fixed-workbooks', _fixed_wbs(), 1, False),
        ('enum', 'two-cycles-and-a-rectangle', _two_cycle_wbs(), 1, False),
        ('enum', 'override-breaks-cycle', _override_wbs(), 1, False),
        ('enum', 'name-only-cycles', _namecycle_cases(), 1, False),
        ('hyp', 'graphs', 2400 if q else 40000),
        ('hyp', 'workbooks', 960 if q else 16000),
        ('custom', 'hashseeds', 'run_hashseed', list(range(8 if q else 24))),
    ]
