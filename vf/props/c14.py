"""C14 - unresolvable functions and references degrade locally to error values."""
import os
import copy
from hypothesis import strategies as st

from .. import sut
from ..runner import R
from ..xlref import wb as W
from ..xlref import core as X
from ..gen import workbooks as G

ID = 'C14'
RULE = ('Hypothesis workbook spec W plus 1-3 injected faults, each either replacing an existing constant cell (so that W\'s own '
        'formulas are downstream) or placed in a free cell, each followed by three new dependents (=F+1 strict, =IFERROR(F,7), '
        '=ISERROR(F)). Fault kinds: unknown function (plain and _xlfn. prefixed, any case), reference to an absent sheet, to an '
        'absent workbook file, to an unreadable workbook (random bytes / truncated zip / a directory), undefined name, literal '
        '#REF! (bare, inside SUM, sheet-qualified), spill reference (ANCHORARRAY) to an absent sheet / absent or unreadable book / a cell holding no array formula, and a formula with two or three different unresolved names or references each under its own IFERROR/ISERROR/ISNA (expected: the ordinary intercepted value). File path (faults on disk) for all kinds, dict path for the kinds that exist '
        'there. Oracle: load + finish + calculate return; each faulty cell is #NAME? (unknown function) or #REF!/#NAME? (reference '
        'faults); every other cell equals the independent evaluation of W with the faulty cells replaced by that error value '
        '(so cells not downstream keep their fault-free value, strict dependents are errors, IFERROR/ISERROR intercept). '
        'Non-trivial = a fault has a dependent among W\'s own formulas and an unaffected formula cell exists; distinct by (spec, faults).')
ASSUMPTIONS = ['a corrupt primary file given to loads() is not generated (raising is the contract there)',
               'which of #REF!/#NAME? a reference fault shows is not asserted; the observed one is propagated through the reference evaluator']
WATCHDOG_S = 120

FN_NAMES = ['ZZFUNC', 'NoSuchFn', '_xlfn.NEWFUNC', '_XLFN.FUTURE.FN', 'my_func', '_xlfn.zzz9']
REFLIT = ['#REF!', '#REF!+1', 'SUM(#REF!)', 'SUM(1,#REF!)', '{q}#REF!', 'IF(TRUE,#REF!,1)',
          # what Excel leaves behind when one operand of a reference operator is deleted (any error value is accepted there)
          'SUM(A1:A3 #REF!)', 'SUM((A1:A2,#REF!))', 'SUM(A1:#REF!)', '#REF!:A3', 'SUM(#REF! A1:A3)', 'SUM((#REF!,A1))']
ANYERR = {'#NULL!', '#DIV/0!', '#VALUE!', '#REF!', '#NAME?', '#NUM!', '#N/A'}
# formulas with several different unresolved items, each intercepted on its own: (dict-path text, file-path text, value)
PAIRS = [('IFERROR(NO_SUCH_A,10)+IFERROR(no.such.b,20)', 'IFERROR(NO_SUCH_A,10)+IFERROR(no.such.b,20)', 30.0),
         ('ISERROR(NO_SUCH_A)*1+ISERROR(NO_SUCH_B)*1', 'ISERROR(NO_SUCH_A)*1+ISERROR(NO_SUCH_B)*1', 2.0),
         ('IF(ISERROR(NO_SUCH_A),5,0)+IF(ISNA(no.such.b),1,6)', 'IF(ISERROR(NO_SUCH_A),5,0)+IF(ISNA(no.such.b),1,6)', 11.0),
         ('IFERROR(NO_SUCH_A,1)+IFERROR(zz_b,2)', 'IFERROR(NO_SUCH_A,1)+IFERROR(Gone!A1,2)', 3.0),
         ('IFERROR(N_1x,1)+IFERROR(N_2x,2)+IFERROR(N_3x,4)', 'IFERROR(N_1x,1)+IFERROR(N_2x,2)+IFERROR(NoSuchSheet!B2,4)', 7.0),
         ('IFERROR(NO_SUCH_A+1,10)+IFERROR(NO_SUCH_B&"x",20)', 'IFERROR(NO_SUCH_A+1,10)+IFERROR(\'[nofile1.xlsx]S1\'!A1&"x",20)', 30.0)]
BADFILE = ['random-bytes', 'truncated-zip', 'directory', 'empty-file']


def fault_text(f, spec, at, full):
    k, v = f['kind'], f['variant']
    b, s = at[0], at[1]
    q = G.qual_full(spec, b, s)
    if k == 'unknown-fn':
        args = ['1', '1,"a"', '', 'TRUE,2'][v % 4]
        return '=%s(%s)' % (FN_NAMES[v % len(FN_NAMES)], args)
    if k == 'absent-sheet':
        sn = ['NoSuchSheet', 'Gone', 'ZZ9'][v % 3]
        if full:
            return "='[%s]%s'!A%d" % (G.book_name(spec, b), sn, 1 + v % 3)
        return '=%s!A%d' % (sn, 1 + v % 3)
    if k == 'absent-sheet-with-name':
        # one formula that uses a defined name of its own book AND a sheet that book does not have (fixed shapes only)
        return '=SUM(%s)+%s!B%d' % (spec['names'][0]['name'], ['Old', 'Gone', 'zz9'][v % 3], 1 + v % 2)
    if k == 'undefined-in-name':
        # BADNAME_x is a defined name of this workbook whose own definition uses a name nobody defines
        return ['=BADNAME_x+1', '=BADNAME_x', '=SUM(BADNAME_x,1)'][v % 3]
    if k == 'absent-book':
        return "='[nofile%d.xlsx]S1'!B%d" % (v % 2, 1 + v % 3)
    if k == 'unreadable-book':
        return "='[bad%d.xlsx]S1'!A1" % (v % len(BADFILE))
    if k == 'undefined-name':
        nm = ['NO_SUCH_NAME', 'undefined.name', 'Missing_1x'][v % 3]
        return '=%s' % nm if v % 2 else '=%s+1' % nm
    if k == 'absent-spill':
        tgt = ['Gone!A1', "'[nofile0.xlsx]S1'!B2", 'Z99', "'[bad0.xlsx]S1'!A1"][v % 4]
        return ['=_xlfn.ANCHORARRAY(%s)', '=SUM(_xlfn.ANCHORARRAY(%s))', '=_xlfn.ANCHORARRAY(%s)+1'][(v // 4) % 3] % tgt
    if k == 'intercepted-pair':
        return '=' + PAIRS[v % len(PAIRS)][0 if full else 1]
    if k == 'ref-literal':
        t = REFLIT[v % len(REFLIT)]
        if '{q}' in t:
            nm = G.sheet_name(spec, b, s)
            sq = ("'%s'" % nm) if G.needs_quote(nm) else nm
            t = t.replace('{q}', (q if full else sq + '!'))
        return '=' + t
    raise ValueError(k)


def allowed(kind, variant=0):
    if kind == 'ref-literal' and variant % len(REFLIT) >= 6:
        return ANYERR
    return {'#NAME?'} if kind == 'unknown-fn' else {'#REF!', '#NAME?'}


def make_bad_files(dirpath, faults):
    import zipfile
    for f in faults:
        if f['kind'] == 'absent-spill' and f['variant'] % 4 == 3:
            i = 0
        elif f['kind'] != 'unreadable-book':
            continue
        else:
            i = f['variant'] % len(BADFILE)
        p = os.path.join(dirpath, 'bad%d.xlsx' % i)
        if os.path.exists(p):
            continue
        how = BADFILE[i]
        if how == 'random-bytes':
            with open(p, 'wb') as fh:
                fh.write(bytes((j * 37 + 11) % 256 for j in range(997)))
        elif how == 'truncated-zip':
            tmp = p + '.tmp'
            with zipfile.ZipFile(tmp, 'w') as z:
                z.writestr('xl/workbook.xml', '<workbook/>' * 50)
                z.writestr('[Content_Types].xml', '<Types/>' * 50)
            data = open(tmp, 'rb').read()
            os.remove(tmp)
            with open(p, 'wb') as fh:
                fh.write(data[:len(data) // 2])
        elif how == 'directory':
            os.makedirs(p)
        else:
            open(p, 'wb').close()


def inject(spec, faults):
    """-> (spec with raw fault cells and their dependents, list of fault cell keys)"""
    sp = copy.deepcopy(spec)
    pop = W.populated(sp)
    consts = [c for c in sp['cells'] if 'f' not in c]
    fkeys = []
    for f in faults:
        at = None
        if f['replace'] and consts:
            cell = consts[f['target'] % len(consts)]
            if 'raw' not in cell:
                at = tuple(cell['at'])
                cell.pop('v', None)
                cell['raw'] = f
        if at is None:
            b, s = f['loc'][0] % len(sp['books']), 0
            s = f['loc'][1] % len(sp['books'][b]['sheets'])
            # a free position outside the generator's grid (rows 9+), so nothing of W refers to it
            r, c = 9 + len(fkeys), 1 + f['loc'][2] % 5
            while (b, s, r, c) in pop:
                r += 1
            at = (b, s, r, c)
            sp['cells'].append({'at': list(at), 'raw': f})
            pop.add(at)
        fkeys.append(at)
        # dependents (ordinary tree cells)
        b, s, r, c = at
        for j, t in enumerate((['bin', '+', ['ref', list(at)], ['num', 1.0]],
                               ['fn', 'IFERROR', ['ref', list(at)], ['num', 7.0]],
                               ['fn', 'ISERROR', ['ref', list(at)]])):
            rr = 20 + 4 * len(fkeys) + j
            while (b, s, rr, 6) in pop:
                rr += 1
            sp['cells'].append({'at': [b, s, rr, 6], 'f': t})
            pop.add((b, s, rr, 6))
    return sp, fkeys


def render_dict(sp):
    d = {}
    base = {'books': sp['books'], 'names': sp.get('names', []), 'cells': [c for c in sp['cells'] if 'raw' not in c]}
    d.update(G.to_dict(base))
    for c in sp['cells']:
        if 'raw' in c:
            b, s, r, cc = c['at']
            d[G.qual_full(sp, b, s) + G.a1(r, cc)] = fault_text(c['raw'], sp, c['at'], True)
            if c['raw']['kind'] == 'undefined-in-name':
                d['BADNAME_x'] = '=NO_SUCH_BASE*2'
    return d


def write_files(sp, dirpath, links=None):
    import openpyxl
    base = {'books': sp['books'], 'names': sp.get('names', []), 'cells': [c for c in sp['cells'] if 'raw' not in c]}
    paths = G.write_files(base, dirpath, links=links)
    for b, p in enumerate(paths):
        raws = [c for c in sp['cells'] if 'raw' in c and c['at'][0] == b]
        if not raws:
            continue
        wb = openpyxl.load_workbook(p)
        if any(c['raw']['kind'] == 'undefined-in-name' for c in raws):
            from openpyxl.workbook.defined_name import DefinedName
            wb.defined_names['BADNAME_x'] = DefinedName('BADNAME_x', attr_text='NO_SUCH_BASE*2')
        for c in raws:
            ws = wb[sp['books'][b]['sheets'][c['at'][1]]]
            ws.cell(row=c['at'][2], column=c['at'][3], value=fault_text(c['raw'], sp, c['at'], False))
        wb.save(p)
    return paths


def check_spec(case):
    spec, faults, path = case['spec'], case['faults'], case['path']
    if path == 'dict':
        faults = [f for f in faults if f['kind'] in ('unknown-fn', 'undefined-name', 'ref-literal', 'intercepted-pair')]  # (the others need complete(), which from_dict does not run)
    if not faults:
        return R(labels=['skipped:no-fault-for-path'])
    sp, fkeys = inject(spec, faults)
    first_only = bool(case.get('first_only')) and path == 'file' and len(spec['books']) > 1
    need = None
    if first_only:
        ev0 = {'books': sp['books'], 'names': sp.get('names', []),
               'cells': [(c if 'raw' not in c else {'at': c['at'], 'v': None}) for c in sp['cells']]}
        deps = W.depends_on(ev0)
        need = {tuple(c['at']) for c in sp['cells'] if c['at'][0] == 0}
        need |= {k for c in sp['cells'] if c['at'][0] == 0 for k in W.cell_keys(c)}
        stack = list(need)
        while stack:
            for dk in deps.get(stack.pop(), ()):
                if dk not in need:
                    need.add(dk)
                    stack.append(dk)
    fails = []
    kinds = [f['kind'] for f in faults]
    try:
        if path == 'dict':
            m = sut.ExcelModel().from_dict(render_dict(sp))
            sol = m.calculate()
        else:
            with G.workdir() as d:
                paths = write_files(sp, d, links=case.get('links'))
                make_bad_files(d, faults)
                # first_only: only the first book is given; the others (and their faults) are reached through its references
                m = sut.ExcelModel().loads(*(paths[:1] if first_only else paths)).finish()
                sol = m.calculate()
    except sut.Watchdog:
        raise
    except Exception as ex:
        import traceback
        tb = traceback.extract_tb(ex.__traceback__)
        where = [fs for fs in tb if sut.REPO in os.path.abspath(fs.filename)]
        frame = '%s:%s' % (os.path.basename(where[-1].filename), where[-1].name) if where else 'harness'
        if frame == 'harness':
            raise
        return R([('abort|%s|%s|%s' % (path, '+'.join(sorted(set(kinds))), type(ex).__name__), '%s at %s: %s' % (type(ex).__name__, frame, str(ex)[:200]))],
                 nt=True, labels=['path:' + path] + ['fault:' + k for k in kinds])
    flat, conflicts = G.flatten(sol)
    fails_rt = []
    # the degraded model survives the JSON round trip: every cell keeps its value (error values included)
    try:
        import json
        import re
        d1 = m.to_dict()
        if any(isinstance(v, str) and v.startswith('=') and re.search(r'[-+]\s*[-+]', v) for v in d1.values()):
            raise StopIteration  # a folded sign run in an exported formula is C09's listed finding F2
        m2 = sut.ExcelModel().from_dict(json.loads(json.dumps(d1)))
        flat2, _ = G.flatten(m2.calculate())
        for k_ in sorted(flat, key=repr):
            a_, b_ = flat[k_], flat2.get(k_, sut.BLANK)
            if not X.same(a_, b_, 1e-12) and not (isinstance(a_, sut.Blank) and isinstance(b_, sut.Blank)):
                fails_rt.append(('roundtrip|%s|%s->%s' % (path, X.cls(a_), X.cls(b_)), '%s: %r in the loaded model, %r after to_dict -> from_dict' % (k_, a_, b_)))
                break
    except (sut.Watchdog, ):
        raise
    except StopIteration:
        pass
    except Exception as ex:
        fails_rt.append(('roundtrip|%s|raised:%s' % (path, type(ex).__name__), repr(ex)[:200]))
    over = []
    for f, key in zip(faults, fkeys):
        got = flat.get((G.sheet_id(sp, key[0], key[1]), key[2], key[3]), 'MISSING')
        if need is not None and tuple(key) not in need:
            # a fault in a part of a linked book that nothing of the first book reaches: not loaded, nothing to observe
            over.append((list(key), PAIRS[f['variant'] % len(PAIRS)][2] if f['kind'] == 'intercepted-pair' else
                         ['E', '#NAME?' if f['kind'] == 'unknown-fn' else '#REF!']))
            continue
        if f['kind'] == 'intercepted-pair':
            want = PAIRS[f['variant'] % len(PAIRS)][2]
            if not (isinstance(got, float) and got == want):
                fails.append(('kind|%s|%s|%s' % (path, f['kind'], 'missing' if got == 'MISSING' else X.cls(got)),
                              '%s = %s evaluates to %r, expected %r (each unresolved item intercepted on its own)' % (
                                  G.node_id(sp, key), fault_text(f, sp, key, path == 'dict'), got, want)))
            over.append((list(key), want))
            continue
        ok = isinstance(got, sut.Err) and got.t in allowed(f['kind'], f['variant'])
        if not ok:
            fails.append(('kind|%s|%s|%s' % (path, f['kind'], 'missing' if got == 'MISSING' else X.cls(got)),
                          '%s = %s evaluates to %r, expected one of %s' % (G.node_id(sp, key), fault_text(f, sp, key, path == 'dict'), got, sorted(allowed(f['kind'], f['variant'])))))
            got = sut.Err('#NAME?' if f['kind'] == 'unknown-fn' else '#REF!')
        over.append((list(key), ['E', got.t]))
    ev_spec = {'books': sp['books'], 'names': sp.get('names', []),
               'cells': [(c if 'raw' not in c else {'at': c['at'], 'v': None}) for c in sp['cells']]}
    expected = W.evaluate(ev_spec, over)
    if need is not None:
        expected = {k: v for k, v in expected.items() if k in need}
    down = W.downstream(ev_spec, fkeys)
    sub_local = G.compare(sp_for_compare(sp), flat, {k: v for k, v in expected.items() if k not in down}, sub='nonlocal-' + path)
    sub_down = G.compare(sp_for_compare(sp), flat, {k: v for k, v in expected.items() if k in down and k not in fkeys}, sub='dependent-' + path)
    fk = '+'.join(sorted(set(kinds)))
    fails += [('%s|%s' % (s, fk), d) for s, d in sub_local + sub_down + fails_rt]
    own_down = [k for k in down if k not in fkeys and k in W.populated(spec)]
    unaffected = [c for c in spec['cells'] if 'f' in c and tuple(c['at']) not in down]
    seen, out = set(), []
    for s_, d_ in fails:
        if s_ not in seen:
            seen.add(s_)
            out.append((s_, d_))
    labels = ['path:' + path + ('-first-book-only' if first_only else '')] + ['fault:' + k for k in kinds] + (['has-own-dependents'] if own_down else []) + ['nfaults:%d' % len(faults)]
    return R(out, nt=bool(own_down and unaffected), n=len(expected), labels=labels)


def sp_for_compare(sp):
    return {'books': sp['books'], 'names': sp.get('names', []),
            'cells': [(c if 'raw' not in c else {'at': c['at'], 'v': 0.0}) for c in sp['cells']]}


def check_case(case):
    if case['k'] == 'spec':
        return check_spec(case)
    raise ValueError(case['k'])


def _fault():
    return st.builds(lambda kind, variant, replace, target, loc: {'kind': kind, 'variant': variant, 'replace': replace, 'target': target, 'loc': loc},
                     st.sampled_from(['unknown-fn', 'unknown-fn', 'absent-sheet', 'absent-book', 'unreadable-book', 'undefined-name', 'ref-literal',
                                      'absent-spill', 'intercepted-pair', 'undefined-in-name']),
                     st.integers(0, 23), st.booleans(), st.integers(0, 30), st.tuples(st.integers(0, 3), st.integers(0, 3), st.integers(0, 9)).map(list))


def _specs(tier):
    return st.builds(lambda spec, faults, path, fo, lk: {'k': 'spec', 'spec': spec, 'faults': faults, 'path': path, 'first_only': fo, 'links': lk},
                     G.specs(tier, max_books=2, wholecols=False, errors=False), st.lists(_fault(), min_size=1, max_size=3),
                     st.sampled_from(['file', 'file', 'dict']), st.booleans(), st.one_of(st.none(), st.none(), st.integers(0, 7)))


def _linked_name_cases():
    """Fixed shapes (added after seed c14-a-r4): only the first book is given to loads(); the linked book holds a defined name
    used by its cells AND a reference to a sheet / book that does not exist; cells that only use the name keep their value."""
    out = []
    for kind, variant in (('absent-sheet', 1), ('absent-sheet', 0), ('absent-book', 1), ('unreadable-book', 2), ('absent-spill', 0), ('undefined-name', 1),
                          ('absent-sheet-with-name', 0), ('absent-sheet-with-name', 1), ('absent-sheet-with-name', 2)):
        for name_rect in ([1, 0, 1, 2, 1, 2], [1, 0, 1, 2, 2, 2]):
            cells = [{'at': [1, 0, 1, 2], 'v': 30.0}, {'at': [1, 0, 2, 2], 'v': 5.0}, {'at': [1, 0, 5, 2], 'v': 1.0},
                     {'at': [1, 0, 3, 2], 'f': ['bin', '+', ['fn', 'SUM', ['name', 0]], ['num', 0.0]]},
                     {'at': [1, 0, 4, 2], 'f': ['bin', '+', ['ref', [1, 0, 5, 2]], ['ref', [1, 0, 3, 2]]]},
                     {'at': [0, 0, 1, 1], 'f': ['bin', '+', ['ref', [1, 0, 4, 2]], ['num', 1.0]]},
                     {'at': [0, 0, 2, 1], 'f': ['bin', '*', ['ref', [1, 0, 3, 2]], ['num', 2.0]]},
                     {'at': [0, 0, 3, 1], 'f': ['fn', 'IFERROR', ['ref', [0, 0, 1, 1]], ['num', -1.0]]}]
            # the linked file's name in three spellings (node ids are upper case whatever the file is called on disk)
            for ext in (('Ext.xlsx', 'EXT.XLSX', 'ext.xlsx') if kind.startswith('absent-sheet') else ('Ext.xlsx',)):
                spec = {'books': [{'name': 'b0.xlsx', 'sheets': ['S1']}, {'name': ext, 'sheets': ['Data']}], 'cells': cells,
                        'names': [{'name': 'TOTAL_IN', 'rect': name_rect}]}
                fault = {'kind': kind, 'variant': variant, 'replace': True, 'target': 2, 'loc': [1, 0, 1]}
                for fo in (True, False):
                    out.append({'k': 'spec', 'spec': spec, 'faults': [fault], 'path': 'file', 'first_only': fo})
    return out


STRATEGIES = {'specs': _specs}


def parts(tier, seed):
    q = tier == 'quick'
    return [('hyp', 'specs', 1600 if q else 16000, 10), ('enum', 'linked-book-with-name-and-fault', _linked_name_cases(), 2, False)]
