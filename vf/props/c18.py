"""C18 - the parser is total: it returns a formula or its syntax error, only."""
import os
import re
import sys
import json
import shutil
import traceback
import subprocess
from decimal import Decimal

from .. import sut
from ..runner import R
from ..xlref import c18_syntax as SX
from ..gen import c18_gen as G

ID = 'C18'
RULE = ('Strings from five sources: (soup) Hypothesis token soups of <= 12 tokens over a dictionary of every operator, '
        'separator, bracket, number form, string, error, reference spelling, function head, white-space character and '
        'stray character (one third over the "clean" sub-dictionary the validity predicate can decide); (text) random '
        'Unicode / printable-ASCII / grammar-character strings behind "=", "{=", "" and other prefixes; (edit) single-token '
        'delete / insert / replace / duplicate edits of generated valid formulas and of the valid formulas of '
        'test_parser.py; (num) the enumerated numeric literal forms (integer, leading zeros, decimals, leading dot, '
        'E+-dd exponents) in 8-18 contexts; (fuzz) a coverage-guided atheris campaign over the same dictionary and raw '
        'bytes, seeded with the test_parser formulas, run in child processes with this module\'s check_case as the '
        'oracle inside the target. Oracle: Parser().ast returns or raises FormulaError (escape buckets by exception type '
        'and innermost repo frame); is_formula never raises; strings that an independent partial grammar (vf/xlref/'
        'c18_syntax) classifies as certainly invalid (unbalanced ()/{}, unterminated string, stray character, missing '
        'operand, adjacent operands, ragged array) must be rejected; accepted strings must round-trip ("=" + expr '
        're-parses to the same expr), may not contain an operator character that the source does not contain, and, '
        'without a leading "=", must be exactly an error literal; numeric literals must be accepted with the value '
        'Decimal(text). Non-trivial = the text after the prefix mixes >= 3 token classes; distinct by string.')
ASSUMPTIONS = ['vf/xlref/c18_syntax is my reading of Excel\'s formula grammar restricted to the token classes it is certain '
               'about; everything else (quoted sheet names, structured references, non-blank white space, R1C1 look-alikes, '
               '"%%", "1.", "1E5", non-ASCII names, array constants holding anything but constants) is "unknown" and only '
               'totality, round trip and operator provenance are asserted there',
               'a formula that the partial grammar calls valid but the parser rejects is counted (label valid-rejected) '
               'and not reported: the property only requires acceptance of numeric literals',
               'libFuzzer runs with -runs/-seed in fresh corpus directories; its exploration is a bonus on top of the '
               'Hypothesis parts, which alone cover every class the quantifier names']
WATCHDOG_S = 30
SHRINK = True

_NUM_VALUE_CTX = {
    '=%s': 'v', '= %s ': 'v', '=(%s)': 'v', '=%s+0': 'v', '=0+%s': 'v', '=SUM(%s)': 'v', '={%s}': 'v', '=%s*1': 'v',
    '{=%s}': 'v', '=+%s': 'v', '=-%s': '-v', '=-(%s)': '-v', '=SUM(1,%s)': '1+v', '=1-%s': '1-v', '=%s=%s': 'true',
    '=IF(%s>0,%s,0)': 'if'}


_SIGNRUN = re.compile(r'[+-] ?[+-]')


def _frame(tb):
    best = None
    for fs in traceback.extract_tb(tb):
        fn = os.path.abspath(fs.filename)
        if fn.startswith(sut.REPO + os.sep):
            best = '%s:%s' % (os.path.relpath(fn, sut.REPO), fs.name)
    return best or 'outside-repo'


def parse(s):
    """-> ('ok', expr) | ('rej', exc type name) | ('esc', type, frame, msg)"""
    try:
        tokens, builder = sut.Parser().ast(s)
        return 'ok', builder[-1].get_expr, builder
    except sut.Watchdog:
        raise
    except sut.FormulaError as ex:
        return 'rej', type(ex).__name__, None
    except BaseException as ex:  # noqa  (RecursionError, KeyError, SyntaxError ...)
        if isinstance(ex, (KeyboardInterrupt, SystemExit, MemoryError)):
            raise
        return 'esc', type(ex).__name__, _frame(ex.__traceback__), str(ex)[:120]


def _strip_expr(e):
    """expr text without string literals"""
    return SX.strip_strings(e)[0]


def _ws_kind(s):
    k = set()
    for ch in s:
        if ch.isspace() and ch != ' ':
            k.add({'\t': 'tab', '\n': 'lf', '\r': 'cr', '\xa0': 'nbsp'}.get(ch, 'other-space'))
    return sorted(k)


def check_case(case):
    s = case['s']
    src = case.get('src', 'replay')
    fails, labels = [], ['src:' + src]
    if src == 'edit':
        labels.append('edit:' + case.get('edit', '?'))
    if src == 'text':
        labels.append('text:' + case.get('alphabet', '?'))
    if src == 'soup':
        labels.append('soup:' + case.get('pool', '?'))
    if src == 'num':
        labels.append('num:' + case.get('form', '?'))

    # --- is_formula is total
    try:
        sut.Parser().is_formula(s)
    except sut.Watchdog:
        raise
    except Exception as ex:
        fails.append(('escape-is_formula|%s|%s' % (type(ex).__name__, _frame(ex.__traceback__)), '%r: %r' % (s, ex)))

    # --- ast is total
    res = parse(s)
    verdict, cls, detail = SX.classify(s)
    labels.append('pred:%s' % (verdict if verdict != 'invalid' else 'invalid:' + cls))
    if verdict == 'unknown':
        labels.append('unknown:' + cls.split(':')[0])
    for w in _ws_kind(s):
        labels.append('ws:' + w)
    if src == 'basic' and verdict != 'invalid':
        raise AssertionError('basic invalid text %r is not classified invalid: %r' % (s, (verdict, cls, detail)))
    form, body = SX.split_formula(s)
    classes = SX.token_classes(body if body is not None else s)
    nt = len(classes) >= 3

    if res[0] == 'esc':
        labels.append('verdict:escape')
        # (an escape on a text the grammar oracle calls valid gets a tag of its own: the listed escapes from malformed text -
        # an operator without operand, F-C18-3 - must not hide an escape from well-formed formulas)
        fails.append(('escape|%s|%s%s' % (res[1], res[2], '|valid-text' if verdict == 'valid' else ''), '%r raised %s: %s' % (s, res[1], res[3])))
    elif res[0] == 'rej':
        labels.append('verdict:rejected')
        if verdict == 'valid':
            labels.append('valid-rejected')
    else:
        labels.append('verdict:accepted')
        expr = res[1]
        if src == 'basic':
            fails.append(('basic|%s' % s, '%r (%s, %s) accepted as %s' % (s, cls, detail, expr)))
        elif verdict == 'invalid':
            fails.append(('accepted-invalid|%s|%s' % (cls, detail), '%r accepted as %s' % (s, expr)))
        # round trip: "=" + expr must re-parse to the same expr.  Asserted where the text lies in the
        # sub-language the partial grammar is certain about (not through
        # quoted sheet names / external books: their ids are C04/C09's subject; not for texts already
        # reported as accepted-invalid: their expr is arbitrary).
        plain = "'" not in s and '[' not in s and verdict != 'invalid'
        e0 = _strip_expr(expr)
        if plain and verdict == 'valid' and (_SIGNRUN.search(e0) or '%%' in e0 or 'INDIRECT(' in e0 or 'ANCHORARRAY(' in e0):
            # "--x" is re-read as "+x" (C01/C09's sign-run finding); "x%%" is pinned as invalid by the repo's tests;
            # INDIRECT("literal") / ANCHORARRAY(ref) are resolved statically by design, only in their exact spelling
            labels.append('roundtrip-skipped')
        elif plain and verdict == 'valid':
            back = parse('=' + expr)
            if back[0] != 'ok':
                fails.append(('roundtrip|%s' % ('rejected' if back[0] == 'rej' else 'escape:' + back[1]),
                              '%r -> expr %r does not re-parse (%s)' % (s, expr, back[1])))
            elif back[1] != expr:
                e1, e2 = _strip_expr(expr), _strip_expr(back[1])
                diff = ''.join(ch for ch in '+-*/^&=<>%,: ()' if e1.count(ch) != e2.count(ch))
                if diff == ':':
                    # "B3:b" is printed as "B3:B3" and read back as "B3": naming of degenerate ranges is C04's subject
                    labels.append('roundtrip-skipped')
                else:
                    tag = 'union-from-adjacency' if e2.count(',') > e1.count(',') else 'changed[%s]' % diff
                    fails.append(('roundtrip|differs|%s' % tag, '%r -> expr %r re-parses to %r' % (s, expr, back[1])))
            labels.append('roundtrip')
        # digit provenance: a decimal digit of another script is no digit of the formula language; when the parser accepts a text
        # that holds one outside string literals, the character must still be there in the expression it printed
        import unicodedata
        S0_, ok0 = SX.strip_strings(s)
        if ok0 and '!' not in S0_:  # (a sheet qualifier is not always printed in the expression)
            for ch in set(S0_):
                if ord(ch) > 127 and unicodedata.category(ch) == 'Nd' and ch not in expr and ch.upper() not in expr:
                    fails.append(('misread|unicode-digit', '%r accepted as %s: %r (U+%04X) was read as a digit' % (s, expr, ch, ord(ch))))
                    break
        # operator provenance (skipped when a quoted sheet name or bracket may hide characters)
        if form is not None and plain and "'" not in expr:
            S_, ok1 = SX.strip_strings(body)
            E_ = _strip_expr(expr)
            if ok1:
                for ch in '+-*/^&=<>%,':
                    if ch in E_ and ch not in S_ and not (ch == '+' and '-' in S_) and not (ch == ',' and ';' in S_):
                        what = 'union-from-adjacency' if ch == ',' else \
                            ('plus-from-whitespace' if ch == '+' and _ws_kind(body) else 'operator-%s' % ch)
                        fails.append(('misread|%s' % what, '%r read as %s: no %r in the source' % (s, expr, ch)))
                        break
        # an accepted text without '=' must be exactly an error literal
        if form is None:
            t = s.replace('\n', '').strip()
            # error literals are case-insensitive (Excel reads #n/a typed into a cell as #N/A)
            if not t.startswith(('=', '{')) and not any(t.upper().endswith(e) for e in SX.ERRORS):
                fails.append(('accepted-invalid|no-equals|trailing-text', '%r accepted as %s' % (s, expr)))

    # --- numeric literals: accepted, with their value
    lit, ctx = None, None
    if src == 'num':
        lit, ctx = case['lit'], case['ctx']
    else:
        nf = SX.numeric_formula(s)
        if nf:
            lit, ctx = nf[1], ('=-%s' if nf[0] else '=%s')
            labels.append('num:incidental')
    if lit is not None:
        if res[0] == 'rej':
            fails.append(('rejected-valid|numeric|%s' % _numform(lit), '%r rejected' % s))
        elif res[0] == 'ok':
            kind = _NUM_VALUE_CTX.get(ctx)
            try:
                v = float(Decimal(lit))
            except ArithmeticError:  # exponent beyond what decimal accepts
                v = float(lit)
            if kind and v != float('inf'):
                exp = {'v': v, '-v': -v, '1+v': 1.0 + v, '1-v': 1.0 - v, 'true': True,
                       'if': (v if v > 0 else 0.0)}[kind]
                try:
                    got = sut.one(res[2].compile()())
                except sut.Watchdog:
                    raise
                except Exception as ex:
                    got = sut.Foreign('raised:%s' % type(ex).__name__)
                if not (type(got) is type(exp) and got == exp):
                    fails.append(('numeric-value|%s' % _numform(lit), '%r evaluates to %r, expected %r' % (s, got, exp)))
    return R(fails, nt=nt, labels=labels)


def _numform(lit):
    f = 'dot' if lit.startswith('.') else 'int'
    if '.' in lit and not lit.startswith('.'):
        f += '-frac'
    if 'e' in lit.lower():
        f += '-exp'
    ip = lit.split('.')[0].lower().split('e')[0]
    if len(ip) > 1 and ip[0] == '0':
        f += '-lead0'
    return f


# ---------------------------------------------------------------- strategies
def _soup(tier):
    return G.soup_case()


def _text(tier):
    return G.text_case()


def _edit(tier):
    return G.edit_case()


STRATEGIES = {'soup': _soup, 'text': _text, 'edit': _edit}


def _seed_cases():
    for s in G.load_seeds():
        yield {'s': s, 'src': 'seed'}
    for s in ['=-', '={}', '=1  -*  4', '={1;2,2}', '= a + IF((a, b, c)', '= a + IF(}a, b, c)', '1+2', '=a 1',
              '=a INT(1)', '=1)', '=Sheet1!', '', '=', ' ', '{=}', '{}', '=\n', '\n', '=' + '(' * 400 + '1' + ')' * 400,
              '=' + '-' * 3000 + '1', '=' + '1+' * 2000 + '1', '=SUM(' + '1,' * 3000 + '1)', '={' + '1,' * 2000 + '1}',
              '=' + 'SUM(' * 200 + '1' + ')' * 200, '="' + 'a' * 50000 + '"', '=' + '1' * 5000, '=' + ' ' * 5000 + '1',
              '=' + '{' * 300, '=' + ')' * 300, '=' + '%' * 300, '=1' + '%' * 300, '=' + 'A1 ' * 500 + 'A1',
              "='" + 'x' * 20000, '=[' * 200, '=' + 'A1:' * 500 + 'A1', '=' + '"a"&' * 1000 + '"a"']:
        yield {'s': s, 'src': 'seed'}


# ---------------------------------------------------------------- atheris campaign (child processes)
def fuzz_campaign(arg, tier, seed, stats, known):
    """One libFuzzer process.  The semantic oracle (check_case) runs inside the
    target; the child writes failing inputs per signature and its counters to a
    JSON file which is turned into ordinary cases here."""
    from .. import runner
    mod = sys.modules[__name__]
    idx, runs = arg
    root = runner.ROOT
    work = os.path.join(root, '.work', 'c18', '%d-%d' % (os.getpid(), idx))
    shutil.rmtree(work, ignore_errors=True)
    os.makedirs(os.path.join(work, 'corpus'))
    out = os.path.join(work, 'result.json')
    env = dict(os.environ, C18_FUZZ_OUT=out, PYTHONHASHSEED='0')
    cmd = [sys.executable, '-W', 'ignore', '-m', 'vf.props.c18_fuzz', '-runs=%d' % runs,
           '-seed=%d' % (seed * 1000 + idx + 1), '-max_len=96', '-timeout=60', '-verbosity=0', '-print_final_stats=0',
           '-artifact_prefix=%s/' % work, '-report_slow_units=600',
           os.path.join(work, 'corpus')]
    try:
        p = subprocess.run(cmd, cwd=root, env=env, capture_output=True, text=True, errors='replace',
                           timeout=3600)
        if not os.path.exists(out):
            if 'NO-ATHERIS' in (p.stdout + p.stderr):
                stats.labels['fuzz:atheris-unavailable'] += 1
                stats.notes.append('atheris not importable: Hypothesis-only run (run ./check setup)')
                return
            raise RuntimeError('fuzz child produced no result (rc=%s): %s' % (p.returncode, (p.stdout + p.stderr)[-1500:]))
        with open(out, encoding='utf8') as f:
            res = json.load(f)
    finally:
        shutil.rmtree(work, ignore_errors=True)
    stats.evaluations += res['executions']
    for k, v in res['labels'].items():
        stats.labels[k] += v
    for d in res['nt']:
        stats.nt_keys.add(d)
    stats.labels['fuzz:campaigns'] += 1
    if res.get('crashed'):
        stats.notes.append('fuzz child ended early: %s' % res['crashed'])
    # the child's failing inputs become ordinary cases (re-checked here, then by the runner once more)
    for sig, s in sorted(res['failing'].items()):
        case = {'s': s, 'src': 'fuzz'}
        if not known.match(sig):
            case = _ddmin(mod, case, sig)
        runner._account(stats, case, runner.safe_check(mod, case), known)
    for s in res['samples']:
        case = {'s': s, 'src': 'fuzz'}
        runner._account(stats, case, runner.safe_check(mod, case), known)


def _ddmin(mod, case, sig):
    """character-level greedy minimisation that keeps the signature"""
    from .. import runner
    s = case['s']

    def bad(t):
        r = runner.safe_check(mod, {'s': t, 'src': 'fuzz'})
        return any(x == sig for x, _ in r['fails'])
    n = 0
    changed = True
    while changed and n < 400:
        changed = False
        i = 0
        while i < len(s) and n < 400:
            t = s[:i] + s[i + 1:]
            n += 1
            if t and bad(t):
                s, changed = t, True
            else:
                i += 1
    return {'s': s, 'src': 'fuzz'}


def parts(tier, seed):
    q = tier == 'quick'
    nproc = 16
    only = os.environ.get('C18_ONLY')      # development aid: run a single part
    return [p for p in _parts(q, nproc, tier) if not only or p[1] in only.split(',')]


def _parts(q, nproc, tier):
    return [
        ('enum', 'seeds', _seed_cases(), 8, False),
        ('enum', 'basic-invalid', G.basic_invalid(), 100, True),
        ('enum', 'basic-valid', G.basic_valid(), 100, True),
        ('enum', 'numeric', G.numeric_cases(tier), 400, True),
        ('hyp', 'soup', 6000 if q else 150000),
        ('hyp', 'edit', 4000 if q else 100000),
        ('hyp', 'text', 5000 if q else 100000),
        ('custom', 'atheris', 'fuzz_campaign', [(i, 5000 if q else 80000) for i in range(8 if q else nproc)]),
    ]


FLOORS = {
    'src:soup': ('count', {'quick': 2000, 'thorough': 50000}),
    'src:text': ('count', {'quick': 2000, 'thorough': 50000}),
    'edit:delete': ('count', {'quick': 300, 'thorough': 5000}),
    'edit:insert': ('count', {'quick': 300, 'thorough': 5000}),
    'edit:replace': ('count', {'quick': 300, 'thorough': 5000}),
    'pred:invalid:unbalanced-paren': ('count', {'quick': 200, 'thorough': 5000}),
    'pred:invalid:unbalanced-brace': ('count', {'quick': 100, 'thorough': 2000}),
    'pred:invalid:missing-operand': ('count', {'quick': 200, 'thorough': 5000}),
    'pred:invalid:adjacent-operands': ('count', {'quick': 200, 'thorough': 5000}),
    'pred:invalid:ragged-array': ('count', {'quick': 20, 'thorough': 500}),
    'pred:invalid:stray-char': ('count', {'quick': 100, 'thorough': 2000}),
    'pred:valid': ('count', {'quick': 500, 'thorough': 10000}),
    'verdict:accepted': ('count', {'quick': 1000, 'thorough': 20000}),
}
