"""C03 - a calculated workbook is a consistent fixed point, whatever the order."""
import os
import sys
import json
import subprocess
from hypothesis import strategies as st

from .. import sut
from ..runner import R, ROOT
from ..xlref import wb as W
from ..xlref import core as X
from ..gen import workbooks as G

ID = 'C03'
RULE = ('Hypothesis-generated acyclic workbook specs (1-2 books x 1-2 sheets, 4-14 cells created in topological order; '
        'references: same-sheet, $-absolute, cross-sheet bare/quoted, cross-book, rectangles under SUM/MIN/MAX/COUNT/AVERAGE, '
        'whole columns, global defined names, unpopulated cells, array formulas with stale spill constants; values: numbers, '
        'text, logicals, errors, blanks). Each spec is presented as a dict in several key orders, as xlsx files loaded in every '
        'book order with permuted sheet creation order, and (custom part) re-run in child processes under PYTHONHASHSEED 1..3. '
        'Oracle: vf/xlref/wb.evaluate (independent evaluator) cell by cell over every solution node; all presentations must agree. '
        'Non-trivial = spec uses a cross-sheet/cross-book/name/array-formula/whole-column reference and has >= 3 dependency levels; '
        'distinct by spec.')
ASSUMPTIONS = ['formulas use a restricted grammar on which xlref is certain; cells whose reference value is UNSURE '
               '(collation-dependent text order, number display outside the certain class, numeric text in ranges) are not asserted',
               'sheet names that need quoting beyond a space (digit-leading, punctuation) are excluded by construction (C04/C09 own them)']
FLOORS = {'nt': ('frac', 0.25)}

ORDERS = ['asis', 'reversed', 'sorted', 'evenodd', 'rot']


def permute(items, how):
    items = list(items)
    if how == 'asis':
        return items
    if how == 'reversed':
        return items[::-1]
    if how == 'sorted':
        return sorted(items, key=lambda kv: kv[0])
    if how == 'evenodd':
        return items[1::2] + items[0::2]
    if how == 'rot':
        k = len(items) // 2
        return items[k:] + items[:k]
    raise ValueError(how)


def run_dict(spec, how):
    d = dict(permute(G.to_dict(spec).items(), how))
    m = sut.ExcelModel().from_dict(d)
    return G.flatten(m.calculate())


def run_files(spec, dirpath, book_order, sheet_order=None, links=None):
    paths = G.write_files(spec, dirpath, sheet_order, links=links)
    paths = [paths[i] for i in book_order]
    m = sut.ExcelModel().loads(*paths).finish()
    return G.flatten(m.calculate())


def presentations(spec, case):
    import gc
    out = []
    heavy = any(f.startswith('form:wholecol') for f in G.features_of(spec))  # 2^20-row operands: free each model before the next
    anchors = 'spill-anchor' in G.features_of(spec)  # C1# needs complete(): file presentations only
    for how in ([] if anchors else case.get('dict_orders', ['asis'])):
        out.append(('dict:' + how, run_dict(spec, how)))
        heavy and gc.collect()
    nb = len(spec['books'])
    borders = [list(range(nb))] + ([list(range(nb))[::-1]] if nb > 1 and not case.get('single_file_order') else [])
    if case.get('files', True):
        with G.workdir() as d:
            for i, bo in enumerate(borders):
                so = None
                if i == 1 or case.get('rev_sheets'):
                    so = {str(b): list(range(len(bk['sheets'])))[::-1] for b, bk in enumerate(spec['books'])}
                out.append(('file:%s' % ''.join(map(str, bo)), run_files(spec, os.path.join(d, 'o%d' % i), bo, so)))
                heavy and gc.collect()
            if nb > 1 and case.get('links') is not None:
                # references to other books in the numbered form xlsx files contain ([k]Sheet!A1 + external link parts,
                # among them links to files that are not .xlsx books), both book orders
                for i, bo in enumerate(borders):
                    out.append(('file-idx:%d:%s' % (case['links'], ''.join(map(str, bo))),
                                run_files(spec, os.path.join(d, 'x%d' % i), bo, None, links=case['links'])))
                    heavy and gc.collect()
            if nb > 1:
                # only one book is given to loads(); the others are reached by following its references in finish()
                for first in range(nb):
                    paths = G.write_files(spec, os.path.join(d, 'l%d' % first))
                    m = sut.ExcelModel().loads(paths[first]).finish()
                    out.append(('links:%d' % first, G.flatten(m.calculate())))
                    del m
                    heavy and gc.collect()
    return out


def check_spec(case):
    spec = case['spec']
    expected = W.evaluate(spec)
    fails = []
    pres = presentations(spec, case)
    pop = {k for k in expected}
    base_name, (base_flat, _) = pres[0]
    for name, (flat, conflicts) in pres:
        path = name.split(':')[0]
        for c in conflicts:
            fails.append(('consistency|%s|%s' % (path, c[0]), '%s: %s %s' % (name, c[1], c[2])))
        exp_here = expected
        if path == 'links':
            # cells of the books that were not loaded explicitly are present only if something refers to them
            # (names of a linked book are registered wholesale and show blanks for cells nobody needs: not asserted);
            # asserted: every cell of the loaded book and every cell its formulas transitively refer to
            first = int(name.split(':')[1])
            deps = W.depends_on(spec)
            need = {k for k in expected if k[0] == first}
            stack = list(need)
            while stack:
                for dk in deps.get(stack.pop(), ()):
                    if dk not in need:
                        need.add(dk)
                        stack.append(dk)
            exp_here = {k: v for k, v in expected.items() if k in need}
        fails += [(s, '[%s] %s' % (name, d)) for s, d in G.compare(spec, flat, exp_here, sub='wiring-' + path)]
        if name != base_name and path != 'links':
            for k in pop:
                kk = (G.sheet_id(spec, k[0], k[1]), k[2], k[3])
                a, b = base_flat.get(kk, sut.BLANK), flat.get(kk, sut.BLANK)
                if not X.same(a, b, 1e-12) and not (isinstance(a, sut.Blank) and isinstance(b, sut.Blank)):
                    kind = 'order' if name.split(':')[0] == base_name.split(':')[0] else 'path'
                    fails.append(('%s|%s-vs-%s' % (kind, base_name.split(':')[0], path),
                                  '%s: %s gives %r, %s gives %r' % (G.node_id(spec, k), base_name, a, name, b)))
    seen, out = set(), []
    for s, d in fails:
        if s not in seen:
            seen.add(s)
            out.append((s, d))
    feats = G.features_of(spec)
    interesting = any(f.startswith('form:') and f.split(':')[1].split('-')[0] in ('wholecol', 'name', 'array')
                      or f.endswith('-xsheet') or f.endswith('-xbook') for f in feats)
    lv = G.depth_levels(spec)
    nt = interesting and lv >= 3
    unsure = sum(1 for v in expected.values() if isinstance(v, W.Unsure))
    labels = feats + (['nt'] if nt else []) + (['has-unsure'] if unsure else [])
    return R(out, nt=nt, n=len(pres), labels=labels)


# ---------------------------------------------------------------------------------------------------------------
# chains of external links across directories (added after seed c03-b-r5)
# ---------------------------------------------------------------------------------------------------------------
NESTED_LAYOUTS = {
    # directory (relative to the base directory) of the books b, c, d;  a.xlsx is in the base directory
    'down-down-side': {'b': 'sub', 'c': 'sub/deep', 'd': 'other'},
    'down-deeper': {'b': 'x/y', 'c': 'x/y/z', 'd': 'x/y'},
    'sibling-dirs': {'b': 'one', 'c': 'one/two', 'd': 'one/three'},
    'flat': {'b': '', 'c': '', 'd': ''},
}


def _nested_dir_cases():
    import itertools as _it
    for lname in sorted(NESTED_LAYOUTS):
        for vi, vals in enumerate(([7.0, 5.0, 100.0, 3.0], [2.5, -4.0, 8.0, 0.0])):
            loads = ['follow'] + [''.join(o) for o in _it.permutations('bcd')][::(1 if vi == 0 else 3)]
            for ld in loads:
                yield {'k': 'nested', 'layout': lname, 'vals': vals, 'load': ld}


def check_nested(case):
    """a.xlsx -> b.xlsx -> (c.xlsx, d.xlsx) through numbered external links; the target of a link is relative to the
    directory of the workbook that holds the link.  Expected values: the formulas below applied by hand to the constants."""
    import openpyxl
    import posixpath
    from openpyxl.packaging.relationship import Relationship
    from openpyxl.workbook.external_link.external import ExternalLink, ExternalBook, ExternalSheetNames
    dirs = dict(NESTED_LAYOUTS[case['layout']], a='')
    c1, c2, d1, b4 = case['vals']
    books = {
        'c': ({'A1': c1, 'A2': c2, 'A3': '=A1*A2'}, []),
        # d.xlsx also holds a name defined as another name (TOTALS := RATES := S!$C$1:$C$2) whose cells nothing else refers to
        'd': ({'A1': d1, 'B1': '=A1/4', 'C1': 11.0, 'C2': c2, 'C3': '=SUM(TOTALS)'}, []),
        'b': ({'A1': '=[1]S!A1*2', 'A2': '=SUM([1]S!A1:A3)', 'A3': '=[2]S!B1+A1', 'A4': b4, 'A5': '=[2]S!C3*2'}, ['c', 'd']),
        'a': ({'A1': '=[1]S!A1+1', 'A2': '=[1]S!A2+[1]S!A4', 'A3': '=SUM([1]S!A1:A4)', 'A4': 'text', 'A5': '=[1]S!A5+1'}, ['b']),
    }
    ev = {'c': {'A1': c1, 'A2': c2, 'A3': c1 * c2}, 'd': {'A1': d1, 'B1': d1 / 4, 'C3': 11.0 + c2}}
    ev['b'] = {'A1': c1 * 2, 'A2': c1 + c2 + c1 * c2, 'A3': d1 / 4 + c1 * 2, 'A4': b4, 'A5': (11.0 + c2) * 2}
    ev['a'] = {'A1': ev['b']['A1'] + 1, 'A2': ev['b']['A2'] + b4, 'A3': ev['b']['A1'] + ev['b']['A2'] + ev['b']['A3'] + b4, 'A4': 'text',
               'A5': (11.0 + c2) * 2 + 1}
    fails = []
    with G.workdir() as root:
        paths = {}
        for nm in 'cdba':
            cells, links = books[nm]
            wb = openpyxl.Workbook()
            ws = wb.active
            ws.title = 'S'
            for k, v in cells.items():
                ws[k] = v
            if nm == 'd':
                from openpyxl.workbook.defined_name import DefinedName
                wb.defined_names['RATES'] = DefinedName('RATES', attr_text='S!$C$1:$C$2')
                wb.defined_names['TOTALS'] = DefinedName('TOTALS', attr_text='RATES')
            for t in links:
                rel = posixpath.relpath(posixpath.join(dirs[t], t + '.xlsx'), dirs[nm] or '.')
                el = ExternalLink(externalBook=ExternalBook(sheetNames=ExternalSheetNames(sheetName=['S'])))
                el.file_link = Relationship(type='externalLinkPath', Target=rel, TargetMode='External')
                wb._external_links.append(el)
            p = os.path.join(root, dirs[nm], nm + '.xlsx')
            os.makedirs(os.path.dirname(p), exist_ok=True)
            wb.save(p)
            paths[nm] = p
        files = [paths['a']] + ([] if case['load'] == 'follow' else [paths[x] for x in case['load']])
        m = sut.ExcelModel().loads(*files).finish()
        sol = m.calculate()
        for nm in 'abcd':
            sid = "'%s[%s.xlsx]S'" % (dirs[nm] + '/' if dirs[nm] else '', nm)
            for k, e in sorted(ev[nm].items()):
                node = next((x for x in sol if isinstance(x, str) and x.upper() == ('%s!%s' % (sid, k)).upper()), None)
                got = sut.one(sol[node]) if node is not None else 'MISSING'
                if node is None or not X.same(got, e, 1e-9):
                    fails.append(('nested-links|%s|%s|%s' % (case['layout'], 'follow' if case['load'] == 'follow' else 'explicit', nm),
                                  'loads(a%s): %s!%s is %r, expected %r' % ('' if case['load'] == 'follow' else ',' + ','.join(case['load']), sid, k, got, e)))
                    break
    return R(fails, nt=case['layout'] != 'flat', n=1, labels=['part:nested-links', 'layout:' + case['layout'], 'load:' + ('follow' if case['load'] == 'follow' else 'explicit')])


def check_case(case):
    if case['k'] == 'nested':
        return check_nested(case)
    if case['k'] == 'spec':
        return check_spec(case)
    raise ValueError(case['k'])


def _specs(tier):
    q = tier == 'quick'
    return st.builds(lambda spec, orders, rev, links: {'k': 'spec', 'spec': spec, 'dict_orders': ['asis'] + orders, 'files': True, 'rev_sheets': rev,
                                                        'links': links},
                     G.specs(tier, max_books=2 if q else 3, wholecols=False, anchor_rate=3, alias_rate=2, name_rate=4,
                             const=G.const_with_formula_like_text()),
                     st.lists(st.sampled_from(ORDERS[1:]), min_size=1, max_size=2 if q else 3, unique=True),
                     st.booleans(), st.one_of(st.none(), st.integers(0, 7)))


def _has_wc(spec):
    return any(f.startswith('form:wholecol') for f in G.features_of(spec))


def _specs_wc(tier):
    # whole-column references make the repo build 1048576-row arrays (seconds per presentation):
    # they get their own, smaller part with two presentations
    return st.builds(lambda spec: {'k': 'spec', 'spec': spec, 'dict_orders': ['asis'], 'files': True, 'single_file_order': True},
                     G.specs(tier, max_books=2, wholecols=True, max_cells=9).filter(_has_wc))


def _wide_specs():
    """Fixed shapes (added after seed c13-b-r3): an array formula whose area crosses the Z/AA (and ZZ/AAA) column border, with
    cached values stored in its non-anchor cells, read cell by cell and as a whole; plain cells around the border."""
    out = []
    for c0 in (25, 701):
        cells = [{'at': [0, 0, 1, c0 + j], 'v': float(j + 1)} for j in range(4)]
        cells.append({'at': [0, 0, 2, c0], 'f': ['bin', '*', ['rng', [0, 0, 1, c0, 1, c0 + 3]], ['num', 2.0]], 'arr': [2, c0 + 3]})
        for j in range(4):
            cells.append({'at': [0, 0, 3 + j, 1], 'f': ['bin', '+', ['ref', [0, 0, 2, c0 + j]], ['num', float(j)]]})
        cells.append({'at': [0, 0, 7, 1], 'f': ['fn', 'SUM', ['rng', [0, 0, 2, c0, 2, c0 + 3]]]})
        cells.append({'at': [0, 0, 8, 1], 'f': ['fn', 'SUM', ['rng', [0, 0, 1, c0 + 1, 2, c0 + 2]]]})
        spec = {'books': [{'name': 'b0.xlsx', 'sheets': ['S1']}], 'cells': cells, 'names': [{'name': 'TOTAL_IN', 'rect': [0, 0, 2, c0 + 1, 2, c0 + 2]}]}
        out.append({'k': 'spec', 'spec': spec, 'dict_orders': ['asis', 'reversed'], 'files': True})
    return out


def _anchor_specs():
    """Fixed shapes (added after seed c03-b-r4): a spill reference (C1#) to an array formula of ANOTHER book, which nothing else
    refers to - so with only the first book given to loads() the anchor is the one thing that pulls the array formula in."""
    out = []
    for shape in ((3, 1), (1, 3), (2, 2)):
        h, w = shape
        cells = [{'at': [1, 0, 1 + i, 1 + j], 'v': float(1 + i * w + j)} for i in range(h) for j in range(w)]
        area = [1, 0, 1, 5, h, 4 + w]
        cells.append({'at': [1, 0, 1, 5], 'f': ['bin', '*', ['rng', [1, 0, 1, 1, h, w]], ['num', 2.0]], 'arr': [h, 4 + w]})
        cells.append({'at': [0, 0, 1, 1], 'f': ['bin', '+', ['fn', 'SUM', ['anchor', [1, 0, 1, 5], area]], ['num', 1.0]]})
        cells.append({'at': [0, 0, 2, 1], 'f': ['fn', 'MAX', ['anchor', [1, 0, 1, 5], area], ['num', 0.5]]})
        cells.append({'at': [0, 0, 3, 1], 'f': ['bin', '*', ['ref', [0, 0, 1, 1]], ['num', 2.0]]})
        spec = {'books': [{'name': 'b0.xlsx', 'sheets': ['S1']}, {'name': 'b1.xlsx', 'sheets': ['Data']}], 'cells': cells, 'names': []}
        for links in (None, 0, 3):
            out.append({'k': 'spec', 'spec': spec, 'dict_orders': ['asis'], 'files': True, 'links': links})
    return out


STRATEGIES = {'specs': _specs, 'wholecol': _specs_wc}
WATCHDOG_S = 300


# ---------------------------------------------------------------- hash seeds (child processes)
def hashseed_batch(arg, tier, seed_value, stats, known):
    """Generate one batch of specs, evaluate it in child processes under
    different PYTHONHASHSEED values and compare the flattened solutions."""
    import hypothesis
    from hypothesis import given, settings, HealthCheck, Phase
    from ..runner import _account, R as RR
    n = arg['n']
    batch = []

    @hypothesis.seed(seed_value * 1000 + arg['shard'])
    @settings(max_examples=n, database=None, deadline=None, phases=[Phase.generate],
              suppress_health_check=list(HealthCheck))
    @given(G.specs(tier, wholecols=False))
    def collect(spec):
        batch.append(spec)
    collect()
    with G.workdir() as d:
        bpath = os.path.join(d, 'batch.json')
        with open(bpath, 'w') as f:
            json.dump(batch, f)
        results = {}
        for hs in arg['hashseeds']:
            env = dict(os.environ, PYTHONHASHSEED=str(hs), VF_REPO=sut.REPO)
            out = os.path.join(d, 'out%d.json' % hs)
            r = subprocess.run([sys.executable, '-W', 'ignore', '-m', 'vf.props.c03_child', bpath, out, os.path.join(d, 'w%d' % hs)],
                               cwd=ROOT, env=env, capture_output=True, text=True, timeout=1800)
            if r.returncode != 0:
                raise RuntimeError('child failed (hashseed %s): %s' % (hs, r.stderr[-2000:]))
            with open(out) as f:
                results[hs] = json.load(f)
    hss = list(arg['hashseeds'])
    for i, spec in enumerate(batch):
        fails = []
        ref = results[hss[0]][i]
        for hs in hss[1:]:
            cur = results[hs][i]
            for path in ('dict', 'file'):
                if ref[path] != cur[path]:
                    diff = [k for k in set(ref[path]) | set(cur[path]) if ref[path].get(k) != cur[path].get(k)]
                    fails.append(('hashseed|%s' % path, 'PYTHONHASHSEED %s vs %s differ at %s: %r vs %r' % (
                        hss[0], hs, diff[:3], [ref[path].get(k) for k in diff[:3]], [cur[path].get(k) for k in diff[:3]])))
        case = {'k': 'spec', 'spec': spec, 'dict_orders': ['asis'], 'files': True, 'note': 'hashseed disagreement: re-run under PYTHONHASHSEED values'}
        res = RR(fails, nt=G.depth_levels(spec) >= 3, n=len(hss) * 2, labels=['hashseed-batch'])
        _account(stats, case, res, known)


def parts(tier, seed):
    q = tier == 'quick'
    shards = 8 if q else 16
    per = 6 if q else 40
    return [
        ('hyp', 'specs', 320 if q else 6000),
        ('hyp', 'wholecol', 8 if q else 320, 1, {'nproc': 8}),
        ('enum', 'wide-columns', _wide_specs(), 1, False),
        ('enum', 'anchor-across-books', _anchor_specs(), 1, False),
        ('enum', 'links-across-directories', list(_nested_dir_cases()), 2, False),
        ('custom', 'hashseeds', 'hashseed_batch',
         [{'shard': i, 'n': per, 'hashseeds': [1, 2] if q else [1, 2, 3, 4]} for i in range(shards)]),
    ]
