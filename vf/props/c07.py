"""C07 - recalculation with overrides is exact and leaves no trace."""
from hypothesis import strategies as st

from .. import sut
from ..runner import R
from ..gen import workbooks as G
from ..gen import history as H
from . import c08

ID = 'C07'
RULE = ('Model-based histories (Hypothesis, shrunk as one value): a workbook spec (dict or file path) and 2-8 operations drawn from '
        'calculate(inputs, outputs) with overrides on constant cells, formula cells, single/multi-cell defined names and referenced '
        'multi-cell ranges (values of every kind) and outputs = all or a random subset; compile(ins, outs)+call; to_dict(); write() '
        'in memory / to disk; deepcopy and continue on the copy; finish() again. After EVERY calculate: (a) every populated cell equals '
        'the independent evaluation of the spec with the overridden cells as constants (an overridden formula cell is not re-evaluated, '
        'a name/range override equals overriding its cells, cells not downstream keep their value); (b) it equals the same call on a '
        'fresh model built from the spec (history independence); (c) restricting outputs changes no returned value. Non-trivial = the '
        'observed calculation is preceded by a calculation with a different override set and overrides a formula cell, a name or a '
        'range; distinct by (spec, history).')
ASSUMPTIONS = ['xlref.wb on the restricted grammar; multi-cell overrides consist of populated non-array cells without blank elements; '
               'a blank single-cell override is [[EMPTY]]']
WATCHDOG_S = 180
FLOORS = {'second-calc': ('frac', 0.3)}


def check_case(case):
    if case['k'] == 'sparse':
        from . import c08
        return c08.check_sparse(case)
    if case['k'] == 'constname':
        from . import c08
        return c08.check_constname(case)
    spec = case['spec']
    with G.workdir() as d:
        r = H.Runner(spec, case['path'], d)
        r.run(case['ops'], 'stale')
    ncalc = sum(1 for op in case['ops'] if op[0] == 'calc')
    labels = sorted(set(r.labels)) + ['path:' + case['path'], 'len:%d' % min(len(case['ops']), 8)] + (['second-calc'] if ncalc >= 2 else [])
    return R(r.fails, nt=r.nontrivial, n=max(1, r.observed), labels=labels)


def _histories(tier):
    return H.histories(tier, max_ops=8, objects=('A', 'B'), copies=('deepcopy',))


def _array_range_histories():
    """Fixed shapes (added after seed c07-b): an array formula lying wholly inside a referenced rectangle; the rectangle is
    supplied two or three times with different values, directly and through a defined name, with plain recalculations between."""
    vals = [[10.0, 20.0, 30.0, 40.0, 50.0, 60.0], [1.0, 2.0, 3.0, 4.0, 5.0, 6.0], [-1.0, 0.5, 'zz', True, 7.0, 8.0]]
    for (h, w, extra) in [(2, 1, 'row'), (1, 2, 'col'), (2, 2, 'row'), (3, 1, 'none'), (2, 1, 'none')]:
        for arr_kind in ('scale', 'plus', 'if'):
            # sources A1.. , array formula at D1, referenced rectangle = array area (+ one extra row/col)
            src = [0, 0, 1, 1, h, w]
            r2, c2 = h, 3 + w
            R2, C2 = (r2 + 1, c2) if extra == 'row' else (r2, c2 + 1) if extra == 'col' else (r2, c2)
            rect = [0, 0, 1, 4, R2, C2]
            arr_rect = [0, 0, 1, 4, r2, c2]
            tree = {'scale': ['bin', '*', ['rng', src], ['num', 2.0]], 'plus': ['bin', '+', ['rng', src], ['ref', [0, 0, 6, 1]]],
                    'if': ['fn', 'IF', ['bin', '>', ['rng', src], ['num', 1.0]], ['rng', src], ['num', 0.0]]}[arr_kind]
            cells = [{'at': [0, 0, r, c], 'v': float(r * 2 + c)} for r in range(1, h + 1) for c in range(1, w + 1)]
            cells.append({'at': [0, 0, 6, 1], 'v': 100.0})
            cells.append({'at': [0, 0, 1, 4], 'f': tree, 'arr': [r2, c2]})
            if extra != 'none':
                er, ec = (R2, 4) if extra == 'row' else (1, C2)
                for i in range(w if extra == 'row' else h):
                    cells.append({'at': [0, 0, er + (0 if extra == 'row' else i), ec + (i if extra == 'row' else 0)], 'v': 5.0 + i})
            cells.append({'at': [0, 0, 8, 1], 'f': ['fn', 'SUM', ['rng', arr_rect]]})
            cells.append({'at': [0, 0, 8, 2], 'f': ['fn', 'SUM', ['rng', rect]]})
            cells.append({'at': [0, 0, 8, 3], 'f': ['bin', '+', ['fn', 'SUM', ['name', 0]], ['num', 1.0]]})
            spec = {'books': [{'name': 'b0.xlsx', 'sheets': ['S1']}], 'cells': cells, 'names': [{'name': 'TOTAL_IN', 'rect': rect}]}
            nr, nc = R2, C2 - 3

            def rows(v):
                return [[v[(i * nc + j) % len(v)] for j in range(nc)] for i in range(nr)]
            for path in ('dict', 'file'):
                ops = [['calc', 'A', [['rect', rect, rows(vals[0])]], None], ['calc', 'A', [['rect', rect, rows(vals[1])]], None],
                       ['calc', 'A', [], None], ['calc', 'A', [['name', 0, rows(vals[2])]], None], ['calc', 'A', [['rect', rect, rows(vals[0])]], [[0, 0, 8, 1]]]]
                yield {'k': 'history', 'spec': spec, 'path': path, 'ops': ops}


def _sparse():
    """The calculate-only sequences of C08's sparse-range shapes: rectangles most of whose cells are unpopulated, supplied
    whole, in part and through a name, with plain recalculations in between (no trace may remain)."""
    from . import c08
    return [c for c in c08.sparse_cases() if not any(op[0] in ('compile', 'call', 'copy') for op in c['ops'])]


STRATEGIES = {'histories': _histories}


def parts(tier, seed):
    q = tier == 'quick'
    return [('hyp', 'histories', 2000 if q else 16000, 10),
            ('enum', 'array-range-histories', list(_array_range_histories()), 2, False),
            ('enum', 'sparse-range-histories', _sparse(), 3, False),
            ('enum', 'constant-names', [c for c in c08.constname_cases() if c['mode'] != 'compile'], 2, False)]
