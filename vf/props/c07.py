"""C07 - recalculation with overrides is exact and leaves no trace."""
from hypothesis import strategies as st

from .. import sut
from ..runner import R
from ..gen import workbooks as G
from ..gen import history as H

ID = 'C07'
RULE = ('Model-based histories (Hypothesis, shrunk as one value): a workbook spec (dict or file path) and 2-8 operations drawn from '
        'calculate(inputs, outputs) with overrides on constant cells, formula cells, single/multi-cell defined names and referenced '
        'multi-cell ranges (values of every kind) and outputs = all or a random subset; compile(ins, outs)+call; to_dict(); write() '
        'in memory / to disk; deepcopy and continue on the copy; finish() again. After EVERY calculate: (a) every populated cell equals '
        'the independent evaluation of the spec with the overridden cells as constants (an overridden formula cell is not re-evaluated, '
        'a name/range override equals overriding its cells, cells not downstream keep their value); (b) it equals the same call on a '
        'fresh model built from the spec (history independence); (c) restricting outputs changes no returned value. Non-trivial = the '
        'observed calculation is preceded by a calculation with a different override set and overrides a formula cell, a name or a '
        'range; distinct by (spec, history).')
ASSUMPTIONS = ['xlref.wb on the restricted grammar; multi-cell overrides consist of populated non-array cells without blank elements; '
               'a blank single-cell override is [[EMPTY]]']
WATCHDOG_S = 180
FLOORS = {'second-calc': ('frac', 0.3)}


def check_case(case):
    spec = case['spec']
    with G.workdir() as d:
        r = H.Runner(spec, case['path'], d)
        r.run(case['ops'], 'stale')
    ncalc = sum(1 for op in case['ops'] if op[0] == 'calc')
    labels = sorted(set(r.labels)) + ['path:' + case['path'], 'len:%d' % min(len(case['ops']), 8)] + (['second-calc'] if ncalc >= 2 else [])
    return R(r.fails, nt=r.nontrivial, n=max(1, r.observed), labels=labels)


def _histories(tier):
    return H.histories(tier, max_ops=8, objects=('A', 'B'), copies=('deepcopy',))


STRATEGIES = {'histories': _histories}


def parts(tier, seed):
    q = tier == 'quick'
    return [('hyp', 'histories', 2000 if q else 16000, 10)]
