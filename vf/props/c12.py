"""C12 - the core function library matches its Excel definitions."""
import re
import math
import itertools
from decimal import Decimal
from hypothesis import strategies as st

from .. import sut
from ..sut import Err, BLANK, Blank, Foreign
from ..runner import R
from ..xlref import core as X
from ..xlref import c12_funcs as F
from ..xlref.c12_funcs import Arg, Outside

ID = 'C12'
RULE = ('One case = one call =FUNC(args) evaluated as Cell(...).compile() in a Dispatcher; every argument is generated as '
        'a directly typed literal, a reference (range input supplied to the cell; 1x1 to 3x3, blank cells included), an '
        'array constant, or an omitted slot. Part "grid" enumerates boundary tables per function (ROUND family x halves / '
        'exact decimals / binary-exact values x digits -2..3 x sign; MOD/CEILING/FLOOR sign grids; text positions -1..len+2; '
        'every value kind x typed/referenced for unary, IS.., logical and aggregation functions); the Hypothesis parts '
        'logic/info/agg/math/round/text draw random argument tuples per family (mixed-type ranges, 1-5 arguments, optional '
        'arguments present/absent, a random permutation of the arguments of order-invariant functions, one argument lifted to '
        'an array for element-wise functions). Oracle: vf/xlref/c12_funcs (one reference per function with an explicit asserted '
        'domain; outside it only "returns an Excel value" is checked). Non-trivial = some argument is not a plain number, or '
        'the expected value is an error, or the rule tag names a boundary (half, exact decimal, zero, sign, position at/after '
        'the end, empty text, skipped cell); distinct by (function, arguments).')
ASSUMPTIONS = [
    'xlref.c12_funcs is my reading of the en-US Excel documentation; numeric text inside referenced ranges/arrays under '
    'aggregations is neither generated nor judged (the repo\'s own tests pin summing it)',
    'ROUND family asserted for numbers with <= 15 significant digits on Decimal(repr(x)); CEILING/FLOOR/MOD not asserted when '
    'the operands are an exact decimal multiple that is not exact in binary; trigonometry compared at 1e-9',
    'several error sources in one call: any of them is accepted; text conditions through references, SWITCH logical-vs-number, '
    'date/currency-looking text are outside the asserted domain',
]

ERRS = [Err(e) for e in sut.ERRORS]


# ---------------------------------------------------------------------------
# JSON encoding of cases
# ---------------------------------------------------------------------------
def enc(v):
    if isinstance(v, Err):
        return ['E', v.t]
    if isinstance(v, Blank):
        return None
    return v


def dec(v):
    if v is None:
        return BLANK
    if isinstance(v, list):
        return Err(v[1])
    if isinstance(v, int) and not isinstance(v, bool):
        return float(v)
    return v


def L(v):
    return ['l', enc(v)]


def Rf(rows):
    return ['r', [[enc(v) for v in row] for row in rows]]


def Ar(rows):
    # a negative number inside an array constant is parsed by the repo as a unary minus applied to a constant and
    # becomes a nested array (a parser matter, outside this property): array constants hold non-negative numbers
    return ['a', [[enc(abs(v) if isinstance(v, float) and not isinstance(v, bool) else v) for v in row] for row in rows]]


OM = ['o']


def to_arg(spec):
    t = spec[0]
    if t == 'o':
        return Arg('omit')
    rows = [[dec(spec[1])]] if t == 'l' else [[dec(v) for v in row] for row in spec[1]]
    return Arg({'l': 'lit', 'r': 'ref', 'a': 'arr'}[t], rows)


def call(f, *args, **kw):
    c = {'f': f, 'args': list(args)}
    c.update(kw)
    return c


# ---------------------------------------------------------------------------
# rendering and evaluation
# ---------------------------------------------------------------------------
COLS = 'ABCDEFGHIJKLMNOPQRSTUVWXYZ'


def cname(c):
    s = ''
    while c:
        c, r = divmod(c - 1, 26)
        s = COLS[r] + s
    return s


def lit_text(v):
    if isinstance(v, float) and v < 0:
        return '-' + X.num_literal(-v)
    return X.literal(v, paren_negative=False)


def render(f, args, order=None):
    """-> (formula text, inputs).  Reference i lives in its own block of
    columns (rows 1..), so a permutation keeps every reference's name."""
    parts, inputs = {}, {}
    for i, a in enumerate(args):
        if a.t == 'omit':
            parts[i] = ''
        elif a.t == 'lit':
            parts[i] = lit_text(a.rows[0][0])
        elif a.t == 'arr':
            parts[i] = '{%s}' % ';'.join(','.join(lit_text(v) for v in row) for row in a.rows)
        else:
            c0 = 2 + 5 * i
            r, c = a.shape()
            n1 = '%s1' % cname(c0)
            name = n1 if (r, c) == (1, 1) else '%s:%s%d' % (n1, cname(c0 + c - 1), r)
            parts[i] = name
            inputs[name] = a.rows
    order = order if order is not None else range(len(args))
    return '=%s(%s)' % (f, ','.join(parts[i] for i in order)), inputs


_CELLS = {}


def evaluate(formula, inputs, shape=(1, 1)):
    out = 'A30' if shape == (1, 1) else 'A30:%s%d' % (cname(shape[1]), 29 + shape[0])
    try:
        if inputs:
            # formulas over references recur with other cell values: compile once (compiled object only, results
            # are recomputed from the inputs on every call)
            key = (out, formula)
            if key not in _CELLS:
                if len(_CELLS) > 3000:
                    _CELLS.clear()
                dsp = sut.sh.Dispatcher(raises=False)
                c = sut.Cell(out, formula).compile()
                if not c.add(dsp):
                    raise RuntimeError('Cell.add returned nothing')
                _CELLS[key] = (dsp, c.output)
            dsp, o = _CELLS[key]
            v = dsp({k: sut.rng(k, rows) for k, rows in inputs.items()}).get(o, 'MISSING')
        else:
            v, _ = sut.cell_eval(out, formula, inputs)
    except sut.Watchdog:
        raise
    except Exception as ex:  # the statement: a value, never an exception
        cause = ex.args[-1] if getattr(ex, 'args', None) and isinstance(ex.args[-1], Exception) else ex
        return [[Foreign('raised:%s' % type(cause).__name__)]]
    if isinstance(v, str) and v == 'MISSING':
        return [[Foreign('no-output')]]
    return sut.matrix(v)


def same(got, exp, rel=1e-12, abs_=0.0):
    if isinstance(exp, tuple):
        return any(same(got, e, rel, abs_) for e in exp)
    if isinstance(got, bool) or isinstance(exp, bool):
        return isinstance(got, bool) and isinstance(exp, bool) and got == exp
    if isinstance(got, float) and isinstance(exp, float):
        if got == exp:
            return True
        return abs(got - exp) <= max(rel * max(abs(got), abs(exp)), abs_, 1e-300)
    return type(got) is type(exp) and got == exp


_BOUNDARY = re.compile(r'half|exact|zero|neg|beyond|empty|skipped|blank|last|over-end|default|omitted|no-|multiple|'
                       r'domain|pole|origin|fraction|text|logical|error|trap|mismatch|nbsp|inner|case|wildcard|escaped|'
                       r'overflow|huge|instance|separator|percent|padded|base-1|nonpositive|sqrt:negative|ref-|direct-')


def tolerance(f, args):
    rel = F.TOL.get(f, 1e-12)
    abs_ = 0.0
    if F.FAMILY.get(f) == 'agg' and f in F.AGG:
        abs_ = 1e-12 * F.agg_scale(f, args)
    elif f == 'SUMPRODUCT':
        big = max((abs(v) for a in args for v in a.cells() if isinstance(v, float) and not isinstance(v, bool)), default=0)
        abs_ = 1e-12 * big ** len(args) if big < 1e50 else 0.0
    elif f in ('MOD', 'CEILING', 'FLOOR'):
        xs = [X.to_number(a.rows[0][0])[0] for a in args if a.t != 'omit']
        big = max((abs(v) for v in xs if isinstance(v, float)), default=0.0)
        abs_ = 1e-12 * big
    elif f in ('SIN', 'COS', 'TAN', 'TANH', 'SINH', 'ATAN', 'ASIN', 'ASINH', 'ATANH'):
        abs_ = 1e-15
    return rel, abs_


def _kinds(args):
    ks = set()
    for a in args:
        if a.t == 'omit':
            ks.add('omitted')
            continue
        ks.add({'lit': 'typed', 'ref': 'reference', 'arr': 'array-constant'}[a.t])
        if a.t != 'lit':
            r, c = a.shape()
            ks.add('shape:1x1' if (r, c) == (1, 1) else 'shape:vector' if 1 in (r, c) else 'shape:matrix')
        for v in a.cells():
            k = X.kind(v)
            ks.add('val:' + k)
            if k == 'num':
                if v == 0:
                    ks.add('val:zero')
                elif not F._bin_exact(v):
                    ks.add('val:decimal-not-binary')
                elif v != int(v):
                    ks.add('val:binary-fraction')
    return ks


META_AGG = ['COUNT', 'COUNTA', 'MAX', 'MIN', 'AVERAGE', 'MEDIAN', 'SUM', 'PRODUCT', 'SUMSQ', 'MAXA', 'MINA', 'AVERAGEA', 'STDEV', 'VAR', 'STDEVP', 'VARP',
            'LARGE', 'SMALL', 'AND', 'OR', 'XOR', 'SUMPRODUCT', 'COUNTBLANK']
META_INNER = ['ISNUMBER(%s)', 'ISTEXT(%s)', 'ISBLANK(%s)', 'ISERROR(%s)', '%s>1', 'NOT(ISNUMBER(%s))', 'ISLOGICAL(%s)']
META_DATA = [[[2.0], ['a'], [None], [7.5]], [[2.0, 'a', True, ['E', '#N/A']]], [[0.0, 1.0], [3.0, 'x']]]


def meta_cases():
    """A logical array computed by a function, handed to an aggregation, is the same argument as the literal array of those
    logicals - alone and next to the data itself (added after seed c12-a-r3)."""
    for agg in META_AGG:
        for inner in META_INNER:
            for di, data in enumerate(META_DATA):
                for extra in (False, True):
                    yield {'k': 'meta', 'agg': agg, 'inner': inner, 'd': data, 'extra': extra}


def check_meta(case):
    from .. import sut
    data = [[sut.BLANK if v is None else (sut.Err(v[1]) if isinstance(v, list) else v) for v in row] for row in case['d']]
    h, w = len(data), len(data[0])
    ref = 'B1:%s%d' % ('BCDEFG'[w - 1], h)
    inputs = {ref: data}
    inner = case['inner'] % ref
    tail = ',2' if case['agg'] in ('LARGE', 'SMALL') else ''
    try:
        iv, _ = sut.cell_eval('H1:%s%d' % ('HIJKLM'[w - 1], h), '=' + inner, inputs)
        im = sut.matrix(iv)
    except sut.Watchdog:
        raise
    except Exception as ex:  # noqa
        return R(labels=['meta-skipped:inner-raised'])
    if any(not isinstance(x, bool) for row in im for x in row):
        return R(labels=['meta-skipped:inner-not-logical'])
    lit = '{%s}' % ';'.join(','.join('TRUE' if x else 'FALSE' for x in row) for row in im)
    second = (',' + ref) if case['extra'] and case['agg'] not in ('LARGE', 'SMALL', 'SUMPRODUCT', 'COUNTBLANK') else ''
    out = []
    for sp, arg in (('computed', inner), ('literal', lit)):
        f = '=%s(%s%s%s)' % (case['agg'], arg, second, tail)
        try:
            v, _ = sut.cell_eval('A1', f, inputs)
            out.append((f, sut.one(v) if not (isinstance(v, str) and v == 'MISSING') else sut.Foreign('no-output')))
        except sut.Watchdog:
            raise
        except Exception as ex:  # noqa
            out.append((f, sut.Foreign('raised:%s' % type(ex).__name__)))
    fails = []
    (f1, a), (f2, b) = out
    if not X.same(a, b, 1e-12):
        fails.append(('meta|%s|computed-vs-literal-logicals|%s' % (case['agg'], X.cls(a)), '%s = %r but %s = %r' % (f1, a, f2, b)))
    return R(fails, nt=True, n=2, labels=['part:meta', 'f:' + case['agg']])


def check_case(case):
    if case.get('k') == 'meta':
        return check_meta(case)
    f = case['f']
    args = [to_arg(s) for s in case['args']]
    labels = ['fam:' + F.FAMILY[f], 'f:' + f]
    if f in OPTIONAL:
        labels.append('optional:absent' if len(args) == OPTIONAL[f] else 'optional:present')
    kinds = _kinds(args)
    labels += sorted(kinds)
    lift = case.get('lift')
    perm = case.get('perm')
    fails = []
    nt = False
    if lift is None:
        formula, inputs = render(f, args)
        got = evaluate(formula, inputs)
        g = got[0][0] if len(got) == 1 and len(got[0]) == 1 else Foreign('shape%dx%d' % (len(got), len(got[0])))
        try:
            exp, tag = F.reference(f, args)
        except Outside as o:
            labels.append('outside-asserted-domain')
            labels.append('outside:' + str(o))
            if isinstance(g, Foreign):
                fails.append(('%s|weak:%s|%s' % (f, o, X.cls(g)), '%s with %r: %r is not an Excel value' % (formula, inputs, g)))
            return R(fails, nt=False, labels=labels)
        m = re.search(r'round:(half|exact)-(bin|dec)', tag)
        if m:
            labels.append('%s:%s' % (m.group(1), {'bin': 'binary-exact', 'dec': 'decimal-only'}[m.group(2)]))
        if isinstance(exp, Err) or (isinstance(exp, tuple) and isinstance(exp[0], Err)):
            labels.append('expects:error')
        rel, abs_ = tolerance(f, args)
        if not same(g, exp, rel, abs_):
            fails.append(('%s|%s|%s' % (f, tag, X.cls(g)), '%s with %r: got %r, expected %r' % (formula, inputs, g, exp)))
        elif perm is not None and f in F.SYMMETRIC and sorted(perm) == list(range(len(args))):
            labels.append('permuted')
            f2, in2 = render(f, args, perm)
            got2 = evaluate(f2, in2)
            g2 = got2[0][0] if len(got2) == 1 and len(got2[0]) == 1 else Foreign('shape')
            if not same(g2, exp, rel, abs_):
                fails.append(('%s|order-dependence>%s|%s' % (f, tag, X.cls(g2)),
                              '%s gives %r but %s gives %r (inputs %r)' % (formula, g, f2, g2, inputs)))
        nt = bool(kinds - {'typed', 'val:num', 'val:binary-fraction'}) and (
            isinstance(exp, Err) or bool(_BOUNDARY.search(tag)) or any(
                k.startswith('val:') and k not in ('val:num', 'val:binary-fraction') for k in kinds))
        nt = nt or bool(_BOUNDARY.search(tag))
        return R(fails, nt=nt, labels=labels, n=2 if 'permuted' in labels else 1)

    # one argument lifted to an array: the scalar rule element by element
    labels.append('lifted')
    a = args[lift]
    r, c = a.shape()
    formula, inputs = render(f, args)
    got = evaluate(formula, inputs, (r, c))
    if (len(got), len(got[0])) != (r, c):
        g = got[0][0]
        fails.append(('%s|lift-shape|%s' % (f, X.cls(g)), '%s with %r: result shape %dx%d, expected %dx%d (%r)' % (
            formula, inputs, len(got), len(got[0]), r, c, got)))
        return R(fails, nt=True, labels=labels)
    n_out = 0
    for i in range(r):
        for j in range(c):
            el = Arg('lit' if a.t == 'lit' else a.t, [[a.rows[i][j]]])
            sargs = args[:lift] + [el] + args[lift + 1:]
            g = got[i][j]
            try:
                exp, tag = F.reference(f, sargs)
            except Outside as o:
                n_out += 1
                if isinstance(g, Foreign):
                    fails.append(('%s|weak:%s|%s' % (f, o, X.cls(g)), '%s with %r: element (%d,%d) = %r' % (formula, inputs, i, j, g)))
                continue
            rel, abs_ = tolerance(f, sargs)
            if not same(g, exp, rel, abs_):
                # the same element as a scalar call: right there -> the lifting is at fault, not the function's rule
                f1, in1 = render(f, sargs)
                g1 = evaluate(f1, in1)[0][0]
                if same(g1, exp, rel, abs_):
                    fails.append(('%s|lift:element-differs-from-scalar-call|%s' % (f, X.cls(g)),
                                  '%s with %r: element (%d,%d) got %r, but %s gives %r as expected' % (
                                      formula, inputs, i, j, g, f1, g1)))
                else:
                    fails.append(('%s|%s|%s' % (f, tag, X.cls(g)), '%s with %r: element (%d,%d) got %r, expected %r' % (
                        formula, inputs, i, j, g, exp)))
            nt = nt or bool(_BOUNDARY.search(tag))
    if n_out:
        labels.append('outside-asserted-domain')
    seen, out = set(), []
    for s, d in fails:
        if s not in seen:
            seen.add(s)
            out.append((s, d))
    return R(out, nt=True, labels=labels, n=r * c)


# ---------------------------------------------------------------------------
# value pools
# ---------------------------------------------------------------------------
NUMS = [0.0, 1.0, -1.0, 2.0, 3.0, 0.5, -0.5, 2.5, -2.5, 1.5, 0.125, 1.15, -1.15, 2.675, 1.005, 0.285, 10.0, 100.0, 7.0, -7.0,
        0.1, 0.2, 0.3, 1234.5678, 1e-7, 1e10, 4.0, 9.0, -3.0, 0.25]
NUMTEXT = ['3', ' 3 ', '-1.5', '1e3', '0', '.5', '5.', '+2']
TEXT = ['abc', 'a', 'A', 'B', '', ' ', 'Hello World', 'TRUE', 'false', 'x y']
TRAPS = ['inf', 'nan', '1_0', 'Infinity']
SCALARS = NUMS[:14] + NUMTEXT[:4] + TEXT[:6] + [True, False] + ERRS


def halves():
    """x.5 at every digit position 0..4 (1.5, 1.15, 1.115 ... and 1.05, 1.005 ...): binary-exact and decimal-only."""
    out = []
    for base in (0, 1, 2, 12, 7):
        for p in range(0, 5):
            out.append(float('%d.%s5' % (base, '1' * p)))
            out.append(float('%d.%s5' % (base, '0' * p)))
    out += [2.5, 0.125, 0.375, 1.005, 2.675, 1.15, 0.285, 1.45, 8.325, 0.5, 1.5, 0.15, 0.25, 0.35, 2.345, 1.0005, 5.5, 6.5, 0.00015]
    return sorted(set(out))


ROUND_X = sorted(set(halves() + [1.0, 1.2, 1.25, 1.26, 1.24, 1.15, 0.1, 0.7, 1.1, 2.3, 4.35, 1.005, 1.0049, 1.0051, 19.99, 0.0,
                                 1234.5, 1250.0, 1150.0, 15.0, 123.456, 0.615, 1.255, 33.33, 0.07, 0.57, 0.58, 1.13, 64.1, 16.09]))

S_NUM = st.one_of(
    st.sampled_from(NUMS),
    st.integers(-20, 20).map(float),
    st.builds(lambda a, p: float(Decimal(a).scaleb(-p)), st.integers(-99999, 99999), st.integers(0, 4)),
    st.builds(lambda a, p: float(Decimal(a * 10 + 5).scaleb(-p - 1)), st.integers(-999, 999), st.integers(0, 4)),
    st.floats(-1000, 1000, allow_nan=False).map(lambda x: round(x, 3)),
)
S_SMALLINT = st.integers(-3, 8).map(float)
S_NUMTEXT = st.sampled_from(NUMTEXT)
S_TEXT = st.sampled_from(TEXT)
S_ERR = st.sampled_from(ERRS)
S_BOOL = st.booleans()


def s_scalar(num=6, numtext=1, text=1, boolean=1, err=1, trap=0):
    opts = [S_NUM] * num + [S_NUMTEXT] * numtext + [S_TEXT] * text + [S_BOOL] * boolean + [S_ERR] * err
    if trap:
        opts += [st.sampled_from(TRAPS)] * trap
    return st.one_of(opts)


def s_cell(**kw):
    """A cell of a referenced range: no numeric text (not asserted), blanks allowed."""
    return st.one_of([S_NUM] * 5 + [st.just(BLANK)] * 2 + [st.sampled_from(['abc', '', ' ', 'x', 'TRUE'])] * 2 +
                     [S_BOOL] * 2 + ([S_ERR] if kw.get('err', True) else []))


def s_rows(cell, max_r=3, max_c=3):
    return st.integers(1, max_r).flatmap(lambda r: st.integers(1, max_c).flatmap(
        lambda c: st.lists(st.lists(cell, min_size=c, max_size=c), min_size=r, max_size=r)))


def s_arg_scalar(value):
    """A scalar argument: typed or through a 1x1 reference (blank possible)."""
    return st.one_of(value.map(L), value.map(L), value.map(lambda v: Rf([[v]])), st.just(Rf([[BLANK]])))


# ---------------------------------------------------------------------------
# Hypothesis strategies, one per family
# ---------------------------------------------------------------------------
AGG_FUNCS = ['SUM', 'PRODUCT', 'SUMSQ', 'AVERAGE', 'MIN', 'MAX', 'MEDIAN', 'COUNT', 'COUNTA', 'STDEV', 'STDEVP', 'STDEV.S',
             'STDEV.P', 'VAR', 'VARP', 'VAR.S', 'VAR.P', 'STDEVA', 'STDEVPA', 'VARA', 'VARPA']


@st.composite
def _agg(draw, tier='quick'):
    kind = draw(st.sampled_from(['multi'] * 8 + ['countblank', 'large', 'small', 'sumproduct', 'sumproduct']))
    if kind == 'countblank':
        return call('COUNTBLANK', Rf(draw(s_rows(s_cell()))))
    if kind in ('large', 'small'):
        rows = draw(s_rows(s_cell(), 3, 3))
        k = draw(st.one_of(st.integers(-1, 10).map(float), st.integers(1, 3).map(float), S_ERR))
        arr = draw(st.sampled_from(['r', 'r', 'a']))
        if arr == 'a':
            rows = [[(0.0 if isinstance(v, Blank) else v) for v in row] for row in rows]
        a = Rf(rows) if arr == 'r' else Ar(rows)
        karg = draw(st.sampled_from([L, lambda v: Rf([[v]])]))(k)
        return call(kind.upper(), a, karg)
    if kind == 'sumproduct':
        n = draw(st.integers(1, 3))
        r, c = draw(st.integers(1, 3)), draw(st.integers(1, 3))
        cell = st.one_of([S_NUM] * 6 + [st.just(BLANK), st.sampled_from(['abc', '']), S_BOOL] + [S_ERR] * draw(st.integers(0, 1)))
        args = []
        for i in range(n):
            rr, cc = r, c
            if draw(st.integers(0, 9)) == 0:
                rr, cc = draw(st.sampled_from([(c, r), (r + 1, c), (1, r * c), (r * c, 1)]))
            rows = draw(st.lists(st.lists(cell, min_size=cc, max_size=cc), min_size=rr, max_size=rr))
            if draw(st.integers(0, 3)) == 0:
                args.append(Ar([[(0.0 if isinstance(v, Blank) else v) for v in row] for row in rows]))
            else:
                args.append(Rf(rows))
        perm = draw(st.permutations(list(range(n))))
        return call('SUMPRODUCT', *args, perm=list(perm))
    f = draw(st.sampled_from(AGG_FUNCS))
    n = draw(st.integers(1, 5))
    direct = s_scalar(num=8, numtext=2, text=1, boolean=2, err=1, trap=1 if draw(st.integers(0, 7)) == 0 else 0)
    if f in F.A_VARIANTS:
        direct = s_scalar(num=8, numtext=0, text=0, boolean=2, err=1)
    huge = draw(st.integers(0, 40)) == 0
    args = []
    for i in range(n):
        t = draw(st.sampled_from(['l', 'l', 'r', 'r', 'a', 'r1']))
        if t == 'l':
            v = draw(direct)
            if huge and isinstance(v, float) and not isinstance(v, bool):
                v = draw(st.sampled_from([1e200, -1e200, 1e300, 1e155]))
            args.append(L(v))
        elif t == 'r':
            args.append(Rf(draw(s_rows(s_cell()))))
        elif t == 'r1':
            args.append(Rf([[draw(s_cell())]]))
        else:
            rows = draw(s_rows(st.one_of([S_NUM] * 4 + [S_BOOL, st.sampled_from(['abc', '']), S_ERR]), 2, 3))
            args.append(Ar(rows))
    perm = draw(st.permutations(list(range(n))))
    return call(f, *args, perm=list(perm))


LOGIC_TEXT = ['TRUE', 'FALSE', 'true', 'False', 'abc', '', ' ']


@st.composite
def _logic(draw, tier='quick'):
    f = draw(st.sampled_from(['IF', 'IF', 'IFS', 'SWITCH', 'AND', 'OR', 'XOR', 'NOT', 'IFERROR', 'IFNA']))
    cond = st.one_of([S_BOOL] * 3 + [st.sampled_from([0.0, 1.0, -1.0, 2.5, 0.5, 1e-7])] * 2 + [st.sampled_from(LOGIC_TEXT), S_ERR])
    val = s_scalar(num=4, numtext=1, text=2, boolean=1, err=1)
    if f == 'IF':
        c = draw(s_arg_scalar(cond))
        n = draw(st.sampled_from([2, 3, 3]))
        # explicit weight: one_of flattens nested alternatives, which would make the omitted slot rare
        rest = [OM if draw(st.integers(0, 3)) == 0 else draw(s_arg_scalar(val)) for _ in range(n - 1)]
        return call('IF', c, *rest)
    if f == 'IFS':
        n = draw(st.integers(1, 3))
        args = []
        for _ in range(n):
            args += [draw(s_arg_scalar(cond)), draw(s_arg_scalar(val))]
        return call('IFS', *args)
    if f == 'SWITCH':
        keys = st.one_of(st.sampled_from([1.0, 2.0, 0.0, 2.5]), st.sampled_from(['a', 'A', 'b', '1', '']), S_BOOL)
        e = draw(st.one_of(keys, keys, S_ERR))
        n = draw(st.integers(1, 3))
        args = []
        for _ in range(n):
            args += [L(draw(keys)), draw(s_arg_scalar(val))]
        if draw(S_BOOL):
            args.append(draw(s_arg_scalar(val)))
        return call('SWITCH', draw(st.sampled_from([L, lambda v: Rf([[v]])]))(e), *args)
    if f in ('AND', 'OR', 'XOR'):
        n = draw(st.integers(1, 4))
        args = []
        cell = st.one_of([S_BOOL] * 4 + [st.sampled_from([0.0, 1.0, 2.5])] * 2 + [st.just(BLANK), st.sampled_from(['abc', '', 'TRUE'])] +
                         [S_ERR] * draw(st.integers(0, 1)))
        for _ in range(n):
            t = draw(st.sampled_from(['l', 'l', 'r', 'a', 'r1']))
            if t == 'l':
                args.append(L(draw(cond)))
            elif t == 'r':
                args.append(Rf(draw(s_rows(cell, 2, 3))))
            elif t == 'r1':
                args.append(Rf([[draw(cell)]]))
            else:
                rows = draw(s_rows(cell, 2, 2))
                args.append(Ar([[(False if isinstance(v, Blank) else v) for v in row] for row in rows]))
        return call(f, *args, perm=list(draw(st.permutations(list(range(n))))))
    if f == 'NOT':
        if draw(st.integers(0, 3)) == 0:
            rows = draw(s_rows(st.one_of(S_BOOL, st.sampled_from([0.0, 1.0, 3.0]), st.just(BLANK), S_ERR), 2, 3))
            return call('NOT', Rf(rows), lift=0)
        return call('NOT', draw(s_arg_scalar(cond)))
    v = draw(s_arg_scalar(s_scalar(num=3, numtext=1, text=1, boolean=1, err=4)))
    return call(f, v, draw(s_arg_scalar(val)))


INFO_FUNCS = ['ISBLANK', 'ISERR', 'ISERROR', 'ISNA', 'ISLOGICAL', 'ISNUMBER', 'ISTEXT', 'ISNONTEXT', 'ISEVEN', 'ISODD']


@st.composite
def _info(draw, tier='quick'):
    f = draw(st.sampled_from(INFO_FUNCS))
    val = s_scalar(num=3, numtext=2, text=2, boolean=1, err=2, trap=0)
    if f in ('ISEVEN', 'ISODD'):
        val = st.one_of(st.integers(-50, 50).map(float), S_NUM, S_NUM, st.sampled_from(['2', '3', ' 4 ', '2.5', 'abc', '']), S_BOOL, S_ERR,
                        st.sampled_from([1e15, 2.0 ** 52 + 1, -2.5, -3.5, 0.9, -0.9]))
        return call(f, draw(s_arg_scalar(val)))
    if draw(st.integers(0, 3)) == 0:
        cell = st.one_of(S_NUM, S_NUMTEXT, S_TEXT, S_BOOL, S_ERR, st.just(BLANK))
        t = draw(st.sampled_from(['r', 'r', 'a']))
        rows = draw(s_rows(cell, 3, 3))
        if t == 'a':
            rows = [[('' if isinstance(v, Blank) else v) for v in row] for row in rows]
        return call(f, (Rf if t == 'r' else Ar)(rows), lift=0)
    return call(f, draw(s_arg_scalar(val)))


UNARY = ['ABS', 'INT', 'SIGN', 'SQRT', 'EXP', 'LN', 'LOG10', 'EVEN', 'ODD', 'SIN', 'COS', 'TAN', 'ASIN', 'ACOS', 'ATAN', 'SINH',
         'COSH', 'TANH', 'ASINH', 'ACOSH', 'ATANH', 'COT', 'SEC', 'CSC', 'DEGREES', 'RADIANS', 'TRUNC', 'LOG']
BINARY = ['LOG', 'POWER', 'MOD', 'CEILING', 'FLOOR', 'ATAN2']


@st.composite
def _math(draw, tier='quick'):
    val = s_scalar(num=10, numtext=2, text=1, boolean=1, err=1, trap=1 if draw(st.integers(0, 9)) == 0 else 0)
    extra = st.sampled_from([0.0, 1.0, -1.0, 0.5, -0.5, 1e-7, 709.0, 710.0, -710.0, 1e6, 1e5, 1e200, -1e200, math.pi, math.pi / 2])
    if draw(st.integers(0, 2)):
        f = draw(st.sampled_from(UNARY))
        x = st.one_of(val, val, extra)
        if draw(st.integers(0, 5)) == 0:
            cell = st.one_of(S_NUM, S_NUM, S_NUMTEXT, S_TEXT, S_BOOL, S_ERR, st.just(BLANK))
            t = draw(st.sampled_from(['r', 'a']))
            rows = draw(s_rows(cell, 2, 3))
            if t == 'a':
                rows = [[(0.0 if isinstance(v, Blank) else v) for v in row] for row in rows]
            return call(f, (Rf if t == 'r' else Ar)(rows), lift=0)
        return call(f, draw(s_arg_scalar(x)))
    f = draw(st.sampled_from(BINARY))
    small = st.one_of(S_SMALLINT, st.sampled_from([0.5, -0.5, 2.5, -2.5, 0.25, 0.1, 0.05, 1.0, 10.0, 1e-7]))
    x = st.one_of(val, small)
    y = st.one_of(small, small, val)
    return call(f, draw(s_arg_scalar(x)), draw(s_arg_scalar(y)))


@st.composite
def _round(draw, tier='quick'):
    f = draw(st.sampled_from(['ROUND', 'ROUNDUP', 'ROUNDDOWN', 'TRUNC']))
    x = draw(st.one_of(S_NUM, S_NUM, st.sampled_from(ROUND_X), st.sampled_from(ROUND_X).map(lambda v: -v),
                       st.builds(lambda a, p: float(Decimal(a * 10 + 5).scaleb(-p - 1)), st.integers(0, 99999), st.integers(0, 6)),
                       s_scalar(num=0, numtext=2, text=1, boolean=1, err=1)))
    d = draw(st.one_of(st.integers(-3, 6).map(float), st.integers(0, 3).map(float), st.sampled_from([0.9, 1.5, 2.99, 12.0, -5.0]),
                       s_scalar(num=0, numtext=1, text=1, boolean=1, err=1)))
    ax = draw(s_arg_scalar(st.just(x)))
    if f == 'TRUNC' and draw(st.integers(0, 2)) == 0:
        return call(f, ax)
    if draw(st.integers(0, 7)) == 0 and isinstance(x, float):
        xs = draw(st.lists(st.sampled_from(ROUND_X), min_size=2, max_size=3))
        return call(f, Ar([xs]), L(d) if isinstance(d, float) and not isinstance(d, bool) else L(2.0), lift=0)
    return call(f, ax, draw(s_arg_scalar(st.just(d))))


WORDS = ['abcde', 'Hello World', 'a', '', ' ', 'aaa', 'abcabc', ' a  b ', 'a b', '  lead', 'trail  ', 'a   b   c', 'x*y', 'a?c', 'AbC',
         'été', 'TRUE', '12345', 'a~b', 'tab']
NEEDLES = ['a', 'A', 'b', 'bc', 'aa', '', 'z', 'o', 'O W', ' ', '?', '*', 'a*', 'a?c', '~*', '~?', 'b*e', '?b', 'c', 'abcabc']


@st.composite
def _text(draw, tier='quick'):
    f = draw(st.sampled_from(['LEN', 'LEFT', 'RIGHT', 'MID', 'UPPER', 'LOWER', 'TRIM', 'CONCAT', 'CONCATENATE', 'FIND', 'SEARCH',
                              'REPLACE', 'SUBSTITUTE', 'TEXTJOIN', 'VALUE', 'TRIM', 'SUBSTITUTE', 'SEARCH']))
    txt = st.one_of([st.sampled_from(WORDS)] * 6 + [S_NUM, S_NUMTEXT, S_BOOL, S_ERR])
    cnt = st.one_of([st.integers(-1, 8).map(float)] * 5 + [st.sampled_from([1.9, 2.5, 0.5]), st.sampled_from(['2', '1.5', 'x', '']), S_ERR])
    A = s_arg_scalar
    if f in ('LEN', 'UPPER', 'LOWER', 'TRIM'):
        t = txt
        if f == 'TRIM':
            t = st.one_of(txt, st.text(alphabet='ab  ', max_size=8), st.text(alphabet='ab \u00a0', max_size=6),
                          st.sampled_from(['\u00a0a', 'a\u00a0', 'a\u00a0 b', ' \u00a0 ']))
        if draw(st.integers(0, 5)) == 0:
            rows = draw(s_rows(st.one_of(t, st.just(BLANK)), 2, 2))
            return call(f, Rf(rows), lift=0)
        return call(f, draw(A(t)))
    if f in ('LEFT', 'RIGHT'):
        if draw(st.integers(0, 3)) == 0:
            return call(f, draw(A(txt)))
        return call(f, draw(A(txt)), draw(A(cnt)))
    if f == 'MID':
        return call(f, draw(A(txt)), draw(A(cnt)), draw(A(cnt)))
    if f == 'REPLACE':
        return call(f, draw(A(txt)), draw(A(cnt)), draw(A(cnt)), draw(A(st.one_of(st.sampled_from(['', 'X', 'xyz']), S_NUM, S_ERR))))
    if f in ('FIND', 'SEARCH'):
        needle = st.one_of([st.sampled_from(NEEDLES)] * 5 + [st.text(alphabet='ab?*~c', max_size=4), S_NUM, S_ERR])
        if draw(st.integers(0, 2)) == 0:
            return call(f, draw(A(needle)), draw(A(txt)))
        return call(f, draw(A(needle)), draw(A(txt)), draw(A(cnt)))
    if f == 'SUBSTITUTE':
        old = st.one_of([st.sampled_from(['a', 'aa', '', 'b', 'bc', 'A', ' ', 'z', 'abc'])] * 5 + [S_NUM, S_ERR])
        new = st.one_of(st.sampled_from(['', 'X', 'aa', 'b']), S_NUM)
        base = [draw(A(txt)), draw(A(old)), draw(A(new))]
        if draw(st.integers(0, 1)):
            return call(f, *base)
        inst = st.one_of([st.integers(0, 4).map(float)] * 4 + [st.sampled_from([1.9, -1.0, 2.5]), st.sampled_from(['2', 'x']), S_ERR])
        return call(f, *base, draw(A(inst)))
    if f == 'VALUE':
        t = st.one_of(S_NUMTEXT, S_NUMTEXT, S_NUM, S_TEXT, S_BOOL, S_ERR, st.sampled_from(TRAPS),
                      st.sampled_from(['1,000', '5%', '1,234.5', ' 12 % ', '1,234,567', '-1,000', '2.5%', 'abc', '', ' ', '1e3', '1E-2', '.5',
                                       '5.', '+7', '-0', '007', '1e400']),
                      S_NUM.map(lambda x: repr(x)), S_NUM.map(lambda x: ' %s ' % repr(x)))
        if draw(st.integers(0, 6)) == 0:
            rows = draw(s_rows(st.one_of(t, st.just(BLANK)), 2, 2))
            return call(f, Rf(rows), lift=0)
        return call(f, draw(A(t)))
    item = st.one_of([st.sampled_from(['a', 'b', '', 'x y', 'A'])] * 4 + [S_NUM, S_BOOL, S_NUMTEXT] + [S_ERR] * draw(st.integers(0, 1)))
    if f == 'CONCATENATE':
        return call(f, *[draw(A(item)) for _ in range(draw(st.integers(1, 4)))])
    args = []
    for _ in range(draw(st.integers(1, 4))):
        t = draw(st.sampled_from(['l', 'l', 'r', 'r1', 'a']))
        cell = st.one_of(item, item, st.just(BLANK))
        if t == 'l':
            args.append(L(draw(item)))
        elif t == 'r':
            args.append(Rf(draw(s_rows(cell, 2, 3))))
        elif t == 'r1':
            args.append(Rf([[draw(cell)]]))
        else:
            args.append(Ar(draw(s_rows(item, 2, 2))))
    if f == 'CONCAT':
        return call(f, *args)
    delim = draw(A(st.one_of(st.sampled_from([',', '', ', ', '-']), st.sampled_from([',', 1.0]))))
    ig = draw(st.one_of(S_BOOL.map(L), S_BOOL.map(L), st.sampled_from([0.0, 1.0]).map(L), S_BOOL.map(lambda v: Rf([[v]])), S_ERR.map(L)))
    return call('TEXTJOIN', delim, ig, *args)


STRATEGIES = {'logic': _logic, 'info': _info, 'agg': _agg, 'math': _math, 'round': _round, 'text': _text}


# ---------------------------------------------------------------------------
# enumerated boundary tables
# ---------------------------------------------------------------------------
def _both(v):
    """typed and through a one-cell reference"""
    return [L(v), Rf([[v]])]


def _grid(tier):
    q = tier == 'quick'
    # -- ROUND family: halves, exact decimals, binary-exact values x digits x sign
    for f in ('ROUND', 'ROUNDUP', 'ROUNDDOWN', 'TRUNC'):
        for xi, x in enumerate(ROUND_X):
            for sg in (1, -1):
                if x == 0 and sg < 0 or (q and sg < 0 and xi % 3):
                    continue
                for d in ((-1, 0, 1, 2, 3) if q else (-2, -1, 0, 1, 2, 3, 4)):
                    yield call(f, L(sg * x), L(float(d)))
        yield call(f, Rf([[1.15]]), Rf([[2.0]]))
        yield call(f, Rf([[BLANK]]), L(2.0))
        yield call(f, L(2.5), Rf([[BLANK]]))
    yield call('TRUNC', L(-2.7))
    yield call('TRUNC', L(2.7))
    # -- sign grids
    sg = [0.0, 2.0, -2.0, 2.5, -2.5, 7.0, -7.0, 0.5, -0.5, 3.0, -3.0, 1.0, -1.0, 0.1, 1.15, 0.05, 10.0]
    if q:
        sg = sg[:9] + [1.0, -3.0, 0.1, 1.15]
    for f in ('MOD', 'CEILING', 'FLOOR', 'POWER', 'ATAN2', 'LOG'):
        for a in sg:
            for b in sg:
                yield call(f, L(a), L(b))
    # -- unary maths over every value kind, typed and referenced
    pool = SCALARS + TRAPS + [709.0, 710.0, -1e200, 1e200, math.pi, 1e6]
    for f in UNARY:
        for v in pool:
            for a in _both(v):
                yield call(f, a)
        yield call(f, Rf([[BLANK]]))
    yield call('PI')
    # -- IS...
    for f in INFO_FUNCS:
        for v in SCALARS + TRAPS + [2.0 ** 52 + 1, 2.5, -3.5, 4.0, '2', '3', '2.5']:
            for a in _both(v):
                yield call(f, a)
        yield call(f, Rf([[BLANK]]))
    # -- logical
    conds = [True, False, 0.0, 1.0, -2.5, 'TRUE', 'FALSE', 'true', 'abc', '', Err('#N/A'), Err('#DIV/0!')]
    vals = [1.0, 'x', False, Err('#REF!')]
    for c in conds:
        for ca in _both(c) + ([Rf([[BLANK]])] if c is True else []):
            yield call('NOT', ca)
            for x in vals:
                yield call('IF', ca, L(x))
                yield call('IF', ca, OM, L(x))
                yield call('IF', ca, L(x), OM)
                for y in vals:
                    yield call('IF', ca, L(x), L(y))
                    yield call('IFS', ca, L(x), L(True), L(y))
            yield call('IF', ca, Rf([[BLANK]]), Rf([[BLANK]]))
    for f in ('AND', 'OR', 'XOR'):
        for a in conds:
            for b in conds:
                yield call(f, L(a), L(b))
                yield call(f, L(a), Rf([[b]]))
                yield call(f, Rf([[a], [b]]))
            yield call(f, L(a))
            yield call(f, Rf([[a]]))
        yield call(f, Rf([[BLANK]]))
        yield call(f, Rf([['abc', BLANK]]), L(True))
        yield call(f, Ar([[True, 'abc', 0.0]]))
    for f in ('IFERROR', 'IFNA'):
        for v in SCALARS:
            for a in _both(v):
                yield call(f, a, L('alt'))
        yield call(f, Rf([[BLANK]]), L('alt'))
        yield call(f, L(Err('#N/A')), Rf([[BLANK]]))
        yield call(f, L(Err('#N/A')), L(Err('#DIV/0!')))
    for e in [1.0, 2.0, 'a', 'A', True, '1', Err('#N/A')]:
        for k in [1.0, 'a', 'A', True, False, '1', 2.0]:
            yield call('SWITCH', L(e), L(k), L('hit'), L('default'))
            yield call('SWITCH', L(e), L(k), L('hit'))
            yield call('SWITCH', L(e), L('zz'), L('no'), L(k), L('hit2'), L('default'))
            # error values in positions that are not selected (default, a later result) do not leak; a selected one is returned
            for err in (Err('#N/A'), Err('#DIV/0!')):
                yield call('SWITCH', L(e), L(k), L('hit'), L(err))
                yield call('SWITCH', L(e), L(k), L('hit'), L('zz'), L(err), L('default'))
                yield call('SWITCH', L(e), L(k), L(err), L('default'))
                yield call('SWITCH', L(e), L(k), L('hit'), Rf([[err]]))
    # -- aggregations: one unusual item next to plain numbers, typed vs referenced vs array constant
    items = SCALARS + TRAPS
    if q:
        items = NUMS[:4] + [2.5, 1.15] + NUMTEXT[:3] + TEXT[:6] + [True, False] + ERRS[:1] + ERRS[-2:] + TRAPS[:3]
    for f in AGG_FUNCS:
        for v in items:
            if f in F.A_VARIANTS and isinstance(v, str):
                continue
            yield call(f, L(v), L(2.0), L(5.0), perm=[2, 0, 1])
            yield call(f, L(v))
            if not (isinstance(v, str) and (X.is_numtext(v) or X._pytrap(v))):
                yield call(f, Rf([[v], [2.0], [5.0]]), perm=[0])
                yield call(f, Rf([[v]]), L(2.0), L(5.0), perm=[1, 2, 0])
                yield call(f, Rf([[v]]))
                yield call(f, Ar([[v, 2.0, 5.0]]))
        yield call(f, Rf([[BLANK]]))
        yield call(f, Rf([[BLANK, 2.0, 5.0]]))
        yield call(f, Rf([[BLANK, 'abc', True]]))
        yield call(f, L(2.0))
        yield call(f, L('3'), L(True), L(2.0), L('x'), perm=[3, 2, 1, 0])
        yield call(f, L(''), L(1.0))
        yield call(f, L(1e200), L(1e200), L(-1e200))
        yield call(f, L(1e300), L(1e300))
        yield call(f, Rf([[1.0, 2.0], [3.0, 4.0]]), L(10.0), Ar([[5.0], [6.0]]), perm=[2, 1, 0])
        yield call(f, Rf([[0.1, 0.2, 0.3]]), perm=[0])
    for rows in ([[1.0, BLANK, '']], [[BLANK]], [['']], [[' ', 0.0, False]], [[Err('#N/A'), BLANK]], [[1.0, 2.0], [BLANK, '']]):
        yield call('COUNTBLANK', Rf(rows))
    data = [[3.0, 1.0, 'x'], [True, 5.0, BLANK], [5.0, -2.0, 0.5]]
    for f in ('LARGE', 'SMALL'):
        for k in range(-1, 9):
            yield call(f, Rf(data), L(float(k)))
            yield call(f, Ar([[3.0, 1.0, 5.0, 5.0]]), L(float(k)))
        yield call(f, Rf([[BLANK, 'x']]), L(1.0))
        yield call(f, Rf([[1.0, Err('#DIV/0!')]]), L(1.0))
        yield call(f, Rf(data), L(Err('#N/A')))
        yield call(f, Rf(data), Rf([[BLANK]]))
    sp = [[1.0, 2.0], [3.0, 4.0]]
    yield call('SUMPRODUCT', Rf(sp), Rf(sp), perm=[1, 0])
    yield call('SUMPRODUCT', Rf(sp))
    yield call('SUMPRODUCT', Rf(sp), Rf([[1.0, 1.0, 1.0, 1.0]]), perm=[1, 0])
    yield call('SUMPRODUCT', Rf(sp), Rf([[1.0], [1.0], [1.0], [1.0]]), perm=[1, 0])
    yield call('SUMPRODUCT', Rf(sp), Rf([[1.0, 1.0], [1.0, 1.0], [1.0, 1.0]]), perm=[1, 0])
    yield call('SUMPRODUCT', Rf([[1.0, 2.0]]), Rf([[1.0], [2.0]]), perm=[1, 0])
    yield call('SUMPRODUCT', Rf([[1.0, 'x'], [True, BLANK]]), Rf(sp), perm=[1, 0])
    yield call('SUMPRODUCT', Rf([[1.0, Err('#N/A')], [3.0, 4.0]]), Rf(sp), perm=[1, 0])
    yield call('SUMPRODUCT', Ar(sp), Rf(sp), Ar([[0.5, 0.5], [2.0, 2.0]]), perm=[2, 0, 1])
    # -- text: positions -1 .. len+2
    for s in ('abcde', 'a', '', 12345.0, True, 1.5):
        for a in _both(s):
            for n in range(-1, 8):
                yield call('LEFT', a, L(float(n)))
                yield call('RIGHT', a, L(float(n)))
                for m in ((-1, 0, 2, 6) if q else (-1, 0, 1, 2, 6)):
                    yield call('MID', a, L(float(n)), L(float(m)))
                    yield call('REPLACE', a, L(float(n)), L(float(m)), L('XY'))
            yield call('LEFT', a)
            yield call('RIGHT', a)
            for n in (1.9, 2.5, '2', '1.5', 'x', '', Err('#N/A'), BLANK):
                na = L(n) if not isinstance(n, Blank) else Rf([[BLANK]])
                yield call('LEFT', a, na)
                yield call('RIGHT', a, na)
                yield call('MID', a, na, L(2.0))
                yield call('MID', a, L(2.0), na)
                yield call('REPLACE', a, na, L(1.0), L('Z'))
    words = WORDS + [1.5, 12.0, True, Err('#NAME?'), '\u00a0a', 'a\u00a0', 'a \u00a0 b']
    for wi, w in enumerate(words):
        lit_ok = not (isinstance(w, str) and '\u00a0' in w)
        for a in (_both(w) if lit_ok else [Rf([[w]])]):
            for f in ('LEN', 'UPPER', 'LOWER', 'TRIM', 'VALUE'):
                yield call(f, a)
            if q and (a[0] == 'r') == (wi % 2 == 0) and lit_ok:
                continue  # quick: each word either typed or referenced in the needle tables
            for nd in (NEEDLES[:5] + NEEDLES[10:15] if q else NEEDLES):
                for f in ('FIND', 'SEARCH'):
                    yield call(f, L(nd), a)
                    for s0 in ((0, 2) if q else (0, 1, 2, 4, 7, 12)):
                        yield call(f, L(nd), a, L(float(s0)))
            for old in (('a', 'aa', '', 'A', ' ') if q else ('a', 'aa', '', 'b', 'A', ' ', 'abc')):
                yield call('SUBSTITUTE', a, L(old), L('X'))
                for k in ((0, 1, 2, 5) if q else (0, 1, 2, 3, 5, 1.9)):
                    yield call('SUBSTITUTE', a, L(old), L('X'), L(float(k)))
    for f in ('LEN', 'UPPER', 'LOWER', 'TRIM', 'VALUE'):
        yield call(f, Rf([[BLANK]]))
    for t in ['1,000', '5%', '1,234.5', ' 12 % ', '1,234,567', '-1,000', '2.5%', '1e3', '1E-2', '.5', '5.', '+7', '-0', '007', '1e400',
              ' 3 ', '3', '-1.5', 'abc', '', ' ', 'TRUE'] + TRAPS:
        for a in _both(t):
            yield call('VALUE', a)
    for v in [1.5, 0.0, -2.0, True, False, Err('#NUM!')]:
        for a in _both(v):
            yield call('VALUE', a)
    for f in ('CONCAT', 'CONCATENATE'):
        yield call(f, L('a'), L(1.5), L(True), L(''))
        yield call(f, L('a'), L(Err('#N/A')), L('b'))
        yield call(f, Rf([[BLANK]]), L('x'))
        yield call(f, L(1234567.0), L(0.5), L(-2.0))
    yield call('CONCAT', Rf([[1.0, 'a'], [BLANK, True]]), L('x'), L(1.5))
    yield call('CONCAT', Ar([['a', 'b'], ['c', 'd']]), Rf([['e'], ['f']]))
    yield call('CONCAT', Rf([['a', Err('#REF!')]]))
    for ig in (True, False, 1.0, 0.0):
        yield call('TEXTJOIN', L(','), L(ig), L('a'), L(''), L('b'))
        yield call('TEXTJOIN', L(','), L(ig), Rf([['a', BLANK], ['', 'b']]))
        yield call('TEXTJOIN', L(','), L(ig), Rf([['a', BLANK, 'b']]))
        yield call('TEXTJOIN', L(''), L(ig), L('a'), L(1.5), L(True))
        yield call('TEXTJOIN', L(', '), L(ig), Ar([['a', 'b'], ['c', '']]), L('z'))
        yield call('TEXTJOIN', Rf([[BLANK]]), L(ig), L('a'), L('b'))
        yield call('TEXTJOIN', L(1.0), L(ig), L('a'), L('b'))
        yield call('TEXTJOIN', L(','), L(ig), L('a'), L(Err('#N/A')))
        yield call('TEXTJOIN', L(','), Rf([[ig]]), Rf([['', BLANK]]))


# functions with an optional last argument -> number of arguments when it is absent
OPTIONAL = {'IF': 2, 'LEFT': 1, 'RIGHT': 1, 'FIND': 2, 'SEARCH': 2, 'SUBSTITUTE': 3, 'TRUNC': 1, 'LOG': 1}
ALL_FUNCS = sorted(F.FAMILY)
FLOORS = {'f:' + f: ('count', {'quick': 20, 'thorough': 200}) for f in ALL_FUNCS if f != 'PI'}
FLOORS.update({k: ('count', {'quick': 300, 'thorough': 3000}) for k in (
    'typed', 'reference', 'array-constant', 'val:blank', 'val:bool', 'val:text', 'val:numtext', 'val:err',
    'val:decimal-not-binary', 'val:zero', 'permuted', 'shape:matrix', 'shape:vector')})
FLOORS.update({k: ('count', {'quick': 60, 'thorough': 600}) for k in (
    'omitted', 'lifted', 'outside-asserted-domain', 'optional:absent', 'optional:present', 'half:binary-exact', 'half:decimal-only',
    'exact:decimal-only', 'expects:error')})


def parts(tier, seed):
    q = tier == 'quick'
    n = 600 if q else 25000
    return [
        ('enum', 'grid', _grid(tier), 300, False),
        ('enum', 'computed-logical-arrays', meta_cases(), 60, False),
        ('hyp', 'logic', n),
        ('hyp', 'info', n // 2),
        ('hyp', 'agg', n * 2),
        ('hyp', 'math', n),
        ('hyp', 'round', n),
        ('hyp', 'text', n * 2),
    ]
