"""C17 - copies and serialised models are equivalent and independent."""
import copy
from hypothesis import strategies as st

from .. import sut
from ..runner import R
from ..xlref import wb as W
from ..xlref import core as X
from ..gen import workbooks as G
from ..gen import history as H
from ..props import c08

ID = 'C17'
RULE = ('Histories over {original, deepcopy, dill round trip} of one model (up to three live objects): calculate with random '
        'overrides, editing a constant cell of one object (from_dict of that cell on the live model), compile+call (the compiled function itself is also deep-copied / dilled and both are called), finish() again, '
        'to_dict(), write(), in any interleaving, 2-10 steps; every observed result must equal the independent evaluation and the '
        'same call on a FRESH model, whatever was done to the sibling objects before. Second part: formula-level compiled functions '
        '(Parser().ast(f)[1].compile()) copied with deepcopy/dill and called interleaved with different arguments, each result '
        'compared with a fresh compile. Third part: circular models (finish(circular=True)) original vs copies, compared with a fresh '
        'model. Fourth part: array formulas whose constant-array value is folded into the cell function, entered over a larger '
        'range (padding with #N/A) with dependents on the padded cells: original vs deepcopy vs dill vs copies of copies. Non-trivial = at least two objects are used with different inputs before the observed call; distinct by history.')
RULE += (' ARRAY-STATE: collapse value x padding value (falsy and truthy, 10 each, thinned) of the array subclass x deepcopy / dill / chain, observed through collapse((1,1)) and reshape((3,3)).')
ASSUMPTIONS = ['a copy carries no cells/books (the repo\'s __getstate__ drops them): re-finishing a copy is only required not to disturb the other objects',
               'circular models are compared with a fresh model only (their exact marking is C10)']
WATCHDOG_S = 240
FLOORS = {'two-objects': ('frac', 0.12), 'op:copy:dill': ('count', {'quick': 20, 'thorough': 300})}


def check_history(case):
    spec = case['spec']
    with G.workdir() as d:
        r = H.Runner(spec, case['path'], d)
        r.observe_export = True
        r.run(case['ops'], 'shared')
    used = {op[1] for op in case['ops'] if op[0] in ('calc', 'call')}
    labels = sorted(set(r.labels)) + ['path:' + case['path']] + (['two-objects'] if len(used) >= 2 else [])
    return R(r.fails, nt=len(used) >= 2, n=max(1, r.observed), labels=labels)


def check_fcopy(case):
    """Formula-level compiled function and its copies, called interleaved."""
    tree = case['tree']
    text = '=' + c08.f_render(tree)
    f0 = sut.compile_formula(text)
    objs = {'orig': f0}
    for how in case['copies']:
        objs[how] = H.do_copy(f0, how)
    names = list(f0.inputs)
    fails = []
    for who, env in case['calls']:
        if who not in objs:
            continue
        f = objs[who]
        if list(f.inputs) != names:
            fails.append(('fcopy|inputs-differ|%s' % who, '%s: inputs %s vs %s' % (text, list(f.inputs), names)))
            continue
        if any(n not in env for n in names):
            continue
        args = [sut.rng(n, [[W.const(env[n])]]) for n in names]
        got = sut.one(f(*args))
        fresh = sut.one(sut.compile_formula(text)(*[sut.rng(n, [[W.const(env[n])]]) for n in names]))
        if not X.same(got, fresh, 1e-12):
            fails.append(('fcopy|differs-from-fresh|%s' % who, '%s on %s with %r -> %r, fresh compile %r' % (text, who, {n: env[n] for n in names}, got, fresh)))
    whos = {w for w, _ in case['calls']}
    return R(fails, nt=len(whos) >= 2 and len(names) >= 1, n=len(case['calls']), labels=['fcopy'] + ['fcopy:' + h for h in case['copies']])


CIRC = [
    {"'[b.xlsx]S'!A1": "='[b.xlsx]S'!B1+1", "'[b.xlsx]S'!B1": "='[b.xlsx]S'!A1+1", "'[b.xlsx]S'!C1": 5.0, "'[b.xlsx]S'!D1": "='[b.xlsx]S'!C1*2", "'[b.xlsx]S'!E1": "=IFERROR('[b.xlsx]S'!A1,7)"},
    {"'[b.xlsx]S'!A1": "=IF('[b.xlsx]S'!C1>3,1,'[b.xlsx]S'!B1)", "'[b.xlsx]S'!B1": "='[b.xlsx]S'!A1+1", "'[b.xlsx]S'!C1": 5.0, "'[b.xlsx]S'!D1": "='[b.xlsx]S'!B1*2"},
    {"'[b.xlsx]S'!A1": "='[b.xlsx]S'!A1+1", "'[b.xlsx]S'!B1": "=SUM('[b.xlsx]S'!C1:C2)", "'[b.xlsx]S'!C1": 1.0, "'[b.xlsx]S'!C2": "='[b.xlsx]S'!B1"},
]


CIRC.append({"'[b.xlsx]S'!C9": 5.0, "'[b.xlsx]S'!C10": "='[b.xlsx]S'!D9+1", "'[b.xlsx]S'!D9": "=IF('[b.xlsx]S'!C9>3,5,'[b.xlsx]S'!C10)",
             "'[b.xlsx]S'!E10": "='[b.xlsx]S'!C10*2", "'[b.xlsx]S'!C1": 1.0, "'[b.xlsx]S'!C2": "='[b.xlsx]S'!C1+'[b.xlsx]S'!C9"})
CIRC.append({"'[b.xlsx]S'!B10": "=IFERROR('[b.xlsx]S'!A9,'[b.xlsx]S'!B9)", "'[b.xlsx]S'!A9": 2.0, "'[b.xlsx]S'!B9": "='[b.xlsx]S'!B10+'[b.xlsx]S'!A10",
             "'[b.xlsx]S'!A10": 3.0, "'[b.xlsx]S'!C1": 1.0, "'[b.xlsx]S'!C2": "='[b.xlsx]S'!B10*2"})


def build_circ(d, solve=True):
    m = sut.ExcelModel().from_dict(dict(d), assemble=False)
    return m.finish(complete=False, circular=True) if solve else m


def check_circ_late(case):
    """The model is copied BEFORE its circular references are solved; finish(circular=True) is then run on the original and on
    each copy: all of them equal a model that was built and solved in one go (added after seed c17-a-r4)."""
    d = CIRC[case['i'] % len(CIRC)]
    base = build_circ(d, solve=False)
    objs = {'original': base}
    for how in case['copies']:
        objs[how + str(len(objs))] = H.do_copy(base, how)
    fails, n = [], 0
    for name in (sorted(objs) if case.get('order') else sorted(objs, reverse=True)):
        m = objs[name]
        try:
            m.finish(complete=False, circular=True)
        except sut.Watchdog:
            raise
        except Exception as ex:
            fails.append(('circular-late|finish-raised:%s|%s' % (type(ex).__name__, name.rstrip('0123456789')), repr(ex)[:200]))
            continue
        for inputs in ({}, {"'[b.xlsx]S'!C1": 4.0}):
            a, _ = G.flatten(m.calculate(inputs=dict(inputs)))
            b, _ = G.flatten(build_circ(d).calculate(inputs=dict(inputs)))
            n += 1
            for k in sorted(set(a) | set(b), key=repr):
                if not X.same(a.get(k, sut.BLANK), b.get(k, sut.BLANK), 1e-12):
                    fails.append(('circular-late|differs-from-fresh|%s' % name.rstrip('0123456789'), '%s: %r vs %r in a model solved in one go' % (k, a.get(k), b.get(k))))
                    break
    seen, out = set(), []
    for s_, d_ in fails:
        if s_ not in seen:
            seen.add(s_)
            out.append((s_, d_))
    return R(out, nt=True, n=max(n, 1), labels=['circular-late'])


def check_circ(case):
    d = CIRC[case['i'] % len(CIRC)]
    objs = {'A': build_circ(d)}
    fails = []
    n = 0
    for op in case['ops']:
        if op[0] == 'copy':
            if op[1] in objs:
                objs[op[2]] = H.do_copy(objs[op[1]], op[3])
            continue
        if op[1] not in objs:
            continue
        inputs = {k: v for k, v in op[2].items() if k in d and not str(d[k]).startswith('=')}
        sol = objs[op[1]].calculate(inputs=dict(inputs))
        fsol = build_circ(d).calculate(inputs=dict(inputs))
        a, _ = G.flatten(sol)
        b, _ = G.flatten(fsol)
        n += 1
        for k in sorted(set(a) | set(b), key=repr):
            if not X.same(a.get(k, sut.BLANK), b.get(k, sut.BLANK), 1e-12):
                fails.append(('circular|differs-from-fresh|%s' % op[1], '%s: %r vs fresh %r after %s' % (k, a.get(k), b.get(k), case['ops'])))
                break
    used = {op[1] for op in case['ops'] if op[0] == 'calc'}
    return R(fails, nt=len(used) >= 2, n=max(n, 1), labels=['circular'])


ARRAY_FORMULAS = ['={1,2;3,4}', '=ISERROR({1,#DIV/0!;3,4})', '={1,2;3,4}+1', '={"a","b"}&"x"', '=-{1;2}', '=IF({1,0;0,1},"y","n")',
                  '={1,2,3}*{1;2}', '=ISNA({#N/A,1})']


def check_arraypad(case):
    """An array formula whose value is folded into the cell function at compile time (constant arrays), entered over a
    range larger / smaller than the value, with dependents that read the padded cells: original, deepcopy, dill copy
    and copies of copies must all equal a fresh model, cell by cell, also after the other objects were used."""
    Q = "'[b.xlsx]S'!"
    f = ARRAY_FORMULAS[case['f'] % len(ARRAY_FORMULAS)]
    h, w = case['shape']
    d = {Q + 'A1:%s%d' % (G.col(w), h): f,
         Q + 'F1': '=ISNA(%s%s%d)' % (Q, G.col(w), h), Q + 'F2': '=IFERROR(%s%s%d,"pad")' % (Q, G.col(w), h),
         Q + 'F3': '=IF(ISERROR(%sA1),1,2)' % Q, Q + 'G1': 5.0, Q + 'F4': '=%sG1+COUNT(%sA1:%s%d)' % (Q, Q, G.col(w), h)}
    build = lambda: sut.ExcelModel().from_dict(dict(d))
    objs = {'A': build()}
    fails, n = [], 0
    for op in case['ops']:
        if op[0] == 'copy':
            if op[1] in objs:
                objs[op[2]] = H.do_copy(objs[op[1]], op[3])
            continue
        if op[1] not in objs:
            continue
        inputs = {k: v for k, v in [(Q.upper().replace('B.XLSX', 'b.xlsx') + 'G1', op[2])]}
        m = objs[op[1]]
        nid = {str(k).upper(): k for k in m.dsp.data_nodes if isinstance(k, str)}.get((Q + 'G1').upper())
        sol = m.calculate(inputs={nid: op[2]})
        fm = build()
        fid = {str(k).upper(): k for k in fm.dsp.data_nodes if isinstance(k, str)}.get((Q + 'G1').upper())
        fsol = fm.calculate(inputs={fid: op[2]})
        a, _ = G.flatten(sol)
        b, _ = G.flatten(fsol)
        n += 1
        for k in sorted(set(a) | set(b), key=repr):
            if not X.same(a.get(k, sut.BLANK), b.get(k, sut.BLANK), 1e-12):
                kind = {'A': 'original', 'B': op_kind(case, 'B'), 'C': op_kind(case, 'C')}.get(op[1], '?')
                fails.append(('arraypad|differs-from-fresh|%s' % kind, '%s over A1:%s%d: %s is %r on %s, %r on a fresh model' % (
                    f, G.col(w), h, k, a.get(k), op[1], b.get(k))))
                break
    used = {op[1] for op in case['ops'] if op[0] == 'calc'}
    return R(fails, nt=len(used) >= 2, n=max(n, 1), labels=['arraypad', 'arraypad:%dx%d' % (h, w)])


ARRAY_STATE_VALUES = [0.0, 0, '', False, 5.0, 'x', True, ['E', '#VALUE!'], ['E', '#N/A'], None]


def check_array_state(case):
    """The array subclass of results carries two instance attributes (the value a non-1x1 array collapses to when it is
    fitted into one cell, and the padding value); a deep copy, a dill copy and copies of copies behave like the original
    when they are collapsed or padded afterwards, whatever those values are (falsy ones included)."""
    dec = lambda v: sut.to_repo(sut.Err(v[1])) if isinstance(v, list) else v
    cv, dv = dec(ARRAY_STATE_VALUES[case['cv']]), dec(ARRAY_STATE_VALUES[case['dv']])
    a = sut.get_functions()['ARRAY']([1.0, 2.0], [3.0, 4.0])
    if cv is not None:
        a._collapse_value = cv
    if dv is not None:
        a._default = dv
    show = lambda x: repr(sut.matrix(x))
    exp = (show(a.collapse((1, 1))), show(a.reshape((3, 3))))
    fails = []
    obj = a
    for how in case['chain']:
        obj = H.do_copy(obj, how)
        got = (show(obj.collapse((1, 1))), show(obj.reshape((3, 3))))
        if got != exp:
            fails.append(('array-state|%s|%s' % (how, 'collapse' if got[0] != exp[0] else 'padding'),
                          'array with collapse value %r and padding %r: after %s collapse((1,1)) / reshape((3,3)) give %s, the original %s' % (
                              cv, dv, '+'.join(case['chain']), got, exp)))
            break
    return R(fails, nt=(cv is not None or dv is not None), labels=['array-state'])


def op_kind(case, name):
    for op in case['ops']:
        if op[0] == 'copy' and op[2] == name:
            return op[3]
    return 'copy'


def check_case(case):
    k = case['k']
    if k == 'sparse':
        from . import c08
        return c08.check_sparse(case)
    if k == 'arraypad':
        return check_arraypad(case)
    if k == 'array-state':
        return check_array_state(case)
    if k == 'history':
        return check_history(case)
    if k == 'fcopy':
        return check_fcopy(case)
    if k == 'circ':
        return check_circ(case)
    if k == 'circ-late':
        return check_circ_late(case)
    raise ValueError(k)


def _histories(tier):
    return H.histories(tier, max_ops=10, objects=('A', 'B', 'C'), copies=('deepcopy', 'dill', 'deepcopy'), fcopies=True, end_with_calc=True, start_with_copy=True, edits=True, undef_rate=25)


def _fcopies(tier):
    envs = st.lists(c08._FVAL, min_size=9, max_size=9).map(lambda vals: {'%s%d' % (G.col(c), r): v for (r, c), v in zip(c08.CELLS, vals)})
    who = st.sampled_from(['orig', 'deepcopy', 'dill'])
    return st.builds(lambda t, copies, calls: {'k': 'fcopy', 'tree': t, 'copies': copies, 'calls': [list(c) for c in calls]},
                     c08._ftree(), st.sampled_from([['deepcopy'], ['dill'], ['deepcopy', 'dill']]),
                     st.lists(st.tuples(who, envs), min_size=2, max_size=5))


def _circ(tier):
    keys = ["'[b.xlsx]S'!C1", "'[b.xlsx]S'!C2"]
    calc = st.builds(lambda o, k, v: ['calc', o, {k: v}], st.sampled_from(['A', 'B', 'C']), st.sampled_from(keys), st.sampled_from([0.0, 1.0, 4.0, 9.0, -2.0]))
    cp = st.builds(lambda s, d, h: ['copy', s, d, h], st.sampled_from(['A', 'B']), st.sampled_from(['B', 'C']), st.sampled_from(['deepcopy', 'dill']))
    return st.builds(lambda i, ops: {'k': 'circ', 'i': i, 'ops': [['copy', 'A', 'B', 'deepcopy']] + ops}, st.integers(0, 2), st.lists(st.one_of(calc, calc, cp), min_size=2, max_size=7))


def _arraypad(tier):
    calc = st.builds(lambda o, v: ['calc', o, v], st.sampled_from(['A', 'B', 'C']), st.sampled_from([0.0, 1.0, 4.0, -2.0]))
    cp = st.builds(lambda s_, d_, h_: ['copy', s_, d_, h_], st.sampled_from(['A', 'B']), st.sampled_from(['B', 'C']), st.sampled_from(['deepcopy', 'dill', 'deepcopy']))
    return st.builds(lambda f, shape, how, ops: {'k': 'arraypad', 'f': f, 'shape': list(shape), 'ops': [['copy', 'A', 'B', how]] + ops},
                     st.integers(0, len(ARRAY_FORMULAS) - 1), st.sampled_from([(3, 3), (2, 3), (3, 2), (1, 1), (2, 2), (4, 1), (1, 4)]),
                     st.sampled_from(['deepcopy', 'dill']), st.lists(st.one_of(calc, calc, cp), min_size=2, max_size=6))


STRATEGIES = {'histories': _histories, 'fcopies': _fcopies, 'circ': _circ, 'arraypad': _arraypad}


def _sparse_copies():
    """C08's sparse-range shapes with the what-ifs applied to a deepcopy / dill copy (taken before or after a first calculation):
    the copy honours them, the original stays what it was."""
    from . import c08
    return [c for c in c08.sparse_cases() if any(op[0] == 'copy' for op in c['ops'])]


def parts(tier, seed):
    q = tier == 'quick'
    return [('hyp', 'histories', 480 if q else 6000, 8), ('hyp', 'fcopies', 160 if q else 4000, 10), ('hyp', 'circ', 64 if q else 1500, 4),
            ('hyp', 'arraypad', 160 if q else 3000, 10), ('enum', 'sparse-ranges-on-copies', _sparse_copies(), 3, False),
            ('enum', 'array-state', [{'k': 'array-state', 'cv': i, 'dv': j, 'chain': ch} for i in range(len(ARRAY_STATE_VALUES))
                                     for j in range(len(ARRAY_STATE_VALUES)) if (i + j) % 3 == 0 or i == 9 or j == 9
                                     for ch in (['deepcopy'], ['dill'], ['dill', 'deepcopy', 'dill'])], 20, False),
            ('enum', 'copies-before-solve-circular', [{'k': 'circ-late', 'i': i, 'copies': cp, 'order': o} for i in range(5)
                                                      for cp in (['deepcopy'], ['dill'], ['deepcopy', 'dill']) for o in (0, 1)], 2, False)]
