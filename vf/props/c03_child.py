"""Child process of the C03 hash-seed part: evaluates a batch of specs through
both load paths and writes the flattened solutions as JSON (repr of values)."""
import os
import sys
import json


def main(bpath, out, wdir):
    from .. import sut  # noqa
    from ..gen import workbooks as G
    from . import c03
    with open(bpath) as f:
        batch = json.load(f)
    res = []
    for i, spec in enumerate(batch):
        row = {}
        flat, conf = c03.run_dict(spec, 'asis')
        row['dict'] = {'%s|%d|%d' % k: repr(v) for k, v in flat.items()}
        d = os.path.join(wdir, 's%d' % i)
        os.makedirs(d, exist_ok=True)
        flat, conf = c03.run_files(spec, d, list(range(len(spec['books']))))
        row['file'] = {'%s|%d|%d' % k: repr(v) for k, v in flat.items()}
        res.append(row)
    with open(out, 'w') as f:
        json.dump(res, f)


if __name__ == '__main__':
    main(*sys.argv[1:4])
