"""C06 - reference operators follow cell-set semantics, values included."""
import re
import collections
import numpy as np
from hypothesis import strategies as st

from .. import sut
from ..runner import R

ID = 'C06'
RULE = ('E1: every ordered pair of the rectangles of an NxN grid (N=4 quick: 100x100 pairs; N=5 thorough: 225x225) '
        'for the operators & (space), + (:), | (,), - and simplify(), on Ranges objects with values and through '
        'SUM/COUNT formulas compiled with Cell; grid cell (r,c) holds 3^(index) so a sum identifies the multiset of '
        'cells (multiplicity <= 2). E2 (Hypothesis): multi-area operands with overlaps/duplicates, whole-row/column '
        'operands, operands on different sheets, grids holding values of every kind. Oracle: cell sets / multisets '
        'computed on plain Python sets. Non-trivial = operands touch, overlap, contain one another or are equal; '
        'distinct by (operator set, operands).')
ASSUMPTIONS = ['area names are parsed by the harness\' own A1 grammar; the multiset semantics of "," (each cell once per '
               'covering area) and the set semantics of intersection/difference are taken from the property statement']

COLS = 'ABCDEFGHIJKLMNOPQRSTUVWXYZ'
MAXR, MAXC = 1048576, 16384


def cname(c):
    s = ''
    while c:
        c, r = divmod(c - 1, 26)
        s = COLS[r] + s
    return s


def cidx(s):
    v = 0
    for ch in s:
        v = v * 26 + COLS.index(ch) + 1
    return v


def name(r):
    """rect = (c1, r1, c2, r2), with None for whole-row / whole-column sides."""
    c1, r1, c2, r2 = r
    if r1 is None:
        return '%s:%s' % (cname(c1), cname(c2))
    if c1 is None:
        return '%d:%d' % (r1, r2)
    a, b = '%s%d' % (cname(c1), r1), '%s%d' % (cname(c2), r2)
    return a if a == b else a + ':' + b


_re_area = re.compile(r"^(?:(?P<sheet>[^!]+)!)?(?:(?P<c1>[A-Z]+)?(?P<r1>\d+)?)(?::(?P<c2>[A-Z]+)?(?P<r2>\d+)?)?$")


def parse_area(nm):
    """Area name as printed by the repo -> (sheet, c1, r1, c2, r2) with the
    full extent for whole rows/columns."""
    m = _re_area.match(nm)
    if not m:
        raise ValueError('unparsable area name %r' % nm)
    d = m.groupdict()
    c1 = cidx(d['c1']) if d['c1'] else None
    r1 = int(d['r1']) if d['r1'] else None
    if ':' not in nm.split('!')[-1]:
        c2, r2 = c1, r1
    else:
        c2 = cidx(d['c2']) if d['c2'] else None
        r2 = int(d['r2']) if d['r2'] else None
    if c1 is None and c2 is None:
        c1, c2 = 1, MAXC
    if r1 is None and r2 is None:
        r1, r2 = 1, MAXR
    if None in (c1, c2, r1, r2):
        raise ValueError('half-open area name %r' % nm)
    return (d['sheet'] or ''), c1, r1, c2, r2


def area_names(rg):
    return [a['name'] for a in rg.ranges]


def clip(area, N):
    s, c1, r1, c2, r2 = area
    return s, max(c1, 1), max(r1, 1), min(c2, N), min(r2, N)


def cells_of_area(area, N=None):
    s, c1, r1, c2, r2 = clip(area, N) if N else area
    return [(s, c, r) for r in range(r1, r2 + 1) for c in range(c1, c2 + 1)]


def rect_cells(r, sheet='', N=None):
    c1, r1, c2, r2 = r
    if r1 is None:
        r1, r2 = 1, N
    if c1 is None:
        c1, c2 = 1, N
    return [(sheet, c, rr) for rr in range(r1, r2 + 1) for c in range(c1, c2 + 1)]


def relation(a, b):
    A, B = set(rect_cells(a, N=8)), set(rect_cells(b, N=8))
    if A == B:
        return 'equal'
    if A < B:
        return 'inside'
    if A > B:
        return 'contains'
    if A & B:
        return 'overlap'
    (ac1, ar1, ac2, ar2), (bc1, br1, bc2, br2) = [tuple(x if x is not None else (1 if i < 2 else 8) for i, x in enumerate(r)) for r in (a, b)]
    hgap = max(bc1 - ac2, ac1 - bc2)
    vgap = max(br1 - ar2, ar1 - br2)
    if max(hgap, vgap) == 1:
        return 'touch-corner' if hgap == 1 and vgap == 1 else 'touch-edge'
    return 'disjoint'


def gridval(N, r, c):
    return float(3 ** ((r - 1) * N + (c - 1)))


def val_of(r, N, grid=None):
    c1, r1, c2, r2 = r
    return [[(grid[rr - 1][c - 1] if grid else gridval(N, rr, c)) for c in range(c1, c2 + 1)] for rr in range(r1, r2 + 1)]


def mk(r, N, grid=None, sheet=''):
    nm = (sheet + '!' if sheet else '') + name(r)
    return sut.rng(nm, val_of(r, N, grid))


def mk_noval(r, sheet=''):
    return sut.Ranges().push((sheet + '!' if sheet else '') + name(r))


def areas(rg):
    """(sheet, c1, r1, c2, r2) of every area of a Ranges object, read from the
    structured fields of `.ranges` (whole rows/columns start at 0 there)."""
    out = []
    for a in rg.ranges:
        out.append((a.get('sheet_id', '') or '', int(a['n1']) or 1, int(a['r1']) or 1, int(a['n2']), int(a['r2'])))
    return out


def malformed(rg):
    """Areas of a result that are not rectangles (corners out of order) or whose name does not read back to themselves."""
    out = []
    for a in rg.ranges:
        try:
            r1, r2, n1, n2 = int(a['r1']), int(a['r2']), int(a['n1']), int(a['n2'])
        except (TypeError, ValueError):
            out.append(a.get('name'))
            continue
        if (r1 or r2) and (r1 > r2 or n1 > n2):
            out.append(a.get('name'))
            continue
        try:
            b = sut.Ranges().push(a['name']).ranges[0]
            if (int(b['r1']), int(b['r2']), int(b['n1']), int(b['n2'])) != (r1, r2, n1, n2):
                out.append(a.get('name'))
        except Exception:  # noqa
            out.append(a.get('name'))
    return out


def area_multiset(rg, N=None):
    cnt = collections.Counter()
    for a in areas(rg):
        for c in cells_of_area(a, N):
            cnt[c] += 1
    return cnt


def positional(rg, N, grid=None):
    """Check .value of a single-area result against the grid slice."""
    s, c1, r1, c2, r2 = areas(rg)[0]
    exp = [[(grid[r - 1][c - 1] if grid else gridval(N, r, c)) for c in range(c1, c2 + 1)] for r in range(r1, r2 + 1)]
    got = sut.matrix(rg.value)
    return got == exp, got, exp


def check_pair(a, b, N, fails, rel=None):
    """All five operators for one ordered pair of single rectangles (same sheet)."""
    rel = rel or relation(a, b)
    A, B = set(rect_cells(a)), set(rect_cells(b))
    na, nb = name(a), name(b)
    ra, rb = mk(a, N), mk(b, N)

    def bad(op, kind, msg):
        fails.append(('%s|%s|%s' % (op, rel, kind), '%s %s %s: %s' % (na, op, nb, msg)))
    # ---- intersection
    I = ra & rb
    ci = area_multiset(I)
    if set(ci) != (A & B):
        bad('and', 'cells-lost' if (A & B) - set(ci) else 'cells-extra', 'areas %s' % area_names(I))
    elif ci and max(ci.values()) > 1:
        bad('and', 'cells-dup', 'areas %s' % area_names(I))
    elif A & B:
        ok, got, exp = positional(I, N)
        if not ok:
            bad('and', 'value-pos', 'value %r expected %r' % (got, exp))
    else:
        got = sut.matrix(I.value)
        if got != [[sut.Err('#NULL!')]]:
            bad('and', 'null', 'empty intersection has value %r' % got)
    # ---- range operator (bounding rectangle)
    S = ra + rb
    bb = (min(a[0], b[0]), min(a[1], b[1]), max(a[2], b[2]), max(a[3], b[3]))
    cs = area_multiset(S)
    if len(area_names(S)) != 1 or set(cs) != set(rect_cells(bb)) or max(cs.values()) > 1:
        bad('add', 'cells', 'areas %s expected %s' % (area_names(S), name(bb)))
    else:
        got = sut.matrix(S.value)
        for i, r in enumerate(range(bb[1], bb[3] + 1)):
            for j, c in enumerate(range(bb[0], bb[2] + 1)):
                if ('', c, r) in A | B and got[i][j] != gridval(N, r, c):
                    bad('add', 'value-pos', 'cell %s%d holds %r' % (cname(c), r, got[i][j]))
                    break
    # ---- union
    U = ra | rb
    if area_names(U) != [na, nb]:
        bad('or', 'areas', 'areas %s' % area_names(U))
    else:
        got = collections.Counter(x for row in sut.matrix(U.value) for x in row)
        exp = collections.Counter(gridval(N, r, c) for _, c, r in rect_cells(a) + rect_cells(b))
        if got != exp:
            bad('or', 'value-multiset', 'values %r' % sorted(got.elements()))
    # ---- difference
    D = mk(a, N) - mk_noval(b)
    cd = area_multiset(D)
    if set(cd) != (A - B):
        bad('sub', 'cells-lost' if (A - B) - set(cd) else 'cells-extra', 'areas %s' % area_names(D))
    elif cd and max(cd.values()) > 1:
        bad('sub', 'cells-dup', 'areas %s' % area_names(D))
    elif cd:
        got = collections.Counter(x for row in sut.matrix(D.value) for x in row)
        exp = collections.Counter(gridval(N, r, c) for _, c, r in (A - B))
        if got != exp:
            bad('sub', 'value-multiset', 'values %r' % sorted(got.elements()))
    # ---- simplify of the union
    Sm = (mk_noval(a) | mk_noval(b)).simplify()
    csm = area_multiset(Sm)
    if set(csm) != (A | B):
        bad('simplify', 'cells-lost' if (A | B) - set(csm) else 'cells-extra', 'areas %s' % area_names(Sm))
    elif max(csm.values()) > 1:
        bad('simplify', 'cells-dup', 'areas %s' % area_names(Sm))


def feed(cell, N, grid=None, sheet_grids=None):
    """Inputs for a compiled Cell: every input rectangle gets its grid slice."""
    inp = {}
    for k in cell.inputs:
        s, c1, r1, c2, r2 = parse_area(k)
        g = (sheet_grids or {}).get(s, grid)
        inp[k] = [[(g[r - 1][c - 1] if g else gridval(N, r, c)) for c in range(c1, c2 + 1)] for r in range(r1, r2 + 1)]
    return inp


def eval_formula(f, N, grid=None, sheet_grids=None):
    c = sut.Cell('Z99', f).compile()
    dsp = sut.sh.Dispatcher(raises=False)
    c.add(dsp)
    inp = {k: sut.rng(k, v) for k, v in feed(c, N, grid, sheet_grids).items()}
    sol = dsp(inp)
    if c.output not in sol:
        return sut.Foreign('no-output')
    return sut.one(sol[c.output])


def range_text(rects):
    """Text of r1:r2:... .  A single cell followed by ':' and a cell above or
    left of it would be read as one reversed-corner range literal (A3:A1),
    which is outside the asserted grammar: then every operand is
    parenthesised ((B1):(A1)); a parenthesised operand next to a bare one is
    avoided because `(A1):B2` is a listed parser finding (C18)."""
    par = any(p[0] == p[2] and p[1] == p[3] and (r[0] < p[0] or r[1] < p[1]) for p, r in zip(rects, rects[1:]))
    # with three or more operands the tokenizer may regroup the text (A1:A1:B1:A1 is read A1:A1, B1:A1)
    par = par or len(rects) >= 3
    return ':'.join(('(%s)' % name(r)) if par else name(r) for r in rects)


def check_pair_formulas(a, b, N, fails, rel=None):
    rel = rel or relation(a, b)
    A, B = rect_cells(a), rect_cells(b)
    na, nb = name(a), name(b)
    bb = (min(a[0], b[0]), min(a[1], b[1]), max(a[2], b[2]), max(a[3], b[3]))
    tot = lambda cs: float(sum(gridval(N, r, c) for _, c, r in cs))
    inter = [c for c in A if c in set(B)]
    exp = {
        'and': (tot(inter), float(len(inter))) if inter else (sut.Err('#NULL!'),) * 2,
        'add': (tot(rect_cells(bb)), float(len(rect_cells(bb)))),
        'or': (tot(A + B), float(len(A) + len(B))),
    }
    forms = {'and': '%s %s' % (na, nb), 'add': range_text([a, b]), 'or': '(%s,%s)' % (na, nb)}
    for op, ref in forms.items():
        for fi, fname in enumerate(('SUM', 'COUNT')):
            if op == 'and' and not inter and fname == 'COUNT':
                # COUNT ignores error values: COUNT(#NULL!) is 0 in Excel
                e = 0.0
            else:
                e = exp[op][fi]
            f = '=%s(%s)' % (fname, ref)
            g = eval_formula(f, N)
            if g != e:
                fails.append(('formula-%s|%s|%s' % (op, rel, fname), '%s -> %r, expected %r' % (f, g, e)))


def check_row(a, N, with_formulas):
    fails, nt = [], []
    rects = all_rects(N)
    for b in rects:
        rel = relation(a, b)
        check_pair(a, b, N, fails, rel)
        if with_formulas:
            check_pair_formulas(a, b, N, fails, rel)
        if rel not in ('disjoint',):
            nt.append((a, b))
    return R(_dedup(fails), nt=[('pair', N, x, y) for x, y in nt], n=len(rects) * (5 + (6 if with_formulas else 0)),
             labels=['row'])


def _dedup(fails, per_sig=2):
    seen, out = {}, []
    for sig, d in fails:
        seen[sig] = seen.get(sig, 0) + 1
        if seen[sig] <= per_sig:
            out.append((sig, d))
    return out


def all_rects(N):
    return [(c1, r1, c2, r2) for c1 in range(1, N + 1) for c2 in range(c1, N + 1)
            for r1 in range(1, N + 1) for r2 in range(r1, N + 1)]


# ------------------------------------------------------------------ E2
def _kindval(v):
    return sut.Err(v[1]) if isinstance(v, list) and v and v[0] == 'E' else (sut.BLANK if v is None else v)


def check_multi(case):
    """Multi-area operands (lists of rectangles, optional sheets) on an NxN grid of arbitrary values."""
    N = case['N']
    grid = [[_kindval(v) for v in row] for row in case['grid']] if case.get('grid') else None
    sa, sb = case.get('sa', ''), case.get('sb', '')
    fails = []

    def build(areas, sheet, values=True):
        out = None
        for r in areas:
            x = mk(tuple(r), N, grid, sheet) if values else mk_noval(tuple(r), sheet)
            out = x if out is None else (out | x)
        return out
    A = collections.Counter(c for r in case['a'] for c in rect_cells(tuple(r), sa))
    B = collections.Counter(c for r in case['b'] for c in rect_cells(tuple(r), sb))
    tag = 'multi%s' % ('-xsheet' if sa != sb else '')
    gv = lambda c, r: grid[r - 1][c - 1] if grid else gridval(N, r, c)

    def bad(op, kind, msg):
        fails.append(('%s|%s|%s' % (op, tag, kind), '%s %s %s (sheets %r,%r): %s' % (case['a'], op, case['b'], sa, sb, msg)))

    def values_match(rg, op):
        cnt = area_multiset(rg)
        if not cnt:
            return
        got = collections.Counter(repr(x) for row in sut.matrix(rg.value) for x in row)
        exp = collections.Counter()
        for (s, c, r), k in cnt.items():
            exp[repr(gv(c, r))] += k
        if got != exp:
            bad(op, 'value-multiset', 'values %r expected %r' % (sorted(got.elements()), sorted(exp.elements())))
    def snap(x):
        return (area_names(x), sorted(map(str, x.values)), repr(sut.matrix(x.value)))
    # union keeps every area in order, values once per covering area
    ra, rb = build(case['a'], sa), build(case['b'], sb)
    s0 = (snap(ra), snap(rb))

    def unchanged(op):
        # an operator returns a new reference: its operands still denote what they denoted (they are used again by callers)
        if (snap(ra), snap(rb)) != s0:
            bad(op, 'operand-changed', 'operands were %r, now %r' % (s0, (snap(ra), snap(rb))))
    U = ra | rb
    unchanged('or')
    expn = [(sa.upper() + '!' if sa else '') + name(tuple(r)) for r in case['a']] + \
           [(sb.upper() + '!' if sb else '') + name(tuple(r)) for r in case['b']]
    if area_names(U) != expn:
        bad('or', 'areas', 'areas %s expected %s' % (area_names(U), expn))
    elif sa == sb:
        values_match(U, 'or')
    # intersection: exactly the common cells
    I = ra & rb
    ci = area_multiset(I)
    common = set(A) & set(B)
    if set(ci) != {(s.upper(), c, r) for s, c, r in common}:
        bad('and', 'cells', 'areas %s' % area_names(I))
    elif not common:
        if sut.matrix(I.value) != [[sut.Err('#NULL!')]]:
            bad('and', 'null', 'value %r' % sut.matrix(I.value))
    else:
        values_match(I, 'and')
    unchanged('and')
    if sa == sb:
        # a reference assembled step by step and looked at in between: areas wholly covered by values pushed earlier come
        # without a value of their own
        inc, have = sut.Ranges(), set()
        for r in case['a'] + case['b']:
            cs = set(rect_cells(tuple(r), sa))
            nm_ = (sa + '!' if sa else '') + name(tuple(r))
            if cs <= have:
                inc.push(nm_)
            else:
                inc.push(nm_, sut.np.asarray([[sut.to_repo(v) for v in row] for row in val_of(tuple(r), N, grid)], object))
                have |= cs
            inc.value  # noqa  (the look in between)
        if area_names(inc) != expn:
            bad('push', 'areas', 'areas %s expected %s' % (area_names(inc), expn))
        else:
            values_match(inc, 'push')
    # difference: exactly the cells of a that are not in b
    D = build(case['a'], sa) - build(case['b'], sb, values=False)
    unchanged('sub')
    for op_, res_ in (('or', U), ('and', I), ('sub', D)):
        if malformed(res_):
            bad(op_, 'malformed-area', 'areas %s' % area_names(res_))
    cd = area_multiset(D)
    want = {(s.upper(), c, r) for s, c, r in set(A) - set(B)}
    if set(cd) != want:
        bad('sub', 'cells', 'areas %s' % area_names(D))
    elif cd and max(cd.values()) > 1:
        # "without duplicates": also when areas of the left operand overlap one another
        bad('sub', 'cells-dup', 'areas %s' % area_names(D))
    # range operator: bounding rectangle, or an error across sheets
    allr = [tuple(r) for r in case['a'] + case['b']]
    bb = (min(r[0] for r in allr), min(r[1] for r in allr), max(r[2] for r in allr), max(r[3] for r in allr))
    try:
        S = build(case['a'], sa, values=False) + build(case['b'], sb, values=False)
        if sa != sb:
            bad('add', 'xsheet-accepted', 'areas %s' % area_names(S))
        elif area_names(S) != [(sa.upper() + '!' if sa else '') + name(bb)]:
            bad('add', 'cells', 'areas %s expected %s' % (area_names(S), name(bb)))
    except Exception as ex:  # noqa
        if sa == sb or type(ex).__name__ != 'InvalidRangeError':
            bad('add', 'raised', '%s: %s' % (type(ex).__name__, ex))
    # ... also when only a LATER area of a multi-area operand lies on the other sheet (added after seed c06-a-r6)
    if sa != sb:
        mixed = lambda: build(case['a'], sa, values=False) | build(case['b'][:1], sb, values=False)
        for what, mk3_ in (('left-mixed', lambda: mixed() + build(case['a'][:1], sa, values=False)),
                         ('right-mixed', lambda: build(case['a'][:1], sa, values=False) + mixed())):
            try:
                S3 = mk3_()
                bad('add', 'xsheet-accepted:' + what, 'areas %s' % area_names(S3))
            except Exception as ex:  # noqa
                if type(ex).__name__ != 'InvalidRangeError':
                    bad('add', 'raised:' + what, '%s: %s' % (type(ex).__name__, ex))
    # an operator result is an operand like any other: (a : b) - a, (a : b) & b, (a b) - ... on one sheet
    if sa == sb:
        try:
            S2 = build(case['a'], sa, values=False) + build(case['b'], sb, values=False)
            for nm_, other, O_ in (('a', case['a'], A), ('b', case['b'], B)):
                D2 = S2 - build(other, sa, values=False)
                if malformed(D2):
                    bad('sub-of-range-result', 'malformed-area', '(a:b) - %s -> areas %s' % (nm_, area_names(D2)))
                    continue
                cd2 = area_multiset(D2)
                want2 = {(sa.upper(), c, r) for (s_, c, r) in set(rect_cells(bb, sa)) - set(O_)}
                if set(cd2) != want2:
                    bad('sub-of-range-result', 'cells', '(a:b) - %s -> areas %s' % (nm_, area_names(D2)))
                elif cd2 and max(cd2.values()) > 1:
                    bad('sub-of-range-result', 'cells-dup', '(a:b) - %s -> areas %s' % (nm_, area_names(D2)))
                I2 = S2 & build(other, sa, values=False)
                if set(area_multiset(I2)) != {(sa.upper(), c, r) for (s_, c, r) in set(O_)}:
                    bad('and-of-range-result', 'cells', '(a:b) %s -> areas %s' % (nm_, area_names(I2)))
        except Exception as ex:  # noqa
            bad('sub-of-range-result', 'raised:%s' % type(ex).__name__, repr(ex)[:120])
    # simplify: same cell set, no duplicates (the set may span two sheets)
    if True:
        both = build(case['a'], sa, values=False) | build(case['b'], sb, values=False)
        Sm = both.simplify()
        csm = area_multiset(Sm)
        if set(csm) != {(s.upper(), c, r) for s, c, r in set(A) | set(B)}:
            bad('simplify', 'cells-lost' if len(set(csm)) < len(set(A) | set(B)) else 'cells-extra', 'areas %s' % area_names(Sm))
        elif max(csm.values()) > 1:
            bad('simplify', 'cells-dup', 'areas %s' % area_names(Sm))
    overlapping = any(v > 1 for v in (A + B).values())
    lbl = ['multi', 'xsheet' if sa != sb else 'same-sheet', 'overlapping' if overlapping else 'disjoint-areas']
    if grid:
        lbl.append('mixed-values')
    return R(_dedup(fails), nt=overlapping or sa != sb, n=5, labels=lbl)


def check_whole(case):
    """Whole-row / whole-column operands: areas only (no values)."""
    fails = []
    a, b = tuple(case['a']), tuple(case['b'])

    def ext(r):
        c1, r1, c2, r2 = r
        if r1 is None:
            r1, r2 = 1, MAXR
        if c1 is None:
            c1, c2 = 1, MAXC
        return c1, r1, c2, r2
    ea, eb = ext(a), ext(b)
    ra, rb = mk_noval(a), mk_noval(b)

    def norm(rg):
        return sorted(a[1:] for a in areas(rg))
    # intersection
    ic = (max(ea[0], eb[0]), max(ea[1], eb[1]), min(ea[2], eb[2]), min(ea[3], eb[3]))
    exp = [ic] if ic[0] <= ic[2] and ic[1] <= ic[3] else []
    got = norm(ra & rb)
    if got != exp:
        fails.append(('and|whole|cells', '%s & %s -> %s expected %s' % (name(a), name(b), area_names(ra & rb), exp)))
    bb = (min(ea[0], eb[0]), min(ea[1], eb[1]), max(ea[2], eb[2]), max(ea[3], eb[3]))
    got = norm(ra + rb)
    if got != [bb]:
        fails.append(('add|whole|cells', '%s + %s -> %s expected %s' % (name(a), name(b), area_names(ra + rb), bb)))
    # difference: compare on a window that contains all finite coordinates + 2
    D = ra - mk_noval(b)
    W = 12
    win = lambda e: {(c, r) for c in range(max(1, e[0]), min(W, e[2]) + 1) for r in range(max(1, e[1]), min(W, e[3]) + 1)}
    gotc = collections.Counter()
    for a_ in areas(D):
        for c in win(a_[1:]):
            gotc[c] += 1
    if set(gotc) != win(ea) - win(eb) or (gotc and max(gotc.values()) > 1):
        fails.append(('sub|whole|cells', '%s - %s -> %s' % (name(a), name(b), area_names(D))))
    # every area of an intersection is a rectangle that holds a cell and reads back from its own name (the leftover strips
    # of a difference with a whole row/column carry half-open names on HEAD; only their cells are asserted, above);
    # a reference intersected with itself is that reference
    res = ra & rb
    bad = [a_ for a_ in areas(res) if a_[1] > a_[3] or a_[2] > a_[4]]
    if bad or malformed(res):
        fails.append(('and|whole|malformed-area', '%s and %s -> %s (%s)' % (name(a), name(b), area_names(res), bad or malformed(res))))
    for x_ in (a, b):
        r_ = mk_noval(x_)
        raw = lambda g: [(int(q['n1']), int(q['r1']), int(q['n2']), int(q['r2'])) for q in g.ranges]
        if raw(r_ & mk_noval(x_)) != raw(r_):
            fails.append(('and|whole|self-intersection', '%s & %s -> %s' % (name(x_), name(x_), area_names(r_ & mk_noval(x_)))))
    # simplification of the union: the same cells, each once
    has_row = a[0] is None or b[0] is None
    try:
        if has_row and not case.get('simplify_rows'):
            raise StopIteration
        Sm = (ra | rb).simplify()
        gotc = collections.Counter()
        for a_ in areas(Sm):
            for c in win(a_[1:]):
                gotc[c] += 1
        if set(gotc) != win(ea) | win(eb):
            fails.append(('simplify|whole|cells', '(%s, %s).simplify() -> %s' % (name(a), name(b), area_names(Sm))))
        elif gotc and max(gotc.values()) > 1:
            fails.append(('simplify|whole|cells-dup', '(%s, %s).simplify() -> %s' % (name(a), name(b), area_names(Sm))))
    except StopIteration:
        pass
    except Exception as ex:  # noqa
        fails.append(('simplify|whole|raised:%s' % type(ex).__name__, '(%s, %s).simplify() raised %r' % (name(a), name(b), ex)))
    # an operator result is an operand like any other: (a : b) - a  and  (a : b) - b
    for sub_, es in ((ra, ea), (rb, eb)):
        try:
            D2 = (mk_noval(a) + mk_noval(b)) - sub_
            gotc = collections.Counter()
            for a_ in areas(D2):
                for c in win(a_[1:]):
                    gotc[c] += 1
            if set(gotc) != win(bb) - win(es) or (gotc and max(gotc.values()) > 1):
                fails.append(('sub|whole-of-range-result|cells', '(%s:%s) - %s -> %s' % (name(a), name(b), area_names(sub_), area_names(D2))))
        except Exception as ex:  # noqa
            fails.append(('sub|whole-of-range-result|raised:%s' % type(ex).__name__, '(%s:%s) - %s raised %r' % (name(a), name(b), area_names(sub_), ex)))
    return R(fails, nt=True, n=6, labels=['whole'])


def check_formula_multi(case):
    """=SUM / =COUNT over combined references written in formula syntax."""
    N = case['N']
    fails = []
    env = {}
    f = case['f']
    g = eval_formula(f, N)
    e = case['expect']
    e = sut.Err(e[1]) if isinstance(e, list) else float(e)
    if g != e:
        fails.append(('formula|%s' % case['shape'], '%s -> %r, expected %r' % (f, g, e)))
    return R(fails, nt=True, labels=['formula-' + case['shape']])


def check_case(case):
    k = case['k']
    if k == 'row':
        return check_row(tuple(case['a']), case['N'], case.get('formulas', False))
    if k == 'multi':
        return check_multi(case)
    if k == 'whole':
        return check_whole(case)
    if k == 'formula':
        return check_formula_multi(case)
    raise ValueError(k)


# ------------------------------------------------------------------ generators
def _rect(N):
    return st.tuples(st.integers(1, N), st.integers(1, N), st.integers(1, N), st.integers(1, N)).map(
        lambda t: [min(t[0], t[2]), min(t[1], t[3]), max(t[0], t[2]), max(t[1], t[3])])


_VALS = st.one_of(st.integers(-5, 9).map(float), st.floats(-1e6, 1e6, allow_nan=False).map(lambda x: round(x, 3)),
                  st.sampled_from(['a', 'B', '', ' ', '3', 'x y']), st.booleans(), st.none(),
                  st.sampled_from(sut.ERRORS).map(lambda e: ['E', e]))


def _multi(tier):
    N = 5

    def build(a, b, sheets, grid):
        sa, sb = sheets
        return {'k': 'multi', 'N': N, 'a': a, 'b': b, 'sa': sa, 'sb': sb, 'grid': grid}
    return st.builds(build, st.lists(_rect(N), min_size=1, max_size=3), st.lists(_rect(N), min_size=1, max_size=3),
                     st.sampled_from([('', ''), ('', ''), ('S1', 'S1'), ('S1', 'S2'), ('Sheet1', 'DATA')]),
                     st.one_of(st.none(), st.lists(st.lists(_VALS, min_size=N, max_size=N), min_size=N, max_size=N)))


def _whole(tier):
    span = st.tuples(st.integers(1, 9), st.integers(1, 9)).map(sorted)
    colr = span.map(lambda s: [s[0], None, s[1], None])
    rowr = span.map(lambda s: [None, s[0], None, s[1]])
    rect = _rect(9)
    any_ = st.one_of(colr, rowr, rect)
    # simplify() of a union holding a whole row cuts it into 16384 column slices (seconds): asked for one case in `every`
    every = 12 if tier == 'quick' else 40
    mk_ = lambda a, b, k: {'k': 'whole', 'a': a, 'b': b, 'simplify_rows': k == 0}
    return st.builds(mk_, st.one_of(colr, rowr), any_, st.integers(0, every - 1)) | \
        st.builds(mk_, any_, st.one_of(colr, rowr), st.integers(0, every - 1))


def _formula(tier):
    """Nested reference expressions: union of 2-3 areas, intersection of a union with an area, range of three."""
    N = 5
    tot = lambda cs: sum(gridval(N, r, c) for _, c, r in cs)

    def union(areas, fn):
        cs = [c for r in areas for c in rect_cells(tuple(r))]
        e = tot(cs) if fn == 'SUM' else len(cs)
        return {'k': 'formula', 'N': N, 'shape': 'union%d' % len(areas), 'f': '=%s((%s))' % (fn, ','.join(name(tuple(r)) for r in areas)), 'expect': e}

    def range3(areas, fn):
        allr = [tuple(r) for r in areas]
        bb = (min(r[0] for r in allr), min(r[1] for r in allr), max(r[2] for r in allr), max(r[3] for r in allr))
        cs = rect_cells(bb)
        e = tot(cs) if fn == 'SUM' else len(cs)
        return {'k': 'formula', 'N': N, 'shape': 'range%d' % len(areas), 'f': '=%s(%s)' % (fn, range_text(allr)), 'expect': e}

    def inter3(areas, fn):
        sets = [set(rect_cells(tuple(r))) for r in areas]
        cs = set.intersection(*sets)
        if cs:
            e = tot(cs) if fn == 'SUM' else len(cs)
        else:
            e = ['E', '#NULL!'] if fn == 'SUM' else 0
        return {'k': 'formula', 'N': N, 'shape': 'inter%d' % len(areas), 'f': '=%s(%s)' % (fn, ' '.join(name(tuple(r)) for r in areas)), 'expect': e}
    fn = st.sampled_from(['SUM', 'COUNT'])
    return st.one_of(st.builds(union, st.lists(_rect(N), min_size=2, max_size=3), fn),
                     st.builds(range3, st.lists(_rect(N), min_size=2, max_size=3), fn),
                     st.builds(inter3, st.lists(_rect(N), min_size=2, max_size=3), fn))


STRATEGIES = {'multi': _multi, 'whole': _whole, 'formula': _formula}


def parts(tier, seed):
    q = tier == 'quick'
    N = 4 if q else 5
    rows = [{'k': 'row', 'a': list(a), 'N': N, 'formulas': True} for a in all_rects(N)]
    return [
        ('enum', 'pairs%dx%d' % (N, N), rows, 1, True),
        ('hyp', 'multi', 1500 if q else 40000),
        ('hyp', 'whole', 400 if q else 8000),
        ('hyp', 'formula', 600 if q else 20000),
    ]
