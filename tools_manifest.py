#!/opt/veriftools/pyvenv/bin/python
"""Regenerates MANIFEST.json from the table below (run by hand after editing)."""
import json, os
ROOT = os.path.dirname(os.path.abspath(__file__))
BASE = ("cd /repo && /venv/bin/python -m pytest -ra -q -p no:cacheprovider --timeout=900 "
        "--continue-on-collection-errors")
CHECKS = {}


def chk(pid, technique, text, note, ref):
    CHECKS[pid] = dict(technique=technique, text=text, note=note, ref=ref)


exec(open(os.path.join(ROOT, 'manifest_entries.py')).read())
props = [json.loads(l)['id'] for l in open(os.path.join(ROOT, 'properties.jsonl'))]
NA = json.load(open(os.path.join(ROOT, 'not_applicable.json')))
na = [x for x in NA if x['property_id'] not in CHECKS]
missing = [p for p in props if p not in CHECKS and p not in {x['property_id'] for x in na}]
assert not missing, missing
m = {
    "version": 1,
    "setup_cmd": "./check setup",
    "hooks": {"guard": "FORMULAS_VERIF", "enable": "none needed: checks import /repo's working tree directly (pure Python); no guarded source commits exist",
              "baseline_off_cmd": BASE, "source_commits": [], "add_only": True},
    "engines": [{"name": "vf", "path": "vf/", "serves_properties": sorted(CHECKS),
                 "kind_free_text": "Hypothesis strategies / state machines, exhaustive enumeration of finite sub-spaces over 16 processes, atheris fuzz target; own reference semantics (vf/xlref) as oracle"}],
    "checks": [{
        "property_id": p, "quick_cmd": "./check %s quick" % p, "thorough_cmd": "./check %s thorough" % p,
        "evidence_file": "evidence/%s.json" % p, "replay_cmd_template": "./check replay {path}", "engine": "vf",
        "level_claimed": {"category": "exploration", "text": c['text'], "design_ref": c['ref']},
        "level_note": c['note'], "technique": c['technique']} for p, c in sorted(CHECKS.items())],
    "not_applicable": na,
    "notes": "Exit 0 = held on everything explored (KNOWN-FINDING lines for listed open findings), 1 = VIOLATION, 2 = harness error. VERIF_SEED honoured; PYTHONHASHSEED pinned to 0 by ./check.",
}
json.dump(m, open(os.path.join(ROOT, 'MANIFEST.json'), 'w'), indent=1)
import jsonschema
jsonschema.validate(m, json.load(open('/root/.vp/MANIFEST.schema.json')))
print('MANIFEST ok: %d checks, %d not_applicable' % (len(m['checks']), len(na)))
